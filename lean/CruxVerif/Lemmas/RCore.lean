/- Well-formedness of stored blocks under the Core host (commands' tasks, the executor's legacy tasks, its spawn queue). -/
import CruxVerif.Lemmas.GPark
import CruxVerif.Lemmas.BridgeInv
namespace M.Rt

structure WFC (k : Core) : Prop where
  w : WFw k.w
  t : ∀ b, ExecTask.legacy b ∈ k.execTasks.values → inR (LL k.w) b
  s : ∀ b, ExecTask.legacy b ∈ k.w.execSpawn → inR (LL k.w) b

theorem WFC.world {k : Core} (h : WFC k) (w' : World) (hw : WFw w') (hl : LLe (LL k.w) (LL w'))
    (hs : ∀ b, ExecTask.legacy b ∈ w'.execSpawn → ExecTask.legacy b ∈ k.w.execSpawn ∨ inR (LL w') b) : WFC { k with w := w' } :=
  ⟨hw, fun b hb => (h.t b hb).mono hl, fun b hb => (hs b hb).elim (fun h' => (h.s b h').mono hl) id⟩

theorem spawnerLoop_wf : ∀ (f etid cid : Nat) (w : World) (d : Bool) (w' : World),
    spawnerLoop f etid cid w = some (d, w') → WFw w → WFw w' ∧ LLe (LL w) (LL w') ∧ w'.execSpawn = w.execSpawn := by
  intro f
  induction f with
  | zero => intro etid cid w d w' h; simp [spawnerLoop] at h
  | succ f ih =>
    intro etid cid w d w' h hw
    unfold spawnerLoop at h
    split at h
    · cases h
    · rename_i e w1 hp
      have k1 := pollNext_w _ _ _ _ _ hp hw
      have x1 := es_of_X (pollNext_x _ _ _ _ _ hp)
      have := ih etid cid _ d w' h (k1.1.tk0_eq (w' := w1.sinkEffect .core e) (tk_of_cmds rfl) rfl)
      exact ⟨this.1, LLe.trans ⟨k1.2.1, k1.2.2⟩ this.2.1, by rw [this.2.2]; exact x1⟩
    · rename_i e w1 hp
      have k1 := pollNext_w _ _ _ _ _ hp hw
      have x1 := es_of_X (pollNext_x _ _ _ _ _ hp)
      have := ih etid cid _ d w' h (k1.1.tk0_eq (w' := w1.sinkEvent .core e) (tk_of_cmds rfl) rfl)
      exact ⟨this.1, LLe.trans ⟨k1.2.1, k1.2.2⟩ this.2.1, by rw [this.2.2]; exact x1⟩
    · rename_i w1 hp
      have k1 := pollNext_w _ _ _ _ _ hp hw
      have x1 := es_of_X (pollNext_x _ _ _ _ _ hp)
      simp only [Option.some.injEq, Prod.mk.injEq] at h
      obtain ⟨_, rfl⟩ := h
      refine ⟨WFw_World_dropCmd w1 cid k1.1, ?_, by rw [es_of_X (X_World_dropCmd w1 cid)]; exact x1⟩
      rw [LL_World_dropCmd]; exact ⟨k1.2.1, k1.2.2⟩
    · rename_i w1 hp
      have k1 := pollNext_w _ _ _ _ _ hp hw
      have x1 := es_of_X (pollNext_x _ _ _ _ _ hp)
      simp only [Option.some.injEq, Prod.mk.injEq] at h
      obtain ⟨_, rfl⟩ := h
      exact ⟨k1.1, ⟨k1.2.1, k1.2.2⟩, x1⟩

theorem execRunTask_wf (etid : Nat) (k : Core) (st : RunTask) (k' : Core) (h : execRunTask etid k = some (st, k'))
    (hk : WFC k) : WFC k' := by
  unfold execRunTask at h
  split at h
  · simp only [Option.some.injEq, Prod.mk.injEq] at h; obtain ⟨_, rfl⟩ := h; exact hk
  · rename_i cid hg
    split at h
    · cases h
    · rename_i w1 hs
      simp only [Option.some.injEq, Prod.mk.injEq] at h; obtain ⟨_, rfl⟩ := h
      have s := spawnerLoop_wf _ _ _ _ _ _ hs hk.w
      have := hk.world w1 s.1 s.2.1 (fun b hb => Or.inl (by rw [s.2.2] at hb; exact hb))
      exact ⟨this.w, fun b hb => this.t b (Slab.mem_values_remove _ _ _ hb), this.s⟩
    · rename_i w1 hs
      simp only [Option.some.injEq, Prod.mk.injEq] at h; obtain ⟨_, rfl⟩ := h
      have s := spawnerLoop_wf _ _ _ _ _ _ hs hk.w
      exact hk.world w1 s.1 s.2.1 (fun b hb => Or.inl (by rw [s.2.2] at hb; exact hb))
  · rename_i b hg
    have hbr : inR (LL k.w) b := hk.t b (Slab.mem_values_of_get _ _ _ hg)
    have common : ∀ (r : PollRes) (w1 : World), pollAt depthFuel (.root etid) .core b k.w = some (r, w1) →
        WFC { k with w := w1 } ∧ rangeRes w1 r := by
      intro r w1 hp
      have p := pollAt_w depthFuel _ _ _ _ _ _ hp hk.w hbr
      refine ⟨hk.world w1 p.1 ⟨p.2.1, p.2.2.1⟩ ?_, p.2.2.2.1⟩
      intro b' hb'
      rcases p.2.2.2.2 _ hb' with h' | h'
      · exact Or.inl h'
      · exact Or.inr h'
    split at h
    · cases h
    · rename_i env1 w1 hp
      simp only [Option.some.injEq, Prod.mk.injEq] at h; obtain ⟨_, rfl⟩ := h
      have c := (common _ w1 hp).1
      exact ⟨c.w, fun b' hb' => c.t b' (Slab.mem_values_remove _ _ _ hb'), c.s⟩
    · rename_i b' w1 hp
      simp only [Option.some.injEq, Prod.mk.injEq] at h; obtain ⟨_, rfl⟩ := h
      have c := common _ w1 hp
      refine ⟨c.1.w, ?_, c.1.s⟩
      intro b2 hb2
      rcases Slab.mem_values_set _ _ _ _ hb2 with e | h'
      · cases e; exact c.2
      · exact c.1.t b2 h'

theorem WFC.of_fields {k k' : Core} (h : WFC k) (hc : k'.w.cmds = k.w.cmds) (hl : LL k'.w = LL k.w)
    (hs : k'.w.execSpawn = k.w.execSpawn) (ht : k'.execTasks = k.execTasks) : WFC k' :=
  ⟨h.w.same hc hl, by rw [ht, hl]; exact h.t, by rw [hs, hl]; exact h.s⟩

theorem execDrainSpawn_wf : ∀ (f : Nat) (k : Core) (d : Bool) (k' : Core) (d' : Bool),
    execDrainSpawn f k d = some (k', d') → WFC k → WFC k' := by
  intro f
  induction f with
  | zero => intro k d k' d' h; simp [execDrainSpawn] at h
  | succ f ih =>
    intro k d k' d' h hk
    unfold execDrainSpawn at h
    split at h
    · simp only [Option.some.injEq, Prod.mk.injEq] at h; obtain ⟨rfl, _⟩ := h; exact hk
    · rename_i t rest hsp
      simp only at h
      split at h
      · cases h
      · rename_i st k1 hr
        refine ih k1 true k' d' h (execRunTask_wf _ _ _ _ hr ?_)
        refine ⟨hk.w.same rfl rfl, ?_, ?_⟩
        · intro b hb
          rcases Slab.mem_values_insert _ _ _ hb with e | hb
          · exact hk.s b (by rw [hsp, ← e]; simp)
          · exact hk.t b hb
        · intro b hb
          exact hk.s b (by rw [hsp]; simp [show ExecTask.legacy b ∈ rest from hb])

theorem execDrainReady_wf : ∀ (f : Nat) (k : Core) (d : Bool) (k' : Core) (d' : Bool),
    execDrainReady f k d = some (k', d') → WFC k → WFC k' := by
  intro f
  induction f with
  | zero => intro k d k' d' h; simp [execDrainReady] at h
  | succ f ih =>
    intro k d k' d' h hk
    unfold execDrainReady at h
    split at h
    · simp only [Option.some.injEq, Prod.mk.injEq] at h; obtain ⟨rfl, _⟩ := h; exact hk
    · rename_i etid rest _
      have k0 : WFC { k with w := { k.w with execReady := rest } } := hk.of_fields rfl rfl rfl rfl
      split at h
      · cases h
      · rename_i k1 hr
        exact ih k1 d k' d' h (execRunTask_wf _ _ _ _ hr k0)
      · rename_i st k1 _ hr
        exact ih k1 true k' d' h (execRunTask_wf _ _ _ _ hr k0)

theorem runAll_wf : ∀ (f : Nat) (k k' : Core), runAll f k = some k' → WFC k → WFC k' := by
  intro f
  induction f with
  | zero => intro k k' h; simp [runAll] at h
  | succ f ih =>
    intro k k' h hk
    unfold runAll at h
    split at h
    · cases h
    · rename_i k1 d1 h1
      have s1 := execDrainSpawn_wf _ _ _ _ _ h1 hk
      split at h
      · cases h
      · rename_i k2 d2 h2
        have s2 := execDrainReady_wf _ _ _ _ _ h2 s1
        split at h
        · exact ih k2 k' h s2
        · simp only [Option.some.injEq] at h; subst h; exact s2

theorem update_body_wf (k : Core) (ev : Ev) (v : Val) (cmd : Cmd) (ls : List (List Instr)) (hk : WFC k) :
    WFC { k with
      w := { (instantiate { vars := [(0, v)] } cmd { k.w with execSpawn := k.w.execSpawn ++ ls.map fun is => ExecTask.legacy (.mk { vars := [(0, v)] } .idle is) }).2 with
        execSpawn := (instantiate { vars := [(0, v)] } cmd { k.w with execSpawn := k.w.execSpawn ++ ls.map fun is => ExecTask.legacy (.mk { vars := [(0, v)] } .idle is) }).2.execSpawn ++
          [.cmd (instantiate { vars := [(0, v)] } cmd { k.w with execSpawn := k.w.execSpawn ++ ls.map fun is => ExecTask.legacy (.mk { vars := [(0, v)] } .idle is) }).1] },
      log := k.log ++ [ev] } := by
  generalize hw0 : ({ k.w with execSpawn := k.w.execSpawn ++ ls.map fun is => ExecTask.legacy (.mk { vars := [(0, v)] } .idle is) } : World) = w0
  have hl0 : LL w0 = LL k.w := by subst hw0; rfl
  have hwf0 : WFw w0 := by subst hw0; exact hk.w.same rfl rfl
  have bi := instantiate_bw { vars := [(0, v)] } cmd w0 hwf0 rfl
  have xi := es_of_X (X_instantiate { vars := [(0, v)] } cmd w0)
  have hes : w0.execSpawn = k.w.execSpawn ++ ls.map fun is => ExecTask.legacy (.mk { vars := [(0, v)] } .idle is) := by subst hw0; rfl
  have hle : LLe (LL k.w) (LL (instantiate { vars := [(0, v)] } cmd w0).2) := by
    rw [← hl0]; exact ⟨by rw [bi.l]; exact Nat.le_refl _, bi.m⟩
  refine ⟨bi.wf.same rfl rfl, fun b hb => (hk.t b hb).mono hle, ?_⟩
  intro b hb
  show inR (LL (instantiate { vars := [(0, v)] } cmd w0).2) b
  simp only [List.mem_append, List.mem_singleton] at hb
  rcases hb with hb | hb
  · rw [xi, hes] at hb
    simp only [List.mem_append, List.mem_map] at hb
    rcases hb with hb | ⟨is, _, e⟩
    · exact (hk.s b hb).mono hle
    · cases e
      show inRangeB _ _ _ = true
      simp [inRangeB, inRangeP, envOk]
  · cases hb

theorem update_wf (ev : Ev) (k : Core) (hk : WFC k) : WFC (update ev k) := by
  unfold update
  simp only
  split <;> exact update_body_wf k ev _ _ _ hk

theorem processLoop_wf : ∀ (f : Nat) (k k' : Core), processLoop f k = some k' → WFC k → WFC k' := by
  intro f
  induction f with
  | zero => intro k k' h; simp [processLoop] at h
  | succ f ih =>
    intro k k' h hk
    unfold processLoop at h
    split at h
    · simp only [Option.some.injEq] at h; subst h; exact hk
    · rename_i ev rest _
      split at h
      · cases h
      · rename_i k1 hr
        have k0 : WFC { k with w := { k.w with coreEvents := rest } } := hk.of_fields rfl rfl rfl rfl
        exact ih k1 k' h (runAll_wf _ _ _ hr (update_wf ev _ k0))

theorem process_wf (k : Core) (es : List Eff) (k' : Core) (h : process k = some (es, k')) (hk : WFC k) : WFC k' := by
  unfold process at h
  split at h
  · cases h
  · rename_i k1 h1
    split at h
    · cases h
    · rename_i k2 h2
      simp only [Option.some.injEq, Prod.mk.injEq] at h
      obtain ⟨_, rfl⟩ := h
      exact (processLoop_wf _ _ _ h2 (runAll_wf _ _ _ h1 hk)).of_fields rfl rfl rfl rfl

theorem processEvent_wf (ev : Ev) (k : Core) (es : List Eff) (k' : Core) (h : processEvent ev k = some (es, k'))
    (hk : WFC k) : WFC k' := process_wf _ _ _ h (update_wf ev k hk)

end M.Rt

namespace M.Hosts
open M.Rt

/-- the Core host, generically: an invariant of the Core that its five operations preserve holds in every state reached -/
theorem CoreHost.afterCall_inv {P : Core → Prop} (ops : CoreOps P) (res : String) (effs : List Eff) (oldLen : Nat)
    (trigger : Option Ev) (h : CoreHost) (o : Obs) (h' : CoreHost)
    (hc : CoreHost.afterCall res effs oldLen trigger h = some (o, h')) (hw : P h.k) : P h'.k := by
  unfold CoreHost.afterCall at hc
  simp only [CoreHost.record] at hc
  cases hp : processEvent ⟨probeTag, 0⟩ h.k with
  | none => simp [hp] at hc
  | some p =>
    obtain ⟨peffs, k⟩ := p
    simp [hp] at hc
    obtain ⟨_, rfl⟩ := hc
    exact ops.pe _ _ _ _ hp hw

theorem CoreHost.step_inv {P : Core → Prop} (ops : CoreOps P) (h : CoreHost) (a : Action) (o : Obs) (h' : CoreHost)
    (hs : h.step a = some (o, h')) (hw : P h.k) : P h'.k := by
  unfold CoreHost.step at hs
  simp only at hs
  cases a with
  | ev tag v =>
    simp only at hs
    cases hp : processEvent ⟨tag, v⟩ h.k with
    | none => simp [hp] at hs
    | some p =>
      obtain ⟨effs, k⟩ := p
      simp [hp] at hs
      exact CoreHost.afterCall_inv ops _ _ _ _ _ _ _ hs (ops.pe _ _ _ _ hp hw)
  | res kk v =>
    simp only at hs
    split at hs
    · exact CoreHost.afterCall_inv ops _ _ _ _ _ _ _ hs hw
    · rename_i reqs res w1 hr
      have k1 : P { h.k with w := w1 } := by
        unfold shellResolve at hr
        split at hr
        · cases hr
        · rename_i e _
          simp only [Option.some.injEq, Prod.mk.injEq] at hr
          obtain ⟨_, _, rfl⟩ := hr
          exact ops.res h.k e.res v hw
      split at hs
      · split at hs
        · cases hs
        · rename_i effs k2 hpr
          exact CoreHost.afterCall_inv ops _ _ _ _ _ _ _ hs (ops.pr _ _ _ hpr k1)
      · exact CoreHost.afterCall_inv ops _ _ _ _ _ _ _ hs k1
  | drop kk =>
    simp only at hs
    split at hs
    · exact CoreHost.afterCall_inv ops _ _ _ _ _ _ _ hs hw
    · rename_i reqs w1 hr
      refine CoreHost.afterCall_inv ops _ _ _ _ _ _ _ hs ?_
      unfold shellDrop at hr
      split at hr
      · cases hr
      · rename_i e _
        simp only [Option.some.injEq, Prod.mk.injEq] at hr
        obtain ⟨_, rfl⟩ := hr
        unfold dropReq
        split
        · exact ops.ds h.k _ hw
        · exact ops.ds h.k _ hw
        · exact hw
        · exact hw
  | abort n =>
    simp only at hs
    exact CoreHost.afterCall_inv ops _ _ _ _ _ _ _ hs (ops.ab h.k n hw)
  | poll => exact CoreHost.afterCall_inv ops _ _ _ _ _ _ _ hs hw
  | rawRes _ _ _ => simp at hs
  | rawEv _ _ => simp at hs

theorem runCore_inv {P : Core → Prop} (ops : CoreOps P) (prog : Prog) (h0 : P ({ prog := prog } : Core)) (canon : Bool)
    (acts : List Action) (os : List Obs) (h : CoreHost) (hr : runCore prog canon acts = some (os, h)) : P h.k := by
  unfold runCore at hr
  exact runSteps_inv CoreHost.step (fun h => P h.k) (CoreHost.step_inv ops) acts _ os h hr h0

theorem WFC_ops : CoreOps WFC where
  pe := fun ev k es k' h hk => processEvent_wf ev k es k' h hk
  pr := fun k es k' h hk => process_wf k es k' h hk
  res := fun k r v hk => hk.world _ (hk.w.tk0_eq (tk0_resolveReq r v k.w) (LL_resolveReq r v k.w))
    (by rw [LL_resolveReq]; exact LLe.refl _) (fun b hb => Or.inl (by rw [es_of_X (X_resolveReq r v k.w)] at hb; exact hb))
  ds := fun k l hk => hk.world _ (hk.w.tk0_eq (tk0_dropSender k.w l) (LL_dropSender k.w l))
    (by rw [LL_dropSender]; exact LLe.refl _) (fun b hb => Or.inl (by rw [es_of_X (X_dropSender k.w l)] at hb; exact hb))
  ab := fun k n hk => by
    refine hk.world _ ?_ ?_ (fun b hb => Or.inl (by rw [es_of_X (X_doAbort n k.w)] at hb; exact hb))
    · unfold doAbort; split
      · exact yw_abortCmd _ hk.w
      · exact hk.w
    · unfold doAbort; split
      · rw [LL_abortCmd]; exact LLe.refl _
      · exact LLe.refl _

theorem WFC_init (prog : Prog) : WFC ({ prog := prog } : Core) :=
  ⟨WFw_empty, fun b hb => by simp [Slab.values] at hb, fun b hb => by cases hb⟩

end M.Hosts
