/- Freshness through building commands, the shell's operations and the Core. -/
import CruxVerif.Lemmas.FreshExec
namespace M.Rt

theorem newCmd_keeps (env : Env) (is : List Instr) (w : World) (hw : SOk w) : Keeps w (newCmd env is w).2 := by
  unfold newCmd
  simp only
  refine Keeps.of_step hw rfl ?_
  have h1 : SOkN w.nextSerial w.newMeta.2 := SOkN.newMeta hw
  refine ⟨h1.leaves, h1.metas, ?_, h1.woken⟩
  intro c hc
  simp only [List.mem_append, List.mem_singleton] at hc
  rcases hc with hc | rfl
  · exact h1.cmds c hc
  · trivial

theorem spawnOn_keeps (cid : Nat) (env : Env) (is : List Instr) (w : World) (hw : SOk w) : Keeps w (spawnOn cid env is w) := by
  unfold spawnOn
  simp only
  refine Keeps.of_step hw rfl ?_
  refine SOkN.modCmd (SOkN.newMeta hw) cid _ ?_
  intro _ hx; exact hx

theorem Keeps.set_aborts {W : World} (h : SOk W) (l : List (Nat × Nat)) : Keeps W ({ W with aborts := l } : World) :=
  Keeps.of_step h rfl (SOkN.of_same h rfl rfl rfl rfl)

mutual
theorem instantiate_keeps (env : Env) : (c : Cmd) → (w : World) → SOk w → Keeps w (instantiate env c w).2
  | .done, w, hw => by simp only [instantiate]; exact newCmd_keeps env _ w hw
  | .event _ _, w, hw => by simp only [instantiate]; exact newCmd_keeps env _ w hw
  | .notify _ _, w, hw => by simp only [instantiate]; exact newCmd_keeps env _ w hw
  | .req _ _ _, w, hw => by simp only [instantiate]; exact newCmd_keeps env _ w hw
  | .stream _ _ _, w, hw => by simp only [instantiate]; exact newCmd_keeps env _ w hw
  | .chain _ _ _ _ _, w, hw => by simp only [instantiate]; exact newCmd_keeps env _ w hw
  | .task _, w, hw => by simp only [instantiate]; exact newCmd_keeps env _ w hw
  | .thenC a b, w, hw => by
    simp only [instantiate]
    have k1 := instantiate_keeps env a w hw
    have k2 := instantiate_keeps env b _ k1.1
    exact (k1.trans k2).trans (newCmd_keeps env _ _ k2.1)
  | .andC a b, w, hw => by
    simp only [instantiate]
    have k1 := instantiate_keeps env b w hw
    have k2 := instantiate_keeps env a _ k1.1
    have k3 := Keeps.set_aborts k2.1
      ((instantiate env a (instantiate env b w).2).2.aborts.take w.aborts.length ++
        (instantiate env a (instantiate env b w).2).2.aborts.drop (instantiate env b w).2.aborts.length ++
        ((instantiate env a (instantiate env b w).2).2.aborts.drop w.aborts.length).take
          ((instantiate env b w).2.aborts.length - w.aborts.length))
    exact ((k1.trans k2).trans k3).trans (spawnOn_keeps _ env _ _ k3.1)
  | .all cs, w, hw => by
    simp only [instantiate]
    have k1 := instantiateAll_keeps env cs w hw
    have k2 := newCmd_keeps env [] _ k1.1
    have hP : ∀ (l : List Nat) (c : Nat) (W : World), SOk W → Keeps W (l.foldl (fun w ci => spawnOn c env [.host ci .id] w) W) := by
      intro l c
      induction l with
      | nil => intro W h; exact Keeps.refl h
      | cons x l ih =>
        intro W h
        simp only [List.foldl_cons]
        have := spawnOn_keeps c env [.host x .id] W h
        exact this.trans (ih _ this.1)
    exact (k1.trans k2).trans (hP _ _ _ k2.1)
  | .mapEf _ c, w, hw => by
    simp only [instantiate]
    have k1 := instantiate_keeps env c w hw
    exact k1.trans (newCmd_keeps env _ _ k1.1)
  | .mapEv _ c, w, hw => by
    simp only [instantiate]
    have k1 := instantiate_keeps env c w hw
    exact k1.trans (newCmd_keeps env _ _ k1.1)
  | .abortable _ c, w, hw => by
    simp only [instantiate]
    have k1 := instantiate_keeps env c w hw
    exact k1.trans (Keeps.of_step k1.1 rfl (SOkN.of_same k1.1 rfl rfl rfl rfl))
theorem instantiateAll_keeps (env : Env) : (cs : List Cmd) → (w : World) → SOk w → Keeps w (instantiateAll env cs w).2
  | [], w, hw => by simp only [instantiateAll]; exact Keeps.refl hw
  | c :: cs, w, hw => by
    simp only [instantiateAll]
    have k1 := instantiate_keeps env c w hw
    exact k1.trans (instantiateAll_keeps env cs _ k1.1)
end

theorem resolveReq_keeps (r : Resolve) (v : Val) (w : World) (hw : SOk w) : Keeps w (resolveReq r v w).2.2 := by
  have hN : SOkN w.nextSerial w := hw
  unfold resolveReq
  cases r with
  | never => exact Keeps.refl hw
  | gone => exact Keeps.refl hw
  | once l =>
    simp only
    have hlw := hN.leaf_waker l
    split
    · have h1 : SOkN w.nextSerial (w.modLeaf l fun lf => { lf with queue := lf.queue ++ [v], waker := none }) := by
        refine hN.modLeaf l _ ?_
        intro _ _; trivial
      split
      · rename_i k hk
        rw [hk] at hlw
        refine Keeps.of_step hw ?_ ((h1.World_wake k hlw).dropSender l)
        rw [ns_dropSender, ns_World_wake]; rfl
      · refine Keeps.of_step hw ?_ (h1.dropSender l)
        rw [ns_dropSender]; rfl
    · exact Keeps.of_step hw (ns_dropSender w l) (hN.dropSender l)
  | many l =>
    simp only
    have hlw := hN.leaf_waker l
    split
    · have h1 : SOkN w.nextSerial (w.modLeaf l fun lf => { lf with queue := lf.queue ++ [v], waker := none }) := by
        refine hN.modLeaf l _ ?_
        intro _ _; trivial
      split
      · rename_i k hk
        rw [hk] at hlw
        refine Keeps.of_step hw ?_ (h1.World_wake k hlw)
        rw [ns_World_wake]; rfl
      · exact Keeps.of_step hw rfl h1
    · exact Keeps.refl hw

theorem dropReq_keeps (r : Resolve) (w : World) (hw : SOk w) : Keeps w (dropReq r w).2 := by
  unfold dropReq
  split
  · exact Keeps.of_step hw (ns_dropSender w _) (SOkN.dropSender hw _)
  · exact Keeps.of_step hw (ns_dropSender w _) (SOkN.dropSender hw _)
  · exact Keeps.refl hw
  · exact Keeps.refl hw

theorem takeEffects_keeps (cid : Nat) (w : World) (es : List Eff) (w' : World) (h : takeEffects cid w = some (es, w'))
    (hw : SOk w) : Keeps w w' := by
  unfold takeEffects at h
  split at h
  · cases h
  · rename_i w1 hs
    simp only [Option.some.injEq, Prod.mk.injEq] at h
    obtain ⟨_, rfl⟩ := h
    have k1 := runUntilSettled_ok cid w w1 hs hw
    refine k1.trans (Keeps.of_step k1.1 rfl ?_)
    refine SOkN.modCmd k1.1 cid _ ?_
    intro _ hx; exact hx

theorem takeEvents_keeps (cid : Nat) (w : World) (es : List Ev) (w' : World) (h : takeEvents cid w = some (es, w'))
    (hw : SOk w) : Keeps w w' := by
  unfold takeEvents at h
  split at h
  · cases h
  · rename_i w1 hs
    simp only [Option.some.injEq, Prod.mk.injEq] at h
    obtain ⟨_, rfl⟩ := h
    have k1 := runUntilSettled_ok cid w w1 hs hw
    refine k1.trans (Keeps.of_step k1.1 rfl ?_)
    refine SOkN.modCmd k1.1 cid _ ?_
    intro _ hx; exact hx

theorem isDone_keeps (cid : Nat) (w : World) (d : Bool) (w' : World) (h : isDone cid w = some (d, w')) (hw : SOk w) :
    Keeps w w' := by
  unfold isDone at h
  split at h
  · cases h
  · rename_i w1 hs
    simp only [Option.some.injEq, Prod.mk.injEq] at h
    obtain ⟨_, rfl⟩ := h
    exact runUntilSettled_ok cid w w1 hs hw

/-- the world a fresh host starts from -/
theorem SOk_empty : SOk ({} : World) := by
  refine ⟨?_, ?_, ?_, ?_⟩ <;> (intro _ h; cases h)

/-! ### Core -/

theorem spawnerLoop_keeps : ∀ (f etid cid : Nat) (w : World) (d : Bool) (w' : World),
    spawnerLoop f etid cid w = some (d, w') → SOk w → Keeps w w' := by
  intro f
  induction f with
  | zero => intro etid cid w d w' h; simp [spawnerLoop] at h
  | succ f ih =>
    intro etid cid w d w' h hw
    unfold spawnerLoop at h
    have hwk : wkB w.nextSerial (.root etid) := trivial
    split at h
    · cases h
    · rename_i e w1 hp
      have k1 := pollNext_ok _ _ _ _ _ hp hwk hw
      have k2 : Keeps w1 (w1.sinkEffect .core e) := Keeps.of_step k1.1 rfl (SOkN.sinkEffect k1.1 .core e)
      exact (k1.trans k2).trans (ih etid cid _ d w' h k2.1)
    · rename_i e w1 hp
      have k1 := pollNext_ok _ _ _ _ _ hp hwk hw
      have k2 : Keeps w1 (w1.sinkEvent .core e) := Keeps.of_step k1.1 rfl (SOkN.sinkEvent k1.1 .core e)
      exact (k1.trans k2).trans (ih etid cid _ d w' h k2.1)
    · rename_i w1 hp
      have k1 := pollNext_ok _ _ _ _ _ hp hwk hw
      simp only [Option.some.injEq, Prod.mk.injEq] at h
      obtain ⟨_, rfl⟩ := h
      exact k1.trans (Keeps.of_step k1.1 (ns_World_dropCmd w1 cid) (SOkN.World_dropCmd k1.1 cid))
    · rename_i w1 hp
      have k1 := pollNext_ok _ _ _ _ _ hp hwk hw
      simp only [Option.some.injEq, Prod.mk.injEq] at h
      obtain ⟨_, rfl⟩ := h
      exact k1

theorem execRunTask_keeps (etid : Nat) (k : Core) (st : RunTask) (k' : Core) (h : execRunTask etid k = some (st, k'))
    (hw : SOk k.w) : Keeps k.w k'.w := by
  unfold execRunTask at h
  split at h
  · simp only [Option.some.injEq, Prod.mk.injEq] at h; obtain ⟨_, rfl⟩ := h; exact Keeps.refl hw
  · rename_i cid _
    split at h
    · cases h
    · rename_i w1 hs
      simp only [Option.some.injEq, Prod.mk.injEq] at h; obtain ⟨_, rfl⟩ := h
      exact spawnerLoop_keeps _ _ _ _ _ _ hs hw
    · rename_i w1 hs
      simp only [Option.some.injEq, Prod.mk.injEq] at h; obtain ⟨_, rfl⟩ := h
      exact spawnerLoop_keeps _ _ _ _ _ _ hs hw
  · rename_i b _
    have hwk : wkB k.w.nextSerial (.root etid) := trivial
    split at h
    · cases h
    · rename_i env1 w1 hp
      simp only [Option.some.injEq, Prod.mk.injEq] at h; obtain ⟨_, rfl⟩ := h
      exact pollAt_ok depthFuel _ _ _ _ _ _ hp hwk hw
    · rename_i b' w1 hp
      simp only [Option.some.injEq, Prod.mk.injEq] at h; obtain ⟨_, rfl⟩ := h
      exact pollAt_ok depthFuel _ _ _ _ _ _ hp hwk hw

theorem execDrainSpawn_keeps : ∀ (f : Nat) (k : Core) (d : Bool) (k' : Core) (d' : Bool),
    execDrainSpawn f k d = some (k', d') → SOk k.w → Keeps k.w k'.w := by
  intro f
  induction f with
  | zero => intro k d k' d' h; simp [execDrainSpawn] at h
  | succ f ih =>
    intro k d k' d' h hw
    unfold execDrainSpawn at h
    split at h
    · simp only [Option.some.injEq, Prod.mk.injEq] at h; obtain ⟨rfl, _⟩ := h; exact Keeps.refl hw
    · rename_i t rest _
      simp only at h
      have k0 : Keeps k.w ({ k.w with execSpawn := rest } : World) :=
        Keeps.of_step hw rfl (SOkN.of_same hw rfl rfl rfl rfl)
      split at h
      · cases h
      · rename_i st k1 hr
        have k1' := execRunTask_keeps _ _ _ _ hr k0.1
        exact (k0.trans k1').trans (ih k1 true k' d' h k1'.1)

theorem execDrainReady_keeps : ∀ (f : Nat) (k : Core) (d : Bool) (k' : Core) (d' : Bool),
    execDrainReady f k d = some (k', d') → SOk k.w → Keeps k.w k'.w := by
  intro f
  induction f with
  | zero => intro k d k' d' h; simp [execDrainReady] at h
  | succ f ih =>
    intro k d k' d' h hw
    unfold execDrainReady at h
    split at h
    · simp only [Option.some.injEq, Prod.mk.injEq] at h; obtain ⟨rfl, _⟩ := h; exact Keeps.refl hw
    · rename_i etid rest _
      have k0 : Keeps k.w ({ k.w with execReady := rest } : World) :=
        Keeps.of_step hw rfl (SOkN.of_same hw rfl rfl rfl rfl)
      split at h
      · cases h
      · rename_i k1 hr
        have k1' := execRunTask_keeps _ _ _ _ hr k0.1
        exact (k0.trans k1').trans (ih k1 d k' d' h k1'.1)
      · rename_i st k1 _ hr
        have k1' := execRunTask_keeps _ _ _ _ hr k0.1
        exact (k0.trans k1').trans (ih k1 true k' d' h k1'.1)

theorem runAll_keeps : ∀ (f : Nat) (k k' : Core), runAll f k = some k' → SOk k.w → Keeps k.w k'.w := by
  intro f
  induction f with
  | zero => intro k k' h; simp [runAll] at h
  | succ f ih =>
    intro k k' h hw
    unfold runAll at h
    split at h
    · cases h
    · rename_i k1 d1 h1
      have s1 := execDrainSpawn_keeps _ _ _ _ _ h1 hw
      split at h
      · cases h
      · rename_i k2 d2 h2
        have s2 := execDrainReady_keeps _ _ _ _ _ h2 s1.1
        split at h
        · exact (s1.trans s2).trans (ih k2 k' h s2.1)
        · simp only [Option.some.injEq] at h; subst h; exact s1.trans s2

theorem update_body_keeps (w : World) (env : Env) (cmd : Cmd) (lst : List ExecTask) (hw : SOk w) :
    Keeps w ({ (instantiate env cmd { w with execSpawn := w.execSpawn ++ lst }).2 with
      execSpawn := (instantiate env cmd { w with execSpawn := w.execSpawn ++ lst }).2.execSpawn ++
        [.cmd (instantiate env cmd { w with execSpawn := w.execSpawn ++ lst }).1] } : World) := by
  have k0 : Keeps w ({ w with execSpawn := w.execSpawn ++ lst } : World) :=
    Keeps.of_step hw rfl (SOkN.of_same hw rfl rfl rfl rfl)
  have k1 := instantiate_keeps env cmd _ k0.1
  exact (k0.trans k1).trans (Keeps.of_step k1.1 rfl (SOkN.of_same k1.1 rfl rfl rfl rfl))

theorem update_keeps (ev : Ev) (k : Core) (hw : SOk k.w) : Keeps k.w (update ev k).w := by
  unfold update
  simp only
  split <;> exact update_body_keeps k.w _ _ _ hw

theorem processLoop_keeps : ∀ (f : Nat) (k k' : Core), processLoop f k = some k' → SOk k.w → Keeps k.w k'.w := by
  intro f
  induction f with
  | zero => intro k k' h; simp [processLoop] at h
  | succ f ih =>
    intro k k' h hw
    unfold processLoop at h
    split at h
    · simp only [Option.some.injEq] at h; subst h; exact Keeps.refl hw
    · rename_i ev rest _
      have k0 : Keeps k.w ({ k.w with coreEvents := rest } : World) :=
        Keeps.of_step hw rfl (SOkN.of_same hw rfl rfl rfl rfl)
      have k1 := update_keeps ev { k with w := { k.w with coreEvents := rest } } k0.1
      split at h
      · cases h
      · rename_i k2 hr
        have k2' := runAll_keeps _ _ _ hr k1.1
        exact ((k0.trans k1).trans k2').trans (ih k2 k' h k2'.1)

theorem process_keeps (k : Core) (es : List Eff) (k' : Core) (h : process k = some (es, k')) (hw : SOk k.w) :
    Keeps k.w k'.w := by
  unfold process at h
  split at h
  · cases h
  · rename_i k1 h1
    have s1 := runAll_keeps _ _ _ h1 hw
    split at h
    · cases h
    · rename_i k2 h2
      have s2 := processLoop_keeps _ _ _ h2 s1.1
      simp only [Option.some.injEq, Prod.mk.injEq] at h
      obtain ⟨_, rfl⟩ := h
      exact (s1.trans s2).trans (Keeps.of_step s2.1 rfl (SOkN.of_same s2.1 rfl rfl rfl rfl))

theorem processEvent_keeps (ev : Ev) (k : Core) (es : List Eff) (k' : Core) (h : processEvent ev k = some (es, k'))
    (hw : SOk k.w) : Keeps k.w k'.w := by
  unfold processEvent at h
  have k1 := update_keeps ev k hw
  exact k1.trans (process_keeps _ _ _ h k1.1)

end M.Rt
