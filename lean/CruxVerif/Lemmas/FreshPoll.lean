/- Freshness through one poll of ANY block (hosting blocks included), for an arbitrary lower layer that preserves it. -/
import CruxVerif.Lemmas.FreshNs
namespace M.Rt

/-- what a layer must guarantee: freshness is preserved and the serial counter only grows -/
def Keeps (w w' : World) : Prop := SOk w' ∧ w.nextSerial ≤ w'.nextSerial

def PnOk (pn : Waker → Nat → World → Option (NextRes × World)) : Prop :=
  ∀ wk c w r w', pn wk c w = some (r, w') → wkB w.nextSerial wk → SOk w → Keeps w w'

def FGood (pn : Waker → Nat → World → Option (NextRes × World)) (f : Nat) : Prop :=
  ∀ wk sink b w r w', pollBlock pn f wk sink b w = some (r, w') → wkB w.nextSerial wk → SOk w → Keeps w w'

theorem fgood_zero (pn) : FGood pn 0 := by
  intro wk sink b w r w' h; simp [pollBlock] at h

theorem Keeps.refl {w : World} (h : SOk w) : Keeps w w := ⟨h, Nat.le_refl _⟩

/-- continue polling from an intermediate world that kept the counter -/
theorem FGood.via {pn f} (ih : FGood pn f) {wk : Waker} {sink : Sink} {b : Block} {w w1 : World} {r : PollRes} {w' : World}
    (hwk : wkB w.nextSerial wk) (h1 : SOk w1) (hn : w.nextSerial ≤ w1.nextSerial)
    (h : pollBlock pn f wk sink b w1 = some (r, w')) : Keeps w w' := by
  have := ih wk sink b w1 r w' h (wkB_mono hn hwk) h1
  exact ⟨this.1, Nat.le_trans hn this.2⟩

theorem SOk.forward {w : World} (h : SOk w) (c : Nat) (o : Output) : SOk (w.forward c o) := by
  cases o with
  | effect e => exact h.keep rfl (SOkN.modCmd h c _ (fun _ hx => hx))
  | event e => exact h.keep rfl (SOkN.modCmd h c _ (fun _ hx => hx))

theorem hostLoop_keeps (pn) (hpn : PnOk pn) : ∀ (f : Nat) (wk : Waker) (me c : Nat) (m : Mapper) (w : World) (d : Bool)
    (w' : World), hostLoop pn f wk me c m w = some (d, w') → wkB w.nextSerial wk → SOk w → Keeps w w' := by
  intro f
  induction f with
  | zero => intro wk me c m w d w' h; simp [hostLoop] at h
  | succ f ih =>
    intro wk me c m w d w' h hwk hw
    unfold hostLoop at h
    cases hp : pn wk c w with
    | none => simp [hp] at h
    | some res =>
      obtain ⟨nr, w1⟩ := res
      have hk := hpn wk c w nr w1 hp hwk hw
      cases nr with
      | item o =>
        simp only [hp] at h
        have h2 : SOk (w1.forward me (applyMapper m o)) := hk.1.forward me _
        have hn2 : (w1.forward me (applyMapper m o)).nextSerial = w1.nextSerial := by cases (applyMapper m o) <;> rfl
        have := ih wk me c m _ d w' h (wkB_mono (by rw [hn2]; exact hk.2) hwk) h2
        exact ⟨this.1, Nat.le_trans (by rw [hn2]; exact hk.2) this.2⟩
      | finished =>
        simp only [hp, Option.some.injEq, Prod.mk.injEq] at h
        obtain ⟨_, rfl⟩ := h
        exact hk
      | pending =>
        simp only [hp, Option.some.injEq, Prod.mk.injEq] at h
        obtain ⟨_, rfl⟩ := h
        exact hk

end M.Rt

namespace M.Rt

/-- a step that keeps the counter: freshness at the same counter -/
theorem SOk.step {w w1 : World} (h : SOk w) (hn : w1.nextSerial = w.nextSerial) (hs : SOkN w.nextSerial w1) :
    SOk w1 ∧ w.nextSerial ≤ w1.nextSerial := ⟨h.keep hn hs, by rw [hn]; exact Nat.le_refl _⟩

theorem fgood_succ (pn) (hpn : PnOk pn) (f : Nat) (ih : FGood pn f) : FGood pn (f + 1) := by
  intro wk sink b w r w' h hwk hw
  obtain ⟨env, cur, rest⟩ := b
  unfold pollBlock at h
  simp only at h
  have hN : SOkN w.nextSerial w := hw
  cases cur with
  | idle =>
    cases rest with
    | nil =>
      simp only [Option.some.injEq, Prod.mk.injEq] at h
      obtain ⟨rfl, rfl⟩ := h
      exact Keeps.refl hw
    | cons i rest' =>
      cases i with
      | emit tag e =>
        have s1 := hw.step (w1 := w.sinkEvent sink ⟨tag, env.eval e⟩) (by cases sink <;> rfl) (hN.sinkEvent sink _)
        exact ih.via hwk s1.1 s1.2 h
      | notify n e =>
        have s1 := hw.step (w1 := w.sinkEffect sink ⟨⟨n, env.eval e⟩, .never⟩) (by cases sink <;> rfl) (hN.sinkEffect sink _)
        exact ih.via hwk s1.1 s1.2 h
      | req x n e =>
        simp only [Option.some.injEq, Prod.mk.injEq] at h
        obtain ⟨rfl, rfl⟩ := h
        exact hw.step (by cases sink <;> rfl) ((hN.newLeaf (some wk) _ hwk).sinkEffect sink _)
      | stream x n e limit body =>
        simp only [Option.some.injEq, Prod.mk.injEq] at h
        obtain ⟨rfl, rfl⟩ := h
        exact hw.step (by cases sink <;> rfl) ((hN.newLeaf (some wk) _ hwk).sinkEffect sink _)
      | spawn hd body =>
        cases sink with
        | cmd c =>
          simp only at h
          have s1 := hw.step (w1 := w.newMeta.2.modCmd c fun cs => { cs with spawnQ := cs.spawnQ ++
            [⟨w.newMeta.1, .mk env .idle body⟩] }) rfl (by refine SOkN.modCmd hN.newMeta c _ ?_; intro _ hx; exact hx)
          exact ih.via hwk s1.1 s1.2 h
        | core =>
          simp only at h
          have s1 := hw.step (w1 := { w with execSpawn := w.execSpawn ++ [.legacy (.mk env .idle body)] }) rfl
            (hN.of_same rfl rfl rfl rfl)
          exact ih.via hwk s1.1 s1.2 h
      | handoff x n e body =>
        cases sink with
        | cmd c =>
          simp only at h
          refine ih.via hwk (w1 := _) ?_ ?_ h
          · refine hw.keep rfl ?_
            refine SOkN.modCmd ?_ c _ ?_
            · exact ((hN.newLeaf (some wk) false hwk).sinkEffect (.cmd c) _).newMeta
            · intro _ hx; exact hx
          · exact Nat.le_refl _
        | core =>
          simp only at h
          refine ih.via hwk (w1 := _) ?_ ?_ h
          · refine hw.keep rfl ?_
            have hx := (hN.newLeaf (some wk) true hwk).sinkEffect .core
              ⟨⟨n, env.eval e⟩, .once (w.newLeaf (some wk) true).1⟩
            exact hx.of_same rfl rfl rfl rfl
          · exact Nat.le_refl _
      | await hd =>
        cases hh : env.handle hd with
        | none => simp only [hh] at h; exact ih.via hwk hw (Nat.le_refl _) h
        | some s => simp only [hh] at h; exact ih.via hwk hw (Nat.le_refl _) h
      | abortTask hd =>
        cases hh : env.handle hd with
        | none => simp only [hh] at h; exact ih.via hwk hw (Nat.le_refl _) h
        | some s =>
          simp only [hh] at h
          have s1 := hw.step (w1 := w.modMeta s fun m => { m with aborted := true }) rfl
            (by refine hN.modMeta s _ ?_; intro _ hx; exact hx)
          exact ih.via hwk s1.1 s1.2 h
      | join a b => exact ih.via hwk hw (Nat.le_refl _) h
      | select a b => exact ih.via hwk hw (Nat.le_refl _) h
      | selfwake k => exact ih.via hwk hw (Nat.le_refl _) h
      | abortCmd name =>
        simp only at h
        split at h
        · rename_i c _
          have s1 := hw.step (w1 := w.abortCmd c) (ns_abortCmd w c) (hN.abortCmd c)
          exact ih.via hwk s1.1 s1.2 h
        · exact ih.via hwk hw (Nat.le_refl _) h
      | host c m => exact ih.via hwk hw (Nat.le_refl _) h
  | req x l =>
    simp only at h
    have sd := hw.step (w1 := w.dropReceiver l) rfl (hN.dropReceiver l)
    split at h
    · exact ih.via hwk sd.1 sd.2 h
    · split at h
      · simp only [Option.some.injEq, Prod.mk.injEq] at h
        obtain ⟨rfl, rfl⟩ := h
        exact sd
      · simp only [Option.some.injEq, Prod.mk.injEq] at h
        obtain ⟨rfl, rfl⟩ := h
        refine hw.step rfl ?_
        refine hN.modLeaf l _ ?_
        intro _ _; exact hwk
  | reqDead =>
    simp only [Option.some.injEq, Prod.mk.injEq] at h
    obtain ⟨rfl, rfl⟩ := h
    exact Keeps.refl hw
  | streamWait x l count limit body =>
    simp only at h
    have sd := hw.step (w1 := w.dropReceiver l) rfl (hN.dropReceiver l)
    split at h
    · exact ih.via hwk sd.1 sd.2 h
    · split at h
      · rename_i v q _
        have s1 := hw.step (w1 := w.modLeaf l fun lf => { lf with queue := q }) rfl
          (by refine hN.modLeaf l _ ?_; intro _ hx; exact hx)
        exact ih.via hwk s1.1 s1.2 h
      · split at h
        · exact ih.via hwk sd.1 sd.2 h
        · simp only [Option.some.injEq, Prod.mk.injEq] at h
          obtain ⟨rfl, rfl⟩ := h
          refine hw.step rfl ?_
          refine hN.modLeaf l _ ?_
          intro _ _; exact hwk
  | streamBody x l count limit body inner =>
    simp only at h
    cases hp : pollBlock pn f wk sink inner w with
    | none => simp [hp] at h
    | some res =>
      obtain ⟨ri, w1⟩ := res
      have hi := ih wk sink inner w ri w1 hp hwk hw
      cases ri with
      | pending inner' =>
        simp only [hp, Option.some.injEq, Prod.mk.injEq] at h
        obtain ⟨rfl, rfl⟩ := h
        exact hi
      | ready env' =>
        simp only [hp] at h
        exact ih.via hwk hi.1 hi.2 h
  | await s =>
    simp only at h
    split at h
    · exact ih.via hwk hw (Nat.le_refl _) h
    · split at h
      · simp only [Option.some.injEq, Prod.mk.injEq] at h
        obtain ⟨rfl, rfl⟩ := h
        refine hw.step rfl ?_
        refine hN.modMeta s _ ?_
        intro m hm k hk
        simp only [List.mem_append, List.mem_singleton] at hk
        rcases hk with hk | rfl
        · exact hm k hk
        · exact hwk
      · exact ih.via hwk hw (Nat.le_refl _) h
  | join a b ad bd =>
    simp only at h
    split at h
    · simp at h
    · rename_i ra w1 hra
      split at h
      · simp at h
      · rename_i rb w2 hrb
        have k1 : Keeps w w1 := by
          cases ad with
          | true =>
            simp only [if_true, Option.some.injEq, Prod.mk.injEq] at hra
            obtain ⟨_, rfl⟩ := hra
            exact Keeps.refl hw
          | false =>
            simp only [Bool.false_eq_true, if_false] at hra
            exact ih wk sink a w ra w1 hra hwk hw
        have k2 : Keeps w w2 := by
          cases bd with
          | true =>
            simp only [if_true, Option.some.injEq, Prod.mk.injEq] at hrb
            obtain ⟨_, rfl⟩ := hrb
            exact k1
          | false =>
            simp only [Bool.false_eq_true, if_false] at hrb
            exact ih.via hwk k1.1 k1.2 hrb
        cases ra <;> cases rb <;>
          simp only [Bool.and_self, Bool.and_false, Bool.false_and, Bool.false_eq_true, if_false, if_true] at h <;>
          first
          | exact ih.via hwk k2.1 k2.2 h
          | (simp only [Option.some.injEq, Prod.mk.injEq] at h; obtain ⟨_, rfl⟩ := h; exact k2)
  | select a b =>
    simp only at h
    cases hp : pollBlock pn f wk sink a w with
    | none => simp [hp] at h
    | some res =>
      obtain ⟨ra, w1⟩ := res
      have k1 := ih wk sink a w ra w1 hp hwk hw
      cases ra with
      | ready enva =>
        simp only [hp] at h
        have hs : SOk (w1.dropBlock b) := k1.1.keep (ns_World_dropBlock w1 b) (SOkN.World_dropBlock k1.1 b)
        exact ih.via hwk hs (by rw [ns_World_dropBlock]; exact k1.2) h
      | pending a' =>
        simp only [hp] at h
        cases hq : pollBlock pn f wk sink b w1 with
        | none => simp [hq] at h
        | some res2 =>
          obtain ⟨rb, w2⟩ := res2
          have k2 : Keeps w w2 := ih.via hwk k1.1 k1.2 hq
          cases rb with
          | ready envb =>
            simp only [hq] at h
            have hs : SOk (w2.dropBlock a') := k2.1.keep (ns_World_dropBlock w2 a') (SOkN.World_dropBlock k2.1 a')
            exact ih.via hwk hs (by rw [ns_World_dropBlock]; exact k2.2) h
          | pending b' =>
            simp only [hq, Option.some.injEq, Prod.mk.injEq] at h
            obtain ⟨_, rfl⟩ := h
            exact k2
  | selfwake k =>
    simp only at h
    split at h
    · exact ih.via hwk hw (Nat.le_refl _) h
    · simp only [Option.some.injEq, Prod.mk.injEq] at h
      obtain ⟨rfl, rfl⟩ := h
      exact hw.step (ns_World_wake w wk) (hN.World_wake wk hwk)
  | host c m =>
    simp only at h
    cases sink with
    | core => simp at h
    | cmd me =>
      simp only at h
      cases hl : hostLoop pn f wk me c m w with
      | none => simp [hl] at h
      | some res =>
        obtain ⟨d, w1⟩ := res
        have k1 := hostLoop_keeps pn hpn f wk me c m w d w1 hl hwk hw
        cases d with
        | true =>
          simp only [hl] at h
          have hs : SOk (w1.dropCmd c) := k1.1.keep (ns_World_dropCmd w1 c) (SOkN.World_dropCmd k1.1 c)
          exact ih.via hwk hs (by rw [ns_World_dropCmd]; exact k1.2) h
        | false =>
          simp only [hl, Option.some.injEq, Prod.mk.injEq] at h
          obtain ⟨_, rfl⟩ := h
          exact k1

theorem pollBlock_fgood (pn) (hpn : PnOk pn) : ∀ f, FGood pn f
  | 0 => fgood_zero pn
  | f + 1 => fgood_succ pn hpn f (pollBlock_fgood pn hpn f)

end M.Rt
