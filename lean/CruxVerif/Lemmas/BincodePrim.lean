/-
Helper lemmas for C10: the primitive layers of M.Bincode (little endian, numbers, char, length-prefixed bytes)
are mutually inverse on their domains.
-/
import CruxVerif.Spec.Codec
namespace Lemmas.Bincode
open M.Schema M.Bincode S.Codec

theorem byte_lt (b : UInt8) : b.toNat < 256 := by have := b.toNat_lt; omega

theorem toNat_ofNat_lt {n : Nat} (h : n < 256) : (UInt8.ofNat n).toNat = n := by
  simp [UInt8.toNat_ofNat']; omega

theorem ofNat_toNat_mod (b : UInt8) : UInt8.ofNat (b.toNat % 256) = b := by
  rw [Nat.mod_eq_of_lt (byte_lt b)]; exact UInt8.ofNat_toNat

/-! ### little endian -/

theorem leBytes_length (k n : Nat) : (leBytes k n).length = k := by
  induction k generalizing n with
  | zero => rfl
  | succ k ih => simp [leBytes, ih]

theorem leVal_leBytes (k n : Nat) : leVal (leBytes k n) = n % 256 ^ k := by
  induction k generalizing n with
  | zero => simp [leBytes, leVal, Nat.mod_one]
  | succ k ih =>
    simp only [leBytes, leVal, ih]
    rw [toNat_ofNat_lt (Nat.mod_lt _ (by omega))]
    rw [Nat.pow_succ, Nat.mul_comm (256 ^ k) 256, Nat.mod_mul]

theorem leVal_lt (bs : Bytes) : leVal bs < 256 ^ bs.length := by
  induction bs with
  | nil => simp [leVal]
  | cons b bs ih =>
    simp only [leVal, List.length_cons, Nat.pow_succ]
    have := byte_lt b
    omega

theorem leBytes_leVal (bs : Bytes) : leBytes bs.length (leVal bs) = bs := by
  induction bs with
  | nil => rfl
  | cons b bs ih =>
    simp only [List.length_cons, leBytes, leVal]
    have hb := byte_lt b
    have h1 : (b.toNat + 256 * leVal bs) % 256 = b.toNat % 256 := by omega
    have h2 : (b.toNat + 256 * leVal bs) / 256 = leVal bs := by omega
    rw [h1, h2, ih, ofNat_toNat_mod]

/-! ### taking bytes -/

theorem takeN_append (h t : Bytes) : takeN h.length (h ++ t) = some (h, t) := by
  simp [takeN]

theorem takeN_some {k : Nat} {bs h t : Bytes} (e : takeN k bs = some (h, t)) :
    h ++ t = bs ∧ h.length = k := by
  unfold takeN at e
  split at e
  · simp only [Option.some.injEq, Prod.mk.injEq] at e
    obtain ⟨rfl, rfl⟩ := e
    simp [List.length_take]; omega
  · cases e

theorem takeN_none_of_lt {k : Nat} {bs : Bytes} (h : bs.length < k) : takeN k bs = none := by
  simp [takeN]; omega

theorem decNat_enc (k n : Nat) (rest : Bytes) (h : n < 256 ^ k) :
    decNat k (leBytes k n ++ rest) = some (n, rest) := by
  have := takeN_append (leBytes k n) rest
  rw [leBytes_length] at this
  simp [decNat, this, leVal_leBytes, Nat.mod_eq_of_lt h]

theorem decNat_some {k n : Nat} {bs rest : Bytes} (e : decNat k bs = some (n, rest)) :
    leBytes k n ++ rest = bs ∧ n < 256 ^ k := by
  unfold decNat at e
  split at e
  · rename_i h t ht
    simp only [Option.some.injEq, Prod.mk.injEq] at e
    obtain ⟨rfl, rfl⟩ := e
    obtain ⟨h1, h2⟩ := takeN_some ht
    subst h2
    exact ⟨by rw [leBytes_leVal, h1], leVal_lt h⟩
  · cases e

/-! ### length-prefixed byte strings -/

theorem decLenBytes_enc (s rest : Bytes) (h : s.length < U64) :
    decLenBytes (encLenBytes s ++ rest) = some (s, rest) := by
  simp only [decLenBytes, encLenBytes, List.append_assoc]
  rw [decNat_enc 8 s.length (s ++ rest) (by simpa using h)]
  exact takeN_append s rest

theorem decLenBytes_some {bs s rest : Bytes} (e : decLenBytes bs = some (s, rest)) :
    encLenBytes s ++ rest = bs ∧ s.length < U64 := by
  unfold decLenBytes at e
  split at e
  · rename_i n r hn
    obtain ⟨h1, h2⟩ := decNat_some hn
    obtain ⟨h3, h4⟩ := takeN_some e
    subst h4
    refine ⟨?_, by simpa using h2⟩
    simp only [encLenBytes, List.append_assoc, h3, h1]
  · cases e

/-- the length field is checked against the remaining input before anything is taken -/
theorem decLenBytes_too_long (n : Nat) (rest : Bytes) (hn : n < U64) (h : rest.length < n) :
    decLenBytes (leBytes 8 n ++ rest) = none := by
  simp only [decLenBytes]
  rw [decNat_enc 8 n rest (by simpa using hn)]
  exact takeN_none_of_lt h

/-! ### numbers -/

theorem modulus_eq (t : NumTy) : t.modulus = 256 ^ t.bytes := by cases t <;> rfl

theorem numRepr_lt (t : NumTy) (n : Int) : numRepr t n < 256 ^ t.bytes := by
  rw [← modulus_eq]
  cases t <;> simp only [numRepr, NumTy.modulus] <;> omega

theorem numOfRepr_numRepr {t : NumTy} {n : Int} (h : numInRange t n = true) :
    numOfRepr t (numRepr t n) = n := by
  cases t <;>
    simp only [numInRange, numOfRepr, numRepr, NumTy.modulus, NumTy.signed, decide_eq_true_eq, true_and, false_and,
      Bool.false_eq_true, ↓reduceIte] at h ⊢ <;> (try split) <;> omega

theorem numRepr_numOfRepr {t : NumTy} {u : Nat} (h : u < 256 ^ t.bytes) :
    numRepr t (numOfRepr t u) = u ∧ numInRange t (numOfRepr t u) = true := by
  rw [← modulus_eq] at h
  cases t <;>
    simp only [numInRange, numOfRepr, numRepr, NumTy.modulus, NumTy.signed, decide_eq_true_eq, true_and, false_and,
      Bool.false_eq_true, ↓reduceIte] at h ⊢ <;> (try split) <;> omega

theorem decNum_enc (t : NumTy) (n : Int) (rest : Bytes) (h : numInRange t n = true) :
    decNum t (encNum t n ++ rest) = some (.num t n, rest) := by
  simp only [decNum, encNum]
  rw [decNat_enc _ _ _ (numRepr_lt t n)]
  simp only [numOfRepr_numRepr h]

theorem decNum_some {t : NumTy} {bs rest : Bytes} {v : Value} (e : decNum t bs = some (v, rest)) :
    ∃ n, v = .num t n ∧ numInRange t n = true ∧ encNum t n ++ rest = bs := by
  unfold decNum at e
  split at e
  · rename_i u r hu
    simp only [Option.some.injEq, Prod.mk.injEq] at e
    obtain ⟨rfl, rfl⟩ := e
    obtain ⟨h1, h2⟩ := decNat_some hu
    obtain ⟨h3, h4⟩ := numRepr_numOfRepr h2
    exact ⟨_, rfl, h4, by simp only [encNum, h3, h1]⟩
  · cases e

/-! ### char -/

theorem decChar_enc (c : Nat) (rest : Bytes) (h : isScalar c = true) :
    decChar (encChar c ++ rest) = some (.char c, rest) := by
  simp only [isScalar, Bool.or_eq_true, Bool.and_eq_true, decide_eq_true_eq] at h
  unfold encChar
  split
  · have e : (UInt8.ofNat c).toNat = c := toNat_ofNat_lt (by omega)
    simp only [List.cons_append, List.nil_append, decChar, e]
    simp [*]
  split
  · have e0 : (UInt8.ofNat (0xC0 + c / 64)).toNat = 0xC0 + c / 64 := toNat_ofNat_lt (by omega)
    have e1 : (UInt8.ofNat (0x80 + c % 64)).toNat = 0x80 + c % 64 := toNat_ofNat_lt (by omega)
    simp only [List.cons_append, List.nil_append, decChar, e0, e1, isCont, Bool.and_eq_true, decide_eq_true_eq]
    repeat' (first | omega | split)
    simp only [Option.some.injEq, Prod.mk.injEq, Value.char.injEq, and_true]; omega
  split
  · have e0 : (UInt8.ofNat (0xE0 + c / 4096)).toNat = 0xE0 + c / 4096 := toNat_ofNat_lt (by omega)
    have e1 : (UInt8.ofNat (0x80 + c / 64 % 64)).toNat = 0x80 + c / 64 % 64 := toNat_ofNat_lt (by omega)
    have e2 : (UInt8.ofNat (0x80 + c % 64)).toNat = 0x80 + c % 64 := toNat_ofNat_lt (by omega)
    simp only [List.cons_append, List.nil_append, decChar, e0, e1, e2, isCont, isScalar, Bool.and_eq_true,
      Bool.or_eq_true, decide_eq_true_eq]
    repeat' (first | omega | split)
    simp only [Option.some.injEq, Prod.mk.injEq, Value.char.injEq, and_true]; omega
  · have e0 : (UInt8.ofNat (0xF0 + c / 262144)).toNat = 0xF0 + c / 262144 := toNat_ofNat_lt (by omega)
    have e1 : (UInt8.ofNat (0x80 + c / 4096 % 64)).toNat = 0x80 + c / 4096 % 64 := toNat_ofNat_lt (by omega)
    have e2 : (UInt8.ofNat (0x80 + c / 64 % 64)).toNat = 0x80 + c / 64 % 64 := toNat_ofNat_lt (by omega)
    have e3 : (UInt8.ofNat (0x80 + c % 64)).toNat = 0x80 + c % 64 := toNat_ofNat_lt (by omega)
    simp only [List.cons_append, List.nil_append, decChar, e0, e1, e2, e3, isCont, Bool.and_eq_true, decide_eq_true_eq]
    repeat' (first | omega | split)
    simp only [Option.some.injEq, Prod.mk.injEq, Value.char.injEq, and_true]; omega

theorem ofNat_eq_of_toNat {b : UInt8} {n : Nat} (h : n = b.toNat) : UInt8.ofNat n = b := by
  subst h; exact UInt8.ofNat_toNat

theorem decChar_some {bs rest : Bytes} {v : Value} (e : decChar bs = some (v, rest)) :
    ∃ c, v = .char c ∧ isScalar c = true ∧ encChar c ++ rest = bs := by
  unfold decChar at e
  split at e
  · cases e
  rename_i b0 r
  have hb0 := byte_lt b0
  simp only at e
  split at e
  · -- one byte
    simp only [Option.some.injEq, Prod.mk.injEq] at e
    obtain ⟨rfl, rfl⟩ := e
    refine ⟨b0.toNat, rfl, ?_, ?_⟩
    · simp only [isScalar, Bool.or_eq_true, Bool.and_eq_true, decide_eq_true_eq]; omega
    · unfold encChar; rw [if_pos (by assumption)]
      simp [UInt8.ofNat_toNat]
  split at e
  · cases e
  split at e
  · -- two bytes
    split at e
    · rename_i b1 r
      have hb1 := byte_lt b1
      split at e
      · rename_i hc
        simp only [isCont, Bool.and_eq_true, decide_eq_true_eq] at hc
        simp only [Option.some.injEq, Prod.mk.injEq] at e
        obtain ⟨rfl, rfl⟩ := e
        refine ⟨_, rfl, ?_, ?_⟩
        · simp only [isScalar, Bool.or_eq_true, Bool.and_eq_true, decide_eq_true_eq]; omega
        · unfold encChar
          rw [if_neg (by omega), if_pos (by omega)]
          rw [ofNat_eq_of_toNat (b := b0) (by omega), ofNat_eq_of_toNat (b := b1) (by omega)]
          rfl
      · cases e
    · cases e
  split at e
  · -- three bytes
    split at e
    · rename_i b1 b2 r
      have hb1 := byte_lt b1
      have hb2 := byte_lt b2
      split at e
      · rename_i hc
        simp only [isCont, isScalar, Bool.and_eq_true, Bool.or_eq_true, decide_eq_true_eq] at hc
        simp only [Option.some.injEq, Prod.mk.injEq] at e
        obtain ⟨rfl, rfl⟩ := e
        refine ⟨_, rfl, ?_, ?_⟩
        · simp only [isScalar, Bool.or_eq_true, Bool.and_eq_true, decide_eq_true_eq]; omega
        · unfold encChar
          rw [if_neg (by omega), if_neg (by omega), if_pos (by omega)]
          rw [ofNat_eq_of_toNat (b := b0) (by omega), ofNat_eq_of_toNat (b := b1) (by omega),
            ofNat_eq_of_toNat (b := b2) (by omega)]
          rfl
      · cases e
    · cases e
  split at e
  · -- four bytes
    split at e
    · rename_i b1 b2 b3 r
      have hb1 := byte_lt b1
      have hb2 := byte_lt b2
      have hb3 := byte_lt b3
      split at e
      · rename_i hc
        simp only [isCont, Bool.and_eq_true, decide_eq_true_eq] at hc
        simp only [Option.some.injEq, Prod.mk.injEq] at e
        obtain ⟨rfl, rfl⟩ := e
        refine ⟨_, rfl, ?_, ?_⟩
        · simp only [isScalar, Bool.or_eq_true, Bool.and_eq_true, decide_eq_true_eq]; omega
        · unfold encChar
          rw [if_neg (by omega), if_neg (by omega), if_neg (by omega)]
          rw [ofNat_eq_of_toNat (b := b0) (by omega), ofNat_eq_of_toNat (b := b1) (by omega),
            ofNat_eq_of_toNat (b := b2) (by omega), ofNat_eq_of_toNat (b := b3) (by omega)]
          rfl
      · cases e
    · cases e
  · cases e

/-! ### value equality test -/

mutual
theorem beq_iff : ∀ (a b : Value), a.beq b = true ↔ a = b
  | .bool a, b => by cases b <;> simp [Value.beq]
  | .num t a, b => by cases b <;> simp [Value.beq]
  | .char a, b => by cases b <;> simp [Value.beq]
  | .str a, b => by cases b <;> simp [Value.beq]
  | .bytes a, b => by cases b <;> simp [Value.beq]
  | .none, b => by cases b <;> simp [Value.beq]
  | .some a, b => by cases b <;> simp [Value.beq, beq_iff a]
  | .seq as, b => by cases b <;> simp [Value.beq, beqAll_iff as]
  | .tuple as, b => by cases b <;> simp [Value.beq, beqAll_iff as]
  | .variant i a, b => by cases b <;> simp [Value.beq, beq_iff a]
theorem beqAll_iff : ∀ (as bs : List Value), Value.beqAll as bs = true ↔ as = bs
  | [], bs => by cases bs <;> simp [Value.beqAll]
  | a :: as, bs => by cases bs <;> simp [Value.beqAll, beq_iff a, beqAll_iff as]
end

end Lemmas.Bincode
