/-
Helper lemmas for C10: the primitive layers of M.Bincode (little endian, numbers, char, length-prefixed bytes)
are mutually inverse on their domains.
-/
import CruxVerif.Spec.Codec
namespace Lemmas.Bincode
open M.Schema M.Bincode S.Codec

theorem byte_lt (b : UInt8) : b.toNat < 256 := by have := b.toNat_lt; omega

theorem toNat_ofNat_lt {n : Nat} (h : n < 256) : (UInt8.ofNat n).toNat = n := by
  simp [UInt8.toNat_ofNat']; omega

theorem ofNat_toNat_mod (b : UInt8) : UInt8.ofNat (b.toNat % 256) = b := by
  rw [Nat.mod_eq_of_lt (byte_lt b)]; exact UInt8.ofNat_toNat

/-! ### little endian -/

theorem leBytes_length (k n : Nat) : (leBytes k n).length = k := by
  induction k generalizing n with
  | zero => rfl
  | succ k ih => simp [leBytes, ih]

theorem leVal_leBytes (k n : Nat) : leVal (leBytes k n) = n % 256 ^ k := by
  induction k generalizing n with
  | zero => simp [leBytes, leVal, Nat.mod_one]
  | succ k ih =>
    simp only [leBytes, leVal, ih]
    rw [toNat_ofNat_lt (Nat.mod_lt _ (by omega))]
    rw [Nat.pow_succ, Nat.mul_comm (256 ^ k) 256, Nat.mod_mul]

theorem leVal_lt (bs : Bytes) : leVal bs < 256 ^ bs.length := by
  induction bs with
  | nil => simp [leVal]
  | cons b bs ih =>
    simp only [leVal, List.length_cons, Nat.pow_succ]
    have := byte_lt b
    omega

theorem leBytes_leVal (bs : Bytes) : leBytes bs.length (leVal bs) = bs := by
  induction bs with
  | nil => rfl
  | cons b bs ih =>
    simp only [List.length_cons, leBytes, leVal]
    have hb := byte_lt b
    have h1 : (b.toNat + 256 * leVal bs) % 256 = b.toNat % 256 := by omega
    have h2 : (b.toNat + 256 * leVal bs) / 256 = leVal bs := by omega
    rw [h1, h2, ih, ofNat_toNat_mod]

/-! ### taking bytes -/

theorem takeN_append (h t : Bytes) : takeN h.length (h ++ t) = some (h, t) := by
  simp [takeN]

theorem takeN_some {k : Nat} {bs h t : Bytes} (e : takeN k bs = some (h, t)) :
    h ++ t = bs ∧ h.length = k := by
  unfold takeN at e
  split at e
  · simp only [Option.some.injEq, Prod.mk.injEq] at e
    obtain ⟨rfl, rfl⟩ := e
    simp [List.length_take]; omega
  · cases e

theorem takeN_none_of_lt {k : Nat} {bs : Bytes} (h : bs.length < k) : takeN k bs = none := by
  simp [takeN]; omega

theorem decNat_enc (k n : Nat) (rest : Bytes) (h : n < 256 ^ k) :
    decNat k (leBytes k n ++ rest) = some (n, rest) := by
  have := takeN_append (leBytes k n) rest
  rw [leBytes_length] at this
  simp [decNat, this, leVal_leBytes, Nat.mod_eq_of_lt h]

theorem decNat_some {k n : Nat} {bs rest : Bytes} (e : decNat k bs = some (n, rest)) :
    leBytes k n ++ rest = bs ∧ n < 256 ^ k := by
  unfold decNat at e
  split at e
  · rename_i h t ht
    simp only [Option.some.injEq, Prod.mk.injEq] at e
    obtain ⟨rfl, rfl⟩ := e
    obtain ⟨h1, h2⟩ := takeN_some ht
    subst h2
    exact ⟨by rw [leBytes_leVal, h1], leVal_lt h⟩
  · cases e

/-! ### length-prefixed byte strings -/

theorem decLenBytes_enc (s rest : Bytes) (h : s.length < U64) :
    decLenBytes (encLenBytes s ++ rest) = some (s, rest) := by
  simp only [decLenBytes, encLenBytes, List.append_assoc]
  rw [decNat_enc 8 s.length (s ++ rest) (by simpa using h)]
  exact takeN_append s rest

theorem decLenBytes_some {bs s rest : Bytes} (e : decLenBytes bs = some (s, rest)) :
    encLenBytes s ++ rest = bs ∧ s.length < U64 := by
  unfold decLenBytes at e
  split at e
  · rename_i n r hn
    obtain ⟨h1, h2⟩ := decNat_some hn
    obtain ⟨h3, h4⟩ := takeN_some e
    subst h4
    refine ⟨?_, by simpa using h2⟩
    simp only [encLenBytes, List.append_assoc, h3, h1]
  · cases e

/-- the length field is checked against the remaining input before anything is taken -/
theorem decLenBytes_too_long (n : Nat) (rest : Bytes) (hn : n < U64) (h : rest.length < n) :
    decLenBytes (leBytes 8 n ++ rest) = none := by
  simp only [decLenBytes]
  rw [decNat_enc 8 n rest (by simpa using hn)]
  exact takeN_none_of_lt h

end Lemmas.Bincode
