/- In-range-ness through one poll of ANY block (command sink), by `grind` over `pollBlock`. -/
import CruxVerif.Lemmas.RFrame
namespace M.Rt

def PnW (pn : Waker → Nat → World → Option (NextRes × World)) : Prop :=
  ∀ wk c w r w', pn wk c w = some (r, w') → WFw w → WFw w' ∧ (LL w).1 ≤ (LL w').1 ∧ (LL w).2 ≤ (LL w').2

theorem hostLoop_w (pn) (hpn : PnW pn) : ∀ (f : Nat) (wk : Waker) (me c : Nat) (m : Mapper) (w : World) (d : Bool)
    (w' : World), hostLoop pn f wk me c m w = some (d, w') → WFw w → WFw w' ∧ (LL w).1 ≤ (LL w').1 ∧ (LL w).2 ≤ (LL w').2 := by
  intro f
  induction f with
  | zero => intro wk me c m w d w' h; simp [hostLoop] at h
  | succ f ih =>
    intro wk me c m w d w' h hw
    unfold hostLoop at h
    cases hp : pn wk c w with
    | none => simp [hp] at h
    | some res =>
      obtain ⟨nr, w1⟩ := res
      have hk := hpn wk c w nr w1 hp hw
      cases nr with
      | item o =>
        simp only [hp] at h
        have f1 : TK0 w1 (w1.forward me (applyMapper m o)) := by
          cases (applyMapper m o) with
          | effect e => exact tk_modCmd w1 me _ (fun _ => rfl) (fun _ => rfl)
          | event e => exact tk_modCmd w1 me _ (fun _ => rfl) (fun _ => rfl)
        have := ih wk me c m _ d w' h (hk.1.tk0_eq f1 (LL_forward _ _ _))
        rw [LL_forward] at this
        exact ⟨this.1, Nat.le_trans hk.2.1 this.2.1, Nat.le_trans hk.2.2 this.2.2⟩
      | finished =>
        simp only [hp, Option.some.injEq, Prod.mk.injEq] at h
        obtain ⟨_, rfl⟩ := h
        exact hk
      | pending =>
        simp only [hp, Option.some.injEq, Prod.mk.injEq] at h
        obtain ⟨_, rfl⟩ := h
        exact hk

/-! equations and steps in the form `grind` uses -/

theorem irB_eq (n m : Nat) (env : Env) (cur : Pend) (rest : List Instr) :
    inRangeB n m (.mk env cur rest) = (envOk m env && inRangeP n m cur) := by simp [inRangeB]
theorem irP_idle (n m : Nat) : inRangeP n m .idle = true := by simp [inRangeP]
theorem irP_reqDead (n m : Nat) : inRangeP n m .reqDead = true := by simp [inRangeP]
theorem irP_selfwake (n m k : Nat) : inRangeP n m (.selfwake k) = true := by simp [inRangeP]
theorem irP_host (n m c : Nat) (mp : Mapper) : inRangeP n m (.host c mp) = true := by simp [inRangeP]
theorem irP_req (n m x l : Nat) : (inRangeP n m (.req x l) = true) = (l < n) := by simp [inRangeP]
theorem irP_streamWait (n m x l c lim : Nat) (body : List Instr) : (inRangeP n m (.streamWait x l c lim body) = true) = (l < n) := by
  simp [inRangeP]
theorem irP_streamBody (n m x l c lim : Nat) (body : List Instr) (inner : Block) :
    (inRangeP n m (.streamBody x l c lim body inner) = true) = (l < n ∧ inRangeB n m inner = true) := by simp [inRangeP]
theorem irP_await (n m s : Nat) : (inRangeP n m (.await s) = true) = (s < m) := by simp [inRangeP]
theorem irP_join (n m : Nat) (a b : Block) (ad bd : Bool) :
    inRangeP n m (.join a b ad bd) = (inRangeB n m a && inRangeB n m b) := by simp [inRangeP]
theorem irP_select (n m : Nat) (a b : Block) : inRangeP n m (.select a b) = (inRangeB n m a && inRangeB n m b) := by simp [inRangeP]

theorem irB_mono' (n m n' m' : Nat) (b : Block) (h : inRangeB n m b = true) (h1 : n ≤ n') (h2 : m ≤ m') :
    inRangeB n' m' b = true := inRangeB_mono h1 h2 b h
theorem envOk_mono' (m m' : Nat) (env : Env) (h : envOk m env = true) (h2 : m ≤ m') : envOk m' env = true := envOk_mono h2 env h
theorem envOk_set' (n : Nat) (env : Env) (x : Nat) (v : Val) : envOk n (env.set x v) = envOk n env := rfl
theorem envOk_setHandle' (n : Nat) (env : Env) (h s : Nat) (hs : s < n) (he : envOk n env = true) :
    envOk n (env.setHandle h s) = true := envOk_setHandle n env h s hs he
theorem envOk_handle' (n : Nat) (env : Env) (h s : Nat) (he : envOk n env = true) (hh : env.handle h = some s) : s < n :=
  envOk_handle n env h s he hh

section
variable {w : World}
theorem yw_sinkEvent (s : Sink) (e : Ev) (h : WFw w) : WFw (w.sinkEvent s e) := h.tk0_eq (tk_sinkEvent w s e) (LL_sinkEvent w s e)
theorem yw_sinkEffect (s : Sink) (e : Eff) (h : WFw w) : WFw (w.sinkEffect s e) := h.tk0_eq (tk_sinkEffect w s e) (LL_sinkEffect w s e)
theorem yw_newLeaf (k : Option Waker) (lg : Bool) (h : WFw w) : WFw (w.newLeaf k lg).2 :=
  h.tk0 (tk_of_cmds rfl) (by rw [LL_newLeaf]; exact ⟨Nat.le_succ _, Nat.le_refl _⟩)
theorem yw_newMeta (h : WFw w) : WFw w.newMeta.2 :=
  h.tk0 (tk_of_cmds rfl) (by rw [LL_newMeta]; exact ⟨Nat.le_refl _, Nat.le_succ _⟩)
theorem yw_modLeaf (l : Nat) (f : Leaf → Leaf) (h : WFw w) : WFw (w.modLeaf l f) := h.tk0_eq (tk_of_cmds rfl) (LL_modLeaf w l f)
theorem yw_modMeta (l : Nat) (f : Meta → Meta) (h : WFw w) : WFw (w.modMeta l f) := h.tk0_eq (tk_of_cmds rfl) (LL_modMeta w l f)
theorem yw_dropReceiver (l : Nat) (h : WFw w) : WFw (w.dropReceiver l) := h.tk0_eq (tk_dropReceiver w l) (LL_dropReceiver w l)
theorem yw_wake (wk : Waker) (h : WFw w) : WFw (w.wake wk) := h.tk0_eq (tk_World_wake w wk) (LL_World_wake w wk)
theorem yw_abortCmd (c : Nat) (h : WFw w) : WFw (w.abortCmd c) := h.tk0_eq (tk_abortCmd w c) (LL_abortCmd w c)
theorem yw_dropBlock (b : Block) (h : WFw w) : WFw (w.dropBlock b) := WFw_World_dropBlock w b h
theorem yw_dropCmd (c : Nat) (h : WFw w) : WFw (w.dropCmd c) := WFw_World_dropCmd w c h
theorem yw_spawn (c : Nat) (t : Task) (h : WFw w) (ht : inRangeB (LL w).1 (LL w).2 t.fut = true) : WFw (w.modCmd c (addSpawn t)) := by
  refine h.modCmd_gen c _ ?_ ?_
  · intro x t' ht'; exact Or.inl ht'
  · intro x t' ht'
    simp only [addSpawn, List.mem_append, List.mem_singleton] at ht'
    rcases ht' with h' | rfl
    · exact Or.inl h'
    · exact Or.inr ht
end

theorem yw_execSpawn {w : World} (xs : List ExecTask) (h : WFw w) : WFw ({ w with execSpawn := w.execSpawn ++ xs } : World) :=
  h.tk0_eq (tk_of_cmds rfl) rfl

theorem LL_addSpawn (w : World) (c : Nat) (t : Task) : LL (w.modCmd c (addSpawn t)) = LL w := rfl
theorem LL_addJoinWaker (w : World) (s : Nat) (wk : Waker) : LL (w.modMeta s (addJoinWaker wk)) = LL w := LL_modMeta w s _

def rangeRes (w' : World) : PollRes → Prop
  | .pending b' => inRangeB (LL w').1 (LL w').2 b' = true
  | .ready env' => envOk (LL w').2 env' = true

theorem rangeRes_pending (w' : World) (b : Block) : rangeRes w' (.pending b) = (inRangeB (LL w').1 (LL w').2 b = true) := rfl
theorem rangeRes_ready (w' : World) (e : Env) : rangeRes w' (.ready e) = (envOk (LL w').2 e = true) := rfl

/-- a legacy task whose block is in range -/
def legacyR (n m : Nat) : ExecTask → Prop
  | .legacy b => inRangeB n m b = true
  | .cmd _ => False
theorem legacyR_legacy (n m : Nat) (b : Block) : legacyR n m (.legacy b) = (inRangeB n m b = true) := rfl
theorem legacyR_mono (n m n' m' : Nat) (t : ExecTask) (h : legacyR n m t) (h1 : n ≤ n') (h2 : m ≤ m') : legacyR n' m' t := by
  cases t with
  | cmd c => exact h
  | legacy b => exact inRangeB_mono h1 h2 b h

theorem esg_modCmd (w : World) (c : Nat) (f : CmdSt → CmdSt) : (w.modCmd c f).execSpawn = w.execSpawn := rfl
theorem esg_sinkEffect (w : World) (s : Sink) (e : Eff) : (w.sinkEffect s e).execSpawn = w.execSpawn := by cases s <;> rfl
theorem esg_sinkEvent (w : World) (s : Sink) (e : Ev) : (w.sinkEvent s e).execSpawn = w.execSpawn := by cases s <;> rfl
theorem esg_newMeta (w : World) : w.newMeta.2.execSpawn = w.execSpawn := rfl
theorem esg_dropCmd (w : World) (c : Nat) : (w.dropCmd c).execSpawn = w.execSpawn := es_of_X (X_World_dropCmd w c)
theorem esg_hostLoop (pn) (hpx : PnX pn) (f : Nat) (wk : Waker) (me c : Nat) (m : Mapper) (w : World) (d : Bool) (w' : World)
    (h : hostLoop pn f wk me c m w = some (d, w')) : w'.execSpawn = w.execSpawn := es_of_X (hostLoop_x pn hpx f wk me c m w d w' h)

/-- whatever the poll added to the executor's spawn queue is a legacy task in range -/
def spawnR (w w' : World) : Prop := ∀ t, t ∈ w'.execSpawn → t ∈ w.execSpawn ∨ legacyR (LL w').1 (LL w').2 t

def RGood (pn : Waker → Nat → World → Option (NextRes × World)) (f : Nat) : Prop :=
  ∀ wk sink b w r w', pollBlock pn f wk sink b w = some (r, w') → WFw w → inRangeB (LL w).1 (LL w).2 b = true →
    WFw w' ∧ (LL w).1 ≤ (LL w').1 ∧ (LL w).2 ≤ (LL w').2 ∧ rangeRes w' r ∧ spawnR w w'

theorem rgood_succ (pn) (hpn : PnW pn) (hpx : PnX pn) (f : Nat) (ih : RGood pn f) : RGood pn (f + 1) := by
  intro wk sink b w r w' h hw hb
  obtain ⟨env, cur, rest⟩ := b
  have hl := hostLoop_w pn hpn f wk
  have hlx := esg_hostLoop pn hpx f wk
  unfold pollBlock at h
  simp only [addJoinWaker_eq, addSpawn_eq] at h
  unfold RGood at ih
  unfold spawnR at ih ⊢
  grind (gen := 20) (splits := 40) [mem_es_spawn, legacyR_legacy, legacyR_mono, esg_modCmd, esg_sinkEffect, esg_sinkEvent, esg_newMeta, esg_dropCmd,
    es_modLeaf, es_modMeta, es_newLeaf, es_dropReceiver, es_wake, es_abortCmd, es_dropBlock, irB_eq, irP_idle, irP_reqDead, irP_selfwake, irP_host, irP_req, irP_streamWait, irP_streamBody, irP_await,
    irP_join, irP_select, irB_mono', envOk_mono', envOk_set', envOk_setHandle', envOk_handle',
    yw_sinkEvent, yw_sinkEffect, yw_newLeaf, yw_newMeta, yw_modLeaf, yw_modMeta, yw_dropReceiver, yw_wake, yw_abortCmd,
    yw_dropBlock, yw_dropCmd, yw_spawn, yw_execSpawn, LL_execSpawn, LL_addSpawn, LL_addJoinWaker,
    LL_modCmd, LL_modLeaf, LL_modMeta, LL_newLeaf, newLeaf_fst, LL_newMeta, newMeta_fst, LL_sinkEffect, LL_sinkEvent,
    LL_dropReceiver, LL_World_wake, LL_abortCmd, LL_World_dropCmd, LL_World_dropBlock, rangeRes_pending, rangeRes_ready]

end M.Rt
