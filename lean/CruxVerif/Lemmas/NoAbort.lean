/-
`NAb`: no task has been aborted through a join handle and no abort handle exists — what a simple task program (no
`abortTask`, no `abortCmd`, no abortable command) keeps true through every poll (`NAGood`, one `grind` call) and the executor.
-/
import CruxVerif.Lemmas.NoReg
namespace M.Rt

def NAb (w : World) : Prop := (∀ m ∈ w.metas, m.aborted = false) ∧ w.aborts = []

theorem NAb.of_same {w w' : World} (h : NAb w) (hm : w'.metas = w.metas) (ha : w'.aborts = w.aborts) : NAb w' :=
  ⟨by rw [hm]; exact h.1, by rw [ha]; exact h.2⟩

theorem NAb.getMeta {w : World} (h : NAb w) (s : Nat) : (w.getMeta s).aborted = false := by
  unfold World.getMeta
  cases hs : w.metas[s]? with
  | none => rfl
  | some m => exact h.1 m (List.mem_of_getElem? hs)

theorem wake_aborts : ∀ (f : Nat) (wk : Waker) (w : World), (wake f wk w).aborts = w.aborts := by
  intro f
  induction f with
  | zero => intro wk w; cases wk <;> simp [wake, World.anomaly]
  | succ f ih =>
    intro wk w
    cases wk with
    | root e => simp [wake]
    | task c t s =>
      simp only [wake]
      split
      · split <;> rfl
      · rw [ih]; split <;> rfl

section
variable {w : World}
theorem nab_modMeta (s : Nat) (f : Meta → Meta) (hf : ∀ m, m.aborted = false → (f m).aborted = false) (h : NAb w) :
    NAb (w.modMeta s f) :=
  ⟨mem_modifyNth (fun m : Meta => m.aborted = false) f hf w.metas s h.1, h.2⟩
theorem nab_newMeta (h : NAb w) : NAb w.newMeta.2 := by
  refine ⟨?_, h.2⟩
  intro m hm
  simp only [World.newMeta, List.mem_append, List.mem_singleton] at hm
  rcases hm with hm | rfl
  · exact h.1 m hm
  · rfl
theorem nab_sinkEvent (sk : Sink) (e : Ev) (h : NAb w) : NAb (w.sinkEvent sk e) := by cases sk <;> exact h.of_same rfl rfl
theorem nab_sinkEffect (sk : Sink) (e : Eff) (h : NAb w) : NAb (w.sinkEffect sk e) := by cases sk <;> exact h.of_same rfl rfl
theorem nab_newLeaf (k : Option Waker) (lg : Bool) (h : NAb w) : NAb (w.newLeaf k lg).2 := h.of_same rfl rfl
theorem nab_modCmd (c : Nat) (f : CmdSt → CmdSt) (h : NAb w) : NAb (w.modCmd c f) := h.of_same rfl rfl
theorem nab_modLeaf (l : Nat) (f : Leaf → Leaf) (h : NAb w) : NAb (w.modLeaf l f) := h.of_same rfl rfl
theorem nab_dropReceiver (l : Nat) (h : NAb w) : NAb (w.dropReceiver l) := h.of_same rfl rfl
theorem nab_execSpawn (xs : List ExecTask) (h : NAb w) : NAb ({ w with execSpawn := xs } : World) := h.of_same rfl rfl
theorem nab_wake (k : Waker) (h : NAb w) : NAb (w.wake k) := h.of_same (wake_leaves _ k w).2 (wake_aborts _ k w)
theorem nab_dropBlock (b : Block) (hb : hostFreeB b = true) (h : NAb w) : NAb (w.dropBlock b) :=
  dropBlock_hf_ind NAb (fun _ l hw => nab_dropReceiver l hw) _ b w hb h
end

theorem nab_wakeAll : ∀ (ks : List Waker) (W : World), NAb W → NAb (W.wakeAll ks) := by
  intro ks
  induction ks with
  | nil => intro W h; exact h
  | cons k ks ih => intro W h; exact ih _ (nab_wake k h)

def NAGood (pn : Waker → Nat → World → Option (NextRes × World)) (f : Nat) : Prop :=
  ∀ wk sink b w r w', pollBlock pn f wk sink b w = some (r, w') → hostFreeB b = true → simpleB b = true → NAb w → NAb w'

theorem nagood_succ (pn) (f : Nat) (ih : NAGood pn f) : NAGood pn (f + 1) := by
  intro wk sink b w r w' h hf hs hw
  obtain ⟨env, cur, rest⟩ := b
  have hres := fun wk b w r w' h hf => (pollBlock_lgood pn f wk sink b w r w' h hf).2
  unfold pollBlock at h
  simp only [addJoinWaker_eq, addSpawn_eq, setWaker_eq, setQueue_eq] at h
  unfold NAGood at ih
  grind (gen := 20) (splits := 40) [nab_newMeta, nab_sinkEvent, nab_sinkEffect, nab_newLeaf, nab_modCmd, nab_modLeaf, nab_dropReceiver,
    nab_execSpawn, nab_wake, nab_dropBlock,
    spB_eq, spP_idle, spP_reqDead, spP_req, spP_selfwake, spP_await, spP_host, spP_select, spP_streamWait, spP_streamBody, spP_join,
    spIs_nil, spIs_cons, spI_emit, spI_notify, spI_req, spI_selfwake, spI_stream, spI_spawn, spI_join, spI_await, spI_abortTask,
    spI_select, spI_abortCmd, spI_handoff, spI_host,
    hfB_eq, hfP_idle, hfP_reqDead, hfP_req, hfP_await, hfP_selfwake, hfP_streamWait,
    hfP_streamBody, hfP_join, hfP_select, hfP_host, hfIs_nil, hfIs_cons, hfI_host, hfI_stream, hfI_spawn, hfI_handoff,
    hfI_join, hfI_select, hfRes_pending]

theorem pollBlock_nagood (pn) : ∀ f, NAGood pn f
  | 0 => by intro wk sink b w r w' h; simp [pollBlock] at h
  | f + 1 => nagood_succ pn f (pollBlock_nagood pn f)

end M.Rt
