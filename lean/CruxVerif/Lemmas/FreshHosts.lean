/- Freshness holds in every world a host can reach: direct host and Core host, every program, every history. -/
import CruxVerif.Lemmas.FreshCore
import CruxVerif.Model.Hosts
namespace M.Hosts
open M.Rt

theorem doAbort_keeps (n : Nat) (w : World) (hw : SOk w) : Keeps w (doAbort n w) := by
  unfold doAbort
  split
  · exact Keeps.of_step hw (ns_abortCmd w _) (SOkN.abortCmd hw _)
  · exact Keeps.refl hw

theorem shellResolve_keeps (reqs : List Eff) (k : Nat) (v : Val) (w : World) (reqs' : List Eff) (res : ResolveResult)
    (w' : World) (h : shellResolve reqs k v w = some (reqs', res, w')) (hw : SOk w) : Keeps w w' := by
  unfold shellResolve at h
  split at h
  · cases h
  · rename_i e _
    simp only [Option.some.injEq, Prod.mk.injEq] at h
    obtain ⟨_, _, rfl⟩ := h
    exact resolveReq_keeps e.res v w hw

theorem shellDrop_keeps (reqs : List Eff) (k : Nat) (w : World) (reqs' : List Eff) (w' : World)
    (h : shellDrop reqs k w = some (reqs', w')) (hw : SOk w) : Keeps w w' := by
  unfold shellDrop at h
  split at h
  · cases h
  · rename_i e _
    simp only [Option.some.injEq, Prod.mk.injEq] at h
    obtain ⟨_, rfl⟩ := h
    exact dropReq_keeps e.res w hw

theorem Direct.observe_keeps (res : String) (d : Direct) (o : Obs) (d' : Direct) (h : d.observe res = some (o, d'))
    (hw : SOk d.w) : Keeps d.w d'.w := by
  unfold Direct.observe at h
  cases h1 : takeEffects d.cid d.w with
  | none => simp [h1] at h
  | some p1 =>
    obtain ⟨effs, w1⟩ := p1
    have k1 := takeEffects_keeps _ _ _ _ h1 hw
    cases h2 : takeEvents d.cid w1 with
    | none => simp [h1, h2] at h
    | some p2 =>
      obtain ⟨evs, w2⟩ := p2
      have k2 := takeEvents_keeps _ _ _ _ h2 k1.1
      cases h3 : isDone d.cid w2 with
      | none => simp [h1, h2, h3] at h
      | some p3 =>
        obtain ⟨dn, w3⟩ := p3
        have k3 := isDone_keeps _ _ _ _ h3 k2.1
        simp [h1, h2, h3] at h
        obtain ⟨_, rfl⟩ := h
        exact (k1.trans k2).trans k3

theorem Direct.step_keeps (d : Direct) (a : Action) (o : Obs) (d' : Direct) (h : d.step a = some (o, d'))
    (hw : SOk d.w) : Keeps d.w d'.w := by
  unfold Direct.step at h
  cases a with
  | res k v =>
    simp only at h
    split at h
    · exact Direct.observe_keeps _ _ _ _ h hw
    · rename_i reqs res w1 hr
      have k1 := shellResolve_keeps _ _ _ _ _ _ _ hr hw
      exact k1.trans (Direct.observe_keeps _ _ _ _ h k1.1)
  | drop k =>
    simp only at h
    split at h
    · exact Direct.observe_keeps _ _ _ _ h hw
    · rename_i reqs w1 hr
      have k1 := shellDrop_keeps _ _ _ _ _ hr hw
      exact k1.trans (Direct.observe_keeps _ _ _ _ h k1.1)
  | abort n =>
    simp only at h
    have k1 := doAbort_keeps n d.w hw
    exact k1.trans (Direct.observe_keeps _ _ _ _ h k1.1)
  | poll => exact Direct.observe_keeps _ _ _ _ h hw
  | ev _ _ => simp at h
  | rawRes _ _ => simp at h
  | rawEv _ => simp at h

end M.Hosts

namespace M.Hosts
open M.Rt

theorem runSteps_inv {σ : Type} (step : σ → Action → Option (Obs × σ)) (P : σ → Prop)
    (hstep : ∀ s a o s', step s a = some (o, s') → P s → P s') :
    ∀ (acts : List Action) (s : σ) (os : List Obs) (s' : σ), runSteps step s acts = some (os, s') → P s → P s'
  | [], s, os, s', h, hp => by
    simp only [runSteps, Option.some.injEq, Prod.mk.injEq] at h
    obtain ⟨_, rfl⟩ := h; exact hp
  | a :: rest, s, os, s', h, hp => by
    unfold runSteps at h
    split at h
    · cases h
    · rename_i o s1 h1
      split at h
      · cases h
      · rename_i os1 s2 h2
        simp only [Option.some.injEq, Prod.mk.injEq] at h
        obtain ⟨_, rfl⟩ := h
        exact runSteps_inv step P hstep rest s1 os1 _ h2 (hstep s a o s1 h1 hp)

/-- every world the direct host of any command reaches, after any history, is fresh -/
theorem runDirect_fresh (c : Cmd) (canon : Bool) (acts : List Action) (os : List Obs) (d : Direct)
    (h : runDirect c canon acts = some (os, d)) : SOk d.w := by
  unfold runDirect at h
  have h0 : SOk (Direct.new c canon).w := by
    unfold Direct.new
    exact (instantiate_keeps {} c {} SOk_empty).1
  cases h1 : (Direct.new c canon).observe "-" with
  | none => simp [h1] at h
  | some p1 =>
    obtain ⟨o, d1⟩ := p1
    have k1 := Direct.observe_keeps _ _ _ _ h1 h0
    cases h2 : runSteps Direct.step d1 acts with
    | none => simp [h1, h2] at h
    | some p2 =>
      obtain ⟨os2, d2⟩ := p2
      simp [h1, h2] at h
      obtain ⟨_, rfl⟩ := h
      exact runSteps_inv Direct.step (fun d => SOk d.w) (fun s a o s' hs hp => (Direct.step_keeps s a o s' hs hp).1)
        acts d1 os2 _ h2 k1.1

theorem CoreHost.afterCall_keeps (res : String) (effs : List Eff) (oldLen : Nat) (trigger : Option Ev) (h : CoreHost)
    (o : Obs) (h' : CoreHost) (hc : CoreHost.afterCall res effs oldLen trigger h = some (o, h')) (hw : SOk h.k.w) :
    SOk h'.k.w := by
  unfold CoreHost.afterCall at hc
  simp only [CoreHost.record] at hc
  cases hp : processEvent ⟨probeTag, 0⟩ h.k with
  | none => simp [hp] at hc
  | some p =>
    obtain ⟨peffs, k⟩ := p
    simp [hp] at hc
    obtain ⟨_, rfl⟩ := hc
    exact (processEvent_keeps _ _ _ _ hp hw).1

theorem CoreHost.step_fresh (h : CoreHost) (a : Action) (o : Obs) (h' : CoreHost) (hs : h.step a = some (o, h'))
    (hw : SOk h.k.w) : SOk h'.k.w := by
  unfold CoreHost.step at hs
  simp only at hs
  cases a with
  | ev tag v =>
    simp only at hs
    cases hp : processEvent ⟨tag, v⟩ h.k with
    | none => simp [hp] at hs
    | some p =>
      obtain ⟨effs, k⟩ := p
      simp [hp] at hs
      exact CoreHost.afterCall_keeps _ _ _ _ _ _ _ hs (processEvent_keeps _ _ _ _ hp hw).1
  | res kk v =>
    simp only at hs
    split at hs
    · exact CoreHost.afterCall_keeps _ _ _ _ _ _ _ hs hw
    · rename_i reqs res w1 hr
      have k1 := shellResolve_keeps _ _ _ _ _ _ _ hr hw
      split at hs
      · split at hs
        · cases hs
        · rename_i effs k2 hpr
          exact CoreHost.afterCall_keeps _ _ _ _ _ _ _ hs (process_keeps _ _ _ hpr k1.1).1
      · exact CoreHost.afterCall_keeps _ _ _ _ _ _ _ hs k1.1
  | drop kk =>
    simp only at hs
    split at hs
    · exact CoreHost.afterCall_keeps _ _ _ _ _ _ _ hs hw
    · rename_i reqs w1 hr
      exact CoreHost.afterCall_keeps _ _ _ _ _ _ _ hs (shellDrop_keeps _ _ _ _ _ hr hw).1
  | abort n =>
    simp only at hs
    exact CoreHost.afterCall_keeps _ _ _ _ _ _ _ hs (doAbort_keeps n h.k.w hw).1
  | poll => exact CoreHost.afterCall_keeps _ _ _ _ _ _ _ hs hw
  | rawRes _ _ _ => simp at hs
  | rawEv _ _ => simp at hs

/-- every world a Core hosting any app reaches, after any history of events, resolutions, drops and aborts, is fresh -/
theorem runCore_fresh (prog : Prog) (canon : Bool) (acts : List Action) (os : List Obs) (h : CoreHost)
    (hr : runCore prog canon acts = some (os, h)) : SOk h.k.w := by
  unfold runCore at hr
  exact runSteps_inv CoreHost.step (fun h => SOk h.k.w) CoreHost.step_fresh acts _ os h hr SOk_empty

end M.Hosts
