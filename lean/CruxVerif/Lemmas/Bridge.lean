/- Lemmas about M.Bridge: registration hands out fresh, pairwise distinct ids and stores each resolve under its id;
   `resume` touches only the addressed entry. -/
import CruxVerif.Model.Bridge
import CruxVerif.Lemmas.Slab
namespace M.Bridge
open M.Rt M.Slab

/-- decoding the ids away gives back exactly the core's effects, in order -/
theorem registerAll_effects (reg : Slab Resolve) (effs : List Eff) : (registerAll reg effs).1.map (·.2) = effs := by
  induction effs generalizing reg with
  | nil => rfl
  | cons e es ih => simp [registerAll, ih]

theorem registerAll_wf (reg : Slab Resolve) (effs : List Eff) (h : WF reg) : WF (registerAll reg effs).2 := by
  induction effs generalizing reg with
  | nil => exact h
  | cons e es ih => simp only [registerAll]; exact ih _ (wf_insert reg e.res h)

/-- entries that were there before stay where they were -/
theorem registerAll_keeps (reg : Slab Resolve) (effs : List Eff) (h : WF reg) (k : Nat) (hk : (reg.get? k).isSome) :
    (registerAll reg effs).2.get? k = reg.get? k := by
  induction effs generalizing reg with
  | nil => rfl
  | cons e es ih =>
    simp only [registerAll]
    have hne : k ≠ (reg.insert e.res).1 := fun e' => insert_ne_occupied reg e.res k h hk e'.symm
    have hkeep := get_insert_other reg e.res k hne
    rw [ih _ (wf_insert reg e.res h) (by rw [hkeep]; exact hk), hkeep]

/-- ids of one batch: none of them was occupied before, they are pairwise distinct, and each one holds the resolve
    of the effect it was issued for -/
theorem registerAll_ids (reg : Slab Resolve) (effs : List Eff) (h : WF reg) :
    ((registerAll reg effs).1.map (·.1)).Nodup ∧
    (∀ p ∈ (registerAll reg effs).1, reg.get? p.1 = none ∧ (registerAll reg effs).2.get? p.1 = some p.2.res) := by
  induction effs generalizing reg with
  | nil => simp [registerAll]
  | cons e es ih =>
    simp only [registerAll]
    have hwf := wf_insert reg e.res h
    obtain ⟨ihnd, ihall⟩ := ih (reg.insert e.res).2 hwf
    have hself := get_insert_self reg e.res h
    have hfresh := insert_fresh reg e.res h
    refine ⟨?_, ?_⟩
    · simp only [List.map_cons, List.nodup_cons]
      refine ⟨?_, ihnd⟩
      intro hin
      obtain ⟨p, hp, hpe⟩ := List.mem_map.mp hin
      have := (ihall p hp).1
      rw [hpe, hself] at this
      cases this
    · intro p hp
      rcases List.mem_cons.mp hp with rfl | hp
      · refine ⟨hfresh, ?_⟩
        simp only
        rw [registerAll_keeps _ _ hwf _ (by rw [hself]; rfl), hself]
      · obtain ⟨h1, h2⟩ := ihall p hp
        refine ⟨?_, h2⟩
        by_cases hpe : p.1 = (reg.insert e.res).1
        · rw [hpe, hself] at h1; cases h1
        · rw [← get_insert_other reg e.res p.1 hpe]; exact h1

/-- an id in use is never handed out by a later registration -/
theorem registerAll_avoids_occupied (reg : Slab Resolve) (effs : List Eff) (h : WF reg) (k : Nat)
    (hk : (reg.get? k).isSome) : k ∉ (registerAll reg effs).1.map (·.1) := by
  intro hin
  obtain ⟨p, hp, hpe⟩ := List.mem_map.mp hin
  have := ((registerAll_ids reg effs h).2 p hp).1
  rw [hpe] at this
  simp [this] at hk

/-- `resume` applies the decoded value to precisely the resolve stored under the id -/
theorem resume_exact (reg : Slab Resolve) (id : Nat) (v : Val) (w : World) (r : Resolve) (hg : reg.get? id = some r) :
    (resume reg id (some v) w).2.2 = (resolveReq r v w).2.2 ∧
    ((resume reg id (some v) w).1 = .ok ↔ (resolveReq r v w).2.1 = .ok) := by
  unfold resume
  simp only [hg]
  cases r with
  | never => simp [resolveReq]
  | gone => simp [resolveReq]
  | once l => simp [(resolve_once_consumes' l v w)]
  | many l =>
    simp only
    split <;> simp_all
where
  resolve_once_consumes' (l : Nat) (v : Val) (w : World) : (resolveReq (.once l) v w).2.1 = .ok := by
    unfold resolveReq; simp only; split <;> rfl

/-- … and no other entry -/
theorem resume_other (reg : Slab Resolve) (id k : Nat) (d : Option Val) (w : World) (hk : k ≠ id) :
    (resume reg id d w).2.1.get? k = reg.get? k := by
  unfold resume
  cases hg : reg.get? id with
  | none => simp
  | some r =>
    have hrem := (remove_get reg id r hg).2.2 k hk
    cases r <;> cases d <;> simp [hrem] <;> (try split) <;> simp [hrem]

/-- an id that is not outstanding makes `resume` panic (registry.rs:60-63, FIXME in the code) -/
theorem resume_unknown_panics (reg : Slab Resolve) (id : Nat) (d : Option Val) (w : World) (hg : reg.get? id = none) :
    resume reg id d w = (.panic, reg, w) := by
  unfold resume; simp [hg]

/-- a one-shot or notification entry is removed by the response addressed to it; a stream entry stays -/
theorem resume_removes (reg : Slab Resolve) (id : Nat) (d : Option Val) (w : World) (r : Resolve)
    (hg : reg.get? id = some r) :
    (∀ l, r ≠ .many l) → (resume reg id d w).2.1.get? id = none := by
  intro hnm
  have hrem := (remove_get reg id r hg).2.1
  unfold resume
  simp only [hg]
  cases r with
  | never => simpa using hrem
  | gone => simpa using hrem
  | once l => cases d <;> simpa using hrem
  | many l => exact absurd rfl (hnm l)

theorem resume_wf (reg : Slab Resolve) (id : Nat) (d : Option Val) (w : World) (h : WF reg) : WF (resume reg id d w).2.1 := by
  unfold resume
  cases hg : reg.get? id with
  | none => exact h
  | some r =>
    cases r <;> cases d <;> simp only <;> first | exact wf_remove reg id h | exact h | (split <;> exact h)

/-- C12: a byte string that does not decode as an event leaves the bridge exactly as it was -/
theorem rejected_event_inert (b : Bridge) : processEvent b none = some (.error .deserializeEvent, b) := rfl

/-- C12: a response that does not decode, addressed to a stream request, changes nothing at all -/
theorem rejected_response_many (reg : Slab Resolve) (id l : Nat) (w : World) (hg : reg.get? id = some (.many l)) :
    resume reg id none w = (.err .deserializeOutput, reg, w) := by
  unfold resume; simp [hg]

/-- C12: … addressed to a one-shot request it consumes that request only: its entry is removed and its channel closed -/
theorem rejected_response_once (reg : Slab Resolve) (id l : Nat) (w : World) (hg : reg.get? id = some (.once l)) :
    resume reg id none w = (.err .deserializeOutput, (reg.remove id).2, w.dropSender l) := by
  unfold resume; simp [hg]

end M.Bridge

namespace M.Bridge
open M.Rt M.Slab

/-- every entry after a registration is an old entry or one of the batch -/
theorem registerAll_entries (reg : Slab Resolve) (effs : List Eff) (h : WF reg) (k : Nat) (r : Resolve)
    (hk : (registerAll reg effs).2.get? k = some r) :
    reg.get? k = some r ∨ ∃ p ∈ (registerAll reg effs).1, p.1 = k ∧ p.2.res = r := by
  induction effs generalizing reg with
  | nil => exact Or.inl hk
  | cons e es ih =>
    simp only [registerAll] at hk ⊢
    rcases ih _ (wf_insert reg e.res h) hk with hold | ⟨p, hp, hpk, hpr⟩
    · by_cases hke : k = (reg.insert e.res).1
      · right
        refine ⟨((reg.insert e.res).1, e), by simp, hke.symm, ?_⟩
        rw [hke, get_insert_self reg e.res h] at hold
        exact Option.some.inj hold
      · left; rw [← get_insert_other reg e.res k hke]; exact hold
    · right; exact ⟨p, by simp [hp], hpk, hpr⟩

end M.Bridge
