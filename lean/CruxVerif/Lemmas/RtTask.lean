/- Lemmas about `Command::run_task` and `poll_next` in M.Rt (eviction, abortion, done-ness), for an arbitrary
   lower layer. -/
import CruxVerif.Lemmas.RtExec
namespace M.Rt

/-- an aborted task is reported completed without being polled: nothing changes -/
theorem runTaskF_aborted (poll : Waker → Sink → Block → World → Option (PollRes × World)) (cid tid : Nat) (w : World)
    (t : Task) (hg : (w.cmd cid).tasks.get? tid = some t) (ha : (w.getMeta t.serial).aborted = true) :
    runTaskF poll cid tid w = some (.completed, w) := by
  unfold runTaskF; simp [hg, ha]

/-- a task id that is not in the slab is `Missing` and nothing changes -/
theorem runTaskF_missing (poll : Waker → Sink → Block → World → Option (PollRes × World)) (cid tid : Nat) (w : World)
    (hg : (w.cmd cid).tasks.get? tid = none) : runTaskF poll cid tid w = some (.missing, w) := by
  unfold runTaskF; simp [hg]

/-- eviction condition (executor.rs:216-227): a task is `Cancelled` only if its poll returned pending, its waker
    was not woken during the poll, and no clone of that waker survives anywhere in the world -/
theorem runTaskF_cancelled (poll : Waker → Sink → Block → World → Option (PollRes × World)) (cid tid : Nat) (w w' : World)
    (h : runTaskF poll cid tid w = some (.cancelled, w')) :
    ∃ t b w1, (w.cmd cid).tasks.get? tid = some t ∧
      poll (.task cid tid w.nextSerial) (.cmd cid) t.fut { w with nextSerial := w.nextSerial + 1 } = some (.pending b, w1) ∧
      w1.woken.contains w.nextSerial = false ∧ w'.holders w.nextSerial = 0 := by
  unfold runTaskF at h
  split at h
  · cases h
  · rename_i t hg
    split at h
    · cases h
    · dsimp only at h
      split at h
      · cases h
      · cases h
      · rename_i b w1 hp
        split at h
        · rename_i hc
          cases h
          simp only [Bool.and_eq_true, Bool.not_eq_true', beq_iff_eq] at hc
          exact ⟨t, b, w1, hg, hp, hc.1, hc.2⟩
        · cases h

/-- a task whose waker was woken during the poll, or of whose waker a clone is still held somewhere
    (a leaf channel, a join-handle queue, a hosted command), is never evicted -/
theorem runTaskF_not_evicted_if_held (poll : Waker → Sink → Block → World → Option (PollRes × World)) (cid tid : Nat)
    (w w' : World) (st : TaskState) (h : runTaskF poll cid tid w = some (st, w'))
    (hheld : w'.holders w.nextSerial ≠ 0) : st ≠ .cancelled := by
  intro e
  subst e
  obtain ⟨_, _, _, _, _, _, h0⟩ := runTaskF_cancelled poll cid tid w w' h
  exact hheld h0

/-- `poll_next` reports the end of the stream only when the command is done: no effect, no event, no task left -/
theorem pollNextF_finished (settle : Nat → World → Option World) (wk : Waker) (cid : Nat) (w w' : World)
    (h : pollNextF settle wk cid w = some (.finished, w')) : w'.isDoneNow cid = true := by
  unfold pollNextF at h
  simp only at h
  split at h
  · cases h
  · split at h
    · cases h
    · split at h
      · cases h
      · split at h
        · cases h
        · split at h
          · rename_i hd; cases h; exact hd
          · cases h

/-- … and `Pending` only when nothing is queued for the host: outputs are never left behind in the queues -/
theorem pollNextF_pending (settle : Nat → World → Option World) (wk : Waker) (cid : Nat) (w w' : World)
    (h : pollNextF settle wk cid w = some (.pending, w')) : w'.isDoneNow cid = false := by
  unfold pollNextF at h
  simp only at h
  split at h
  · cases h
  · split at h
    · cases h
    · split at h
      · cases h
      · split at h
        · cases h
        · split at h
          · cases h
          · rename_i hd; cases h; simpa using hd

/-- `is_done` ⇔ no task, no effect, no event (command/mod.rs:436-440) -/
theorem isDoneNow_iff (w : World) (cid : Nat) :
    w.isDoneNow cid = true ↔ (w.cmd cid).effects = [] ∧ (w.cmd cid).events = [] ∧ (w.cmd cid).tasks.isEmpty = true := by
  simp [World.isDoneNow, List.isEmpty_iff, and_assoc]

/-- the forwarding loop of `host` stops only when the hosted command is finished (`true`) or pending (`false`) -/
theorem hostLoop_result (pn : Waker → Nat → World → Option (NextRes × World)) :
    ∀ (f : Nat) (wk : Waker) (cid c : Nat) (m : Mapper) (w w' : World) (fin : Bool),
      hostLoop pn f wk cid c m w = some (fin, w') →
      ∃ w0 w1, pn wk c w0 = some (if fin then .finished else .pending, w1) ∧ w' = w1 := by
  intro f
  induction f with
  | zero => intro wk cid c m w w' fin h; simp [hostLoop] at h
  | succ f ih =>
    intro wk cid c m w w' fin h
    unfold hostLoop at h
    split at h
    · cases h
    · exact ih _ _ _ _ _ _ _ h
    · rename_i _ w1 hp
      cases h
      exact ⟨w, _, by simpa using hp, rfl⟩
    · rename_i _ w1 hp
      cases h
      exact ⟨w, _, by simpa using hp, rfl⟩

end M.Rt
