/-
Quiescence of a Core call (flat apps: commands without combinators + host-free legacy tasks).
`QS me w w'`: what one step made on behalf of command `me` (or of a legacy task / the shell, `me = none`) may do to the
scheduling state: liveness and abort flags are kept, the executor's queues only grow, a command's waker is either kept or
taken — and if it was a root waker its executor task has been queued — and the work queues of every OTHER command change
only together with taking that command's waker.
-/
import CruxVerif.Lemmas.GCoreHosts
namespace M.Rt

structure QS (me : Option Nat) (w w' : World) : Prop where
  len : w'.cmds.length = w.cmds.length
  alive : ∀ c, (w'.cmd c).alive = (w.cmd c).alive
  flag : ∀ c, (w'.cmd c).abortFlag = (w.cmd c).abortFlag
  metaA : ∀ s, (w.getMeta s).aborted = true → (w'.getMeta s).aborted = true
  ready : ∀ e, e ∈ w.execReady → e ∈ w'.execReady
  spawn : ∀ t, t ∈ w.execSpawn → t ∈ w'.execSpawn
  waker : ∀ c, (w'.cmd c).waker = (w.cmd c).waker ∨
      ((w'.cmd c).waker = none ∧ ∀ etid, (w.cmd c).waker = some (.root etid) → etid ∈ w'.execReady)
  other : ∀ c, some c ≠ me → (w'.cmd c).tasks = (w.cmd c).tasks ∧ (w'.cmd c).spawnQ = (w.cmd c).spawnQ ∧
      (w'.cmd c).effects = (w.cmd c).effects ∧ (w'.cmd c).events = (w.cmd c).events
  work : ∀ c, some c ≠ me → (w'.cmd c).ready = (w.cmd c).ready ∨ (w'.cmd c).waker = none

theorem QS.refl (me : Option Nat) (w : World) : QS me w w :=
  ⟨rfl, fun _ => rfl, fun _ => rfl, fun _ h => h, fun _ h => h, fun _ h => h, fun _ => Or.inl rfl,
   fun _ _ => ⟨rfl, rfl, rfl, rfl⟩, fun _ _ => Or.inl rfl⟩

theorem QS.trans {me : Option Nat} {w1 w2 w3 : World} (a : QS me w1 w2) (b : QS me w2 w3) : QS me w1 w3 := by
  refine ⟨b.len.trans a.len, fun c => (b.alive c).trans (a.alive c), fun c => (b.flag c).trans (a.flag c),
    fun s h => b.metaA s (a.metaA s h), fun e h => b.ready e (a.ready e h), fun t h => b.spawn t (a.spawn t h), ?_, ?_, ?_⟩
  · intro c
    rcases b.waker c with hb | ⟨hb, hb2⟩
    · rcases a.waker c with ha | ⟨ha, ha2⟩
      · exact Or.inl (hb.trans ha)
      · exact Or.inr ⟨hb.trans ha, fun etid h => b.ready _ (ha2 etid h)⟩
    · rcases a.waker c with ha | ⟨ha, ha2⟩
      · exact Or.inr ⟨hb, fun etid h => hb2 etid (ha.trans h)⟩
      · exact Or.inr ⟨hb, fun etid h => b.ready _ (ha2 etid h)⟩
  · intro c hc
    have hb := b.other c hc
    have ha := a.other c hc
    exact ⟨hb.1.trans ha.1, hb.2.1.trans ha.2.1, hb.2.2.1.trans ha.2.2.1, hb.2.2.2.trans ha.2.2.2⟩
  · intro c hc
    rcases b.work c hc with hb | hb
    · rcases a.work c hc with ha | ha
      · exact Or.inl (hb.trans ha)
      · rcases b.waker c with h | h
        · exact Or.inr (h.trans ha)
        · exact Or.inr h.1
    · exact Or.inr hb

theorem QS.aborted {me : Option Nat} {w w' : World} (h : QS me w w') (c : Nat) (ha : w.aborted c = true) : w'.aborted c = true := by
  unfold World.aborted at ha ⊢
  rw [h.flag c]
  exact h.metaA _ ha

/-- a step that leaves the commands and the metas alone and only adds to the executor's queues -/
theorem QS.of_fields {me : Option Nat} {w w' : World} (hc : w'.cmds = w.cmds) (hm : w'.metas = w.metas)
    (hr : ∀ e, e ∈ w.execReady → e ∈ w'.execReady) (hs : ∀ t, t ∈ w.execSpawn → t ∈ w'.execSpawn) : QS me w w' := by
  have hcmd : ∀ c, w'.cmd c = w.cmd c := fun c => by simp [World.cmd, hc]
  refine ⟨by rw [hc], fun c => by rw [hcmd], fun c => by rw [hcmd], fun s h => by simpa [World.getMeta, hm] using h,
    hr, hs, fun c => Or.inl (by rw [hcmd]), fun c _ => by rw [hcmd]; exact ⟨rfl, rfl, rfl, rfl⟩, fun c _ => Or.inl (by rw [hcmd])⟩

theorem getMeta_modMeta (w : World) (s s' : Nat) (f : Meta → Meta) (hd : (f {}).aborted = false ∨ True) :
    (w.modMeta s f).getMeta s' = if s = s' then (match w.metas[s]? with | some m => f m | none => {}) else w.getMeta s' := by
  unfold World.getMeta World.modMeta
  simp only
  split
  · rename_i h; subst h; rw [modifyNth_get_self]; cases w.metas[s]? <;> rfl
  · rename_i h; rw [modifyNth_get_other _ _ _ _ h]

theorem QS.modMeta {me : Option Nat} (w : World) (s : Nat) (f : Meta → Meta) (hf : ∀ m, m.aborted = true → (f m).aborted = true) :
    QS me w (w.modMeta s f) := by
  refine ⟨rfl, fun _ => rfl, fun _ => rfl, ?_, fun _ h => h, fun _ h => h, fun _ => Or.inl rfl,
    fun _ _ => ⟨rfl, rfl, rfl, rfl⟩, fun _ _ => Or.inl rfl⟩
  intro s' h
  rw [getMeta_modMeta w s s' f (Or.inr trivial)]
  split
  · rename_i e; subst e
    unfold World.getMeta at h
    cases hm : w.metas[s]? with
    | none => simp [hm] at h
    | some m => simp only [hm, Option.getD_some] at h ⊢; exact hf m h
  · exact h

theorem QS.newMeta {me : Option Nat} (w : World) : QS me w w.newMeta.2 := by
  refine ⟨rfl, fun _ => rfl, fun _ => rfl, ?_, fun _ h => h, fun _ h => h, fun _ => Or.inl rfl,
    fun _ _ => ⟨rfl, rfl, rfl, rfl⟩, fun _ _ => Or.inl rfl⟩
  intro s h
  unfold World.getMeta World.newMeta at *
  simp only at h ⊢
  by_cases hs : s < w.metas.length
  · rw [List.getElem?_append_left hs]; exact h
  · rw [List.getElem?_eq_none (by omega)] at h; simp at h

theorem cmd_modCmd_keep {β : Type} (g : CmdSt → β) (w : World) (c : Nat) (f : CmdSt → CmdSt) (hf : ∀ x, g (f x) = g x) :
    g ((w.modCmd c f).cmd c) = g (w.cmd c) := by
  rw [World.cmd_modCmd_self]; simp only [World.cmd]; cases w.cmds[c]? <;> simp [hf]

theorem cmd_modCmd_const {β : Type} (g : CmdSt → β) (v : β) (w : World) (c : Nat) (f : CmdSt → CmdSt) (hf : ∀ x, g (f x) = v)
    (hd : g {} = v) : g ((w.modCmd c f).cmd c) = v := by
  rw [World.cmd_modCmd_self]; cases w.cmds[c]? <;> simp [hf, hd]

/-- a change of the acting command's own queues / slab -/
theorem QS.modCmd_me (w : World) (c : Nat) (f : CmdSt → CmdSt) (ha : ∀ x, (f x).alive = x.alive)
    (hfl : ∀ x, (f x).abortFlag = x.abortFlag) (hw : ∀ x, (f x).waker = x.waker) : QS (some c) w (w.modCmd c f) := by
  have oth : ∀ d, c ≠ d → (w.modCmd c f).cmd d = w.cmd d := fun d h => World.cmd_modCmd_other w c d f h
  refine ⟨by simp [World.modCmd, modifyNth_length], ?_, ?_, fun _ h => h, fun _ h => h, fun _ h => h, ?_, ?_, ?_⟩
  · intro d; by_cases e : c = d
    · subst e; exact cmd_modCmd_keep (·.alive) w c f ha
    · rw [oth d e]
  · intro d; by_cases e : c = d
    · subst e; exact cmd_modCmd_keep (·.abortFlag) w c f hfl
    · rw [oth d e]
  · intro d; by_cases e : c = d
    · subst e; exact Or.inl (cmd_modCmd_keep (·.waker) w c f hw)
    · rw [oth d e]; exact Or.inl rfl
  · intro d hd
    have e : c ≠ d := fun e => hd (by rw [e])
    rw [oth d e]; exact ⟨rfl, rfl, rfl, rfl⟩
  · intro d hd
    have e : c ≠ d := fun e => hd (by rw [e])
    rw [oth d e]; exact Or.inl rfl

/-- a change of any command that leaves it without a waker, when it had none or its root waker is already queued -/
theorem QS.modCmd_nowaker {me : Option Nat} (w : World) (c : Nat) (f : CmdSt → CmdSt) (ha : ∀ x, (f x).alive = x.alive)
    (hfl : ∀ x, (f x).abortFlag = x.abortFlag) (hw : ∀ x, (f x).waker = none)
    (hk : ∀ x, (f x).tasks = x.tasks ∧ (f x).spawnQ = x.spawnQ ∧ (f x).effects = x.effects ∧ (f x).events = x.events)
    (hq : ∀ etid, (w.cmd c).waker = some (.root etid) → etid ∈ w.execReady) : QS me w (w.modCmd c f) := by
  have oth : ∀ d, c ≠ d → (w.modCmd c f).cmd d = w.cmd d := fun d h => World.cmd_modCmd_other w c d f h
  have wk : ((w.modCmd c f).cmd c).waker = none := cmd_modCmd_const (·.waker) none w c f hw rfl
  refine ⟨by simp [World.modCmd, modifyNth_length], ?_, ?_, fun _ h => h, fun _ h => h, fun _ h => h, ?_, ?_, ?_⟩
  · intro d; by_cases e : c = d
    · subst e; exact cmd_modCmd_keep (·.alive) w c f ha
    · rw [oth d e]
  · intro d; by_cases e : c = d
    · subst e; exact cmd_modCmd_keep (·.abortFlag) w c f hfl
    · rw [oth d e]
  · intro d; by_cases e : c = d
    · subst e; exact Or.inr ⟨wk, hq⟩
    · rw [oth d e]; exact Or.inl rfl
  · intro d _; by_cases e : c = d
    · subst e
      exact ⟨cmd_modCmd_keep (·.tasks) w c f (fun x => (hk x).1), cmd_modCmd_keep (·.spawnQ) w c f (fun x => (hk x).2.1),
        cmd_modCmd_keep (·.effects) w c f (fun x => (hk x).2.2.1), cmd_modCmd_keep (·.events) w c f (fun x => (hk x).2.2.2)⟩
    · rw [oth d e]; exact ⟨rfl, rfl, rfl, rfl⟩
  · intro d _; by_cases e : c = d
    · subst e; exact Or.inr wk
    · rw [oth d e]; exact Or.inl rfl

end M.Rt
