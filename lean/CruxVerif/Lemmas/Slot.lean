/- Invariants of the P-slot LTS (Model/Slot.lean), for any number of threads and tasks and every interleaving. -/
import CruxVerif.Model.Slot
namespace M.Slot

/-- the configuration is consistent: a request is waited on by its owner only -/
def Cfg.Ok (cfg : Cfg) : Prop := ∀ t q, q ∈ cfg.needs t → cfg.owner q = t

def holdsId (t : Nat) : Pc → Bool
  | .hand t' _ => t' == t | .requeuePt t' _ => t' == t | _ => false
def atWake (t : Nat) : Pc → Bool
  | .wakePt t' => t' == t | _ => false
def atTaken (t : Nat) : Pc → Bool
  | .takenPt t' => t' == t | _ => false
def atDoneTrue (t : Nat) : Pc → Bool
  | .afterPollPt t' true => t' == t | _ => false
def pollingPc (t : Nat) : Pc → Bool
  | .takenPt t' => t' == t | .afterPollPt t' _ => t' == t | _ => false
def active : Pc → Bool
  | .done => false | .start => false | _ => true

structure Inv (cfg : Cfg) (s : St) : Prop where
  /-- a thread between taking a task and putting it back owns the (empty) slot -/
  owns : ∀ t r, pollingPc t (s.pc r) = true → s.slot t = .taken r
  /-- an empty slot always has its holder -/
  back : ∀ t r0, s.slot t = .taken r0 → pollingPc t (s.pc r0) = true
  /-- no lost wake-up: an id sent for a task that is still in the slab is in the channel or in some thread's hand until
      a later slot-take (= a poll that starts after the wake) serves it -/
  wake : ∀ t, s.pend t = true → s.slot t = .removed ∨ t ∈ s.queue ∨ ∃ r, holdsId t (s.pc r) = true
  /-- ids in the channel always have a thread that will still look at the channel -/
  live : s.queue ≠ [] → ∃ r, active (s.pc r) = true
  /-- no lost response: a task all of whose requests are resolved is gone, or a wake-up for it is on its way, or a poll
      that will see all results is about to run / has just completed it -/
  resp : ∀ t, cfg.needs t ≠ [] → s.slot t ≠ .removed → (∀ q ∈ cfg.needs t, s.resolved q = true) →
    s.pend t = true ∨ (∃ r, atWake t (s.pc r) = true) ∨ (∃ r, atTaken t (s.pc r) = true) ∨
      (∃ r, atDoneTrue t (s.pc r) = true)

theorem inv_init (cfg : Cfg) (n : Nat) : Inv cfg (init n) := by
  refine ⟨?_, ?_, ?_, ?_, ?_⟩
  · intro t r h; simp only [init] at h; split at h <;> simp [pollingPc] at h
  · intro t r0 h; simp [init] at h
  · intro t h; simp [init] at h
  · intro h; simp [init] at h
  · intro t hne _ hall
    cases hn : cfg.needs t with
    | nil => exact absurd hn hne
    | cons q qs => have := hall q (by simp [hn]); simp [init] at this

theorem ex_split (f : Nat → Pc) (r : Nat) (P : Pc → Bool) :
    (∃ r', P (f r') = true) ↔ P (f r) = true ∨ ∃ r', r' ≠ r ∧ P (f r') = true := by
  constructor
  · rintro ⟨r', h⟩
    by_cases e : r' = r
    · subst e; exact Or.inl h
    · exact Or.inr ⟨r', e, h⟩
  · rintro (h | ⟨r', _, h⟩)
    · exact ⟨r, h⟩
    · exact ⟨r', h⟩

theorem ex_upd (f : Nat → Pc) (r : Nat) (v : Pc) (P : Pc → Bool) :
    (∃ r', P (upd f r v r') = true) ↔ P v = true ∨ ∃ r', r' ≠ r ∧ P (f r') = true := by
  constructor
  · rintro ⟨r', h⟩
    by_cases e : r' = r
    · subst e; rw [upd_self] at h; exact Or.inl h
    · rw [upd_other _ _ _ _ e] at h; exact Or.inr ⟨r', e, h⟩
  · rintro (h | ⟨r', e, h⟩)
    · exact ⟨r, by rw [upd_self]; exact h⟩
    · exact ⟨r', by rw [upd_other _ _ _ _ e]; exact h⟩

set_option linter.unusedSimpArgs false
set_option linter.unusedVariables false

macro "fin" : tactic => `(tactic| first | done | grind [upd, Cfg.Ok])

theorem inv_step (cfg : Cfg) (hcfg : cfg.Ok) (r : Nat) (s : St) (h : Inv cfg s) : Inv cfg (step cfg r s) := by
  obtain ⟨howns, hback, hwake, hlive, hresp⟩ := h
  cases hpc : s.pc r with
  | start =>
    simp only [step, hpc]
    by_cases hq : s.resolved (cfg.target r) = true
    · simp only [hq, if_true]
      refine ⟨?_, ?_, ?_, ?_, ?_⟩
      · intro t r' hp
        have ho := howns t r'
        have hor := howns t r
        by_cases e : r' = r
        · subst e; simp only [upd_self] at hp; simp [hpc, pollingPc] at hp hor ⊢ <;> fin
        · simp only [upd_other _ _ _ _ e] at hp; simp [hpc, pollingPc] at hor <;> fin
      · intro t r1 hs1
        have hb := hback t r1
        have hor := howns t r
        by_cases e : r1 = r
        · subst e; simp only [upd_self]; simp [hpc, pollingPc] at hb hor hs1 ⊢ <;> fin
        · simp only [upd_other _ _ _ _ e]; simp [hpc, pollingPc] at hor hs1 <;> fin
      · intro t hp
        have hw := hwake t
        rw [ex_split s.pc r] at hw
        simp only [ex_upd]
        simp [hpc, holdsId] at hw ⊢ <;> fin
      · intro hne
        have hl := hlive
        rw [ex_split s.pc r] at hl
        simp only [ex_upd]
        simp [hpc, active] at hl ⊢ <;> fin
      · intro t hn hs hall
        have hr := hresp t hn
        rw [ex_split s.pc r (atWake t), ex_split s.pc r (atTaken t), ex_split s.pc r (atDoneTrue t)] at hr
        simp only [ex_upd]
        simp [hpc, atWake, atTaken, atDoneTrue] at hr ⊢ <;> fin
    · simp only [hq, Bool.false_eq_true, if_false]
      refine ⟨?_, ?_, ?_, ?_, ?_⟩
      · intro t r' hp
        have ho := howns t r'
        have hor := howns t r
        by_cases e : r' = r
        · subst e; simp only [upd_self] at hp; simp [hpc, pollingPc] at hp hor ⊢ <;> fin
        · simp only [upd_other _ _ _ _ e] at hp; simp [hpc, pollingPc] at hor <;> fin
      · intro t r1 hs1
        have hb := hback t r1
        have hor := howns t r
        by_cases e : r1 = r
        · subst e; simp only [upd_self]; simp [hpc, pollingPc] at hb hor hs1 ⊢ <;> fin
        · simp only [upd_other _ _ _ _ e]; simp [hpc, pollingPc] at hor hs1 <;> fin
      · intro t hp
        have hw := hwake t
        rw [ex_split s.pc r] at hw
        simp only [ex_upd]
        simp [hpc, holdsId] at hw ⊢ <;> fin
      · intro hne
        have hl := hlive
        rw [ex_split s.pc r] at hl
        simp only [ex_upd]
        simp [hpc, active] at hl ⊢ <;> fin
      · intro t hn hs hall
        have hr := hresp t hn
        rw [ex_split s.pc r (atWake t), ex_split s.pc r (atTaken t), ex_split s.pc r (atDoneTrue t)] at hr
        simp only [ex_upd]
        simp [hpc, atWake, atTaken, atDoneTrue] at hr ⊢ <;> fin
  | wakePt t0 =>
    simp only [step, hpc]
    refine ⟨?_, ?_, ?_, ?_, ?_⟩
    · intro t r' hp
      have ho := howns t r'
      have hor := howns t r
      by_cases e : r' = r
      · subst e; simp only [upd_self] at hp; simp [hpc, pollingPc] at hp hor ⊢ <;> fin
      · simp only [upd_other _ _ _ _ e] at hp; simp [hpc, pollingPc] at hor <;> fin
    · intro t r1 hs1
      have hb := hback t r1
      have hor := howns t r
      by_cases e : r1 = r
      · subst e; simp only [upd_self]; simp [hpc, pollingPc] at hb hor hs1 ⊢ <;> fin
      · simp only [upd_other _ _ _ _ e]; simp [hpc, pollingPc] at hor hs1 <;> fin
    · intro t hp
      have hw := hwake t
      rw [ex_split s.pc r] at hw
      simp only [ex_upd]
      simp [hpc, holdsId] at hw ⊢ <;> fin
    · intro hne
      have hl := hlive
      rw [ex_split s.pc r] at hl
      simp only [ex_upd]
      simp [hpc, active] at hl ⊢ <;> fin
    · intro t hn hs hall
      have hr := hresp t hn
      rw [ex_split s.pc r (atWake t), ex_split s.pc r (atTaken t), ex_split s.pc r (atDoneTrue t)] at hr
      simp only [ex_upd]
      simp [hpc, atWake, atTaken, atDoneTrue] at hr ⊢ <;> fin
  | loopTop d =>
    simp only [step, hpc]
    cases hqu : s.queue with
    | nil =>
      cases d with
      | true =>
        simp only [if_true]
        refine ⟨?_, ?_, ?_, ?_, ?_⟩
        · intro t r' hp
          have ho := howns t r'
          have hor := howns t r
          by_cases e : r' = r
          · subst e; simp only [upd_self] at hp; simp [hpc, pollingPc] at hp hor ⊢ <;> fin
          · simp only [upd_other _ _ _ _ e] at hp; simp [hpc, pollingPc] at hor <;> fin
        · intro t r1 hs1
          have hb := hback t r1
          have hor := howns t r
          by_cases e : r1 = r
          · subst e; simp only [upd_self]; simp [hpc, pollingPc] at hb hor hs1 ⊢ <;> fin
          · simp only [upd_other _ _ _ _ e]; simp [hpc, pollingPc] at hor hs1 <;> fin
        · intro t hp
          have hw := hwake t
          rw [ex_split s.pc r] at hw
          simp only [ex_upd]
          simp [hpc, holdsId] at hw ⊢ <;> fin
        · intro hne
          have hl := hlive
          rw [ex_split s.pc r] at hl
          simp only [ex_upd]
          simp [hpc, active] at hl ⊢ <;> fin
        · intro t hn hs hall
          have hr := hresp t hn
          rw [ex_split s.pc r (atWake t), ex_split s.pc r (atTaken t), ex_split s.pc r (atDoneTrue t)] at hr
          simp only [ex_upd]
          simp [hpc, atWake, atTaken, atDoneTrue] at hr ⊢ <;> fin
      | false =>
        simp only [Bool.false_eq_true, if_false]
        refine ⟨?_, ?_, ?_, ?_, ?_⟩
        · intro t r' hp
          have ho := howns t r'
          have hor := howns t r
          by_cases e : r' = r
          · subst e; simp only [upd_self] at hp; simp [hpc, pollingPc] at hp hor ⊢ <;> fin
          · simp only [upd_other _ _ _ _ e] at hp; simp [hpc, pollingPc] at hor <;> fin
        · intro t r1 hs1
          have hb := hback t r1
          have hor := howns t r
          by_cases e : r1 = r
          · subst e; simp only [upd_self]; simp [hpc, pollingPc] at hb hor hs1 ⊢ <;> fin
          · simp only [upd_other _ _ _ _ e]; simp [hpc, pollingPc] at hor hs1 <;> fin
        · intro t hp
          have hw := hwake t
          rw [ex_split s.pc r] at hw
          simp only [ex_upd]
          simp [hpc, holdsId] at hw ⊢ <;> fin
        · intro hne
          have hl := hlive
          rw [ex_split s.pc r] at hl
          simp only [ex_upd]
          simp [hpc, active] at hl ⊢ <;> fin
        · intro t hn hs hall
          have hr := hresp t hn
          rw [ex_split s.pc r (atWake t), ex_split s.pc r (atTaken t), ex_split s.pc r (atDoneTrue t)] at hr
          simp only [ex_upd]
          simp [hpc, atWake, atTaken, atDoneTrue] at hr ⊢ <;> fin
    | cons t0 q0 =>
      simp only []
      refine ⟨?_, ?_, ?_, ?_, ?_⟩
      · intro t r' hp
        have ho := howns t r'
        have hor := howns t r
        by_cases e : r' = r
        · subst e; simp only [upd_self] at hp; simp [hpc, pollingPc] at hp hor ⊢ <;> fin
        · simp only [upd_other _ _ _ _ e] at hp; simp [hpc, pollingPc] at hor <;> fin
      · intro t r1 hs1
        have hb := hback t r1
        have hor := howns t r
        by_cases e : r1 = r
        · subst e; simp only [upd_self]; simp [hpc, pollingPc] at hb hor hs1 ⊢ <;> fin
        · simp only [upd_other _ _ _ _ e]; simp [hpc, pollingPc] at hor hs1 <;> fin
      · intro t hp
        have hw := hwake t
        rw [ex_split s.pc r] at hw
        simp only [ex_upd]
        simp [hpc, holdsId] at hw ⊢ <;> fin
      · intro hne
        have hl := hlive
        rw [ex_split s.pc r] at hl
        simp only [ex_upd]
        simp [hpc, active] at hl ⊢ <;> fin
      · intro t hn hs hall
        have hr := hresp t hn
        rw [ex_split s.pc r (atWake t), ex_split s.pc r (atTaken t), ex_split s.pc r (atDoneTrue t)] at hr
        simp only [ex_upd]
        simp [hpc, atWake, atTaken, atDoneTrue] at hr ⊢ <;> fin
  | hand t0 d =>
    simp only [step, hpc]
    cases hsl : s.slot t0 with
    | removed =>
      simp only []
      refine ⟨?_, ?_, ?_, ?_, ?_⟩
      · intro t r' hp
        have ho := howns t r'
        have hor := howns t r
        by_cases e : r' = r
        · subst e; simp only [upd_self] at hp; simp [hpc, pollingPc] at hp hor ⊢ <;> fin
        · simp only [upd_other _ _ _ _ e] at hp; simp [hpc, pollingPc] at hor <;> fin
      · intro t r1 hs1
        have hb := hback t r1
        have hor := howns t r
        by_cases e : r1 = r
        · subst e; simp only [upd_self]; simp [hpc, pollingPc] at hb hor hs1 ⊢ <;> fin
        · simp only [upd_other _ _ _ _ e]; simp [hpc, pollingPc] at hor hs1 <;> fin
      · intro t hp
        have hw := hwake t
        rw [ex_split s.pc r] at hw
        simp only [ex_upd]
        simp [hpc, holdsId] at hw ⊢ <;> fin
      · intro hne
        have hl := hlive
        rw [ex_split s.pc r] at hl
        simp only [ex_upd]
        simp [hpc, active] at hl ⊢ <;> fin
      · intro t hn hs hall
        have hr := hresp t hn
        rw [ex_split s.pc r (atWake t), ex_split s.pc r (atTaken t), ex_split s.pc r (atDoneTrue t)] at hr
        simp only [ex_upd]
        simp [hpc, atWake, atTaken, atDoneTrue] at hr ⊢ <;> fin
    | present =>
      simp only []
      refine ⟨?_, ?_, ?_, ?_, ?_⟩
      · intro t r' hp
        have ho := howns t r'
        have hor := howns t r
        by_cases e : r' = r
        · subst e; simp only [upd_self] at hp; simp [hpc, pollingPc] at hp hor ⊢ <;> fin
        · simp only [upd_other _ _ _ _ e] at hp; simp [hpc, pollingPc] at hor <;> fin
      · intro t r1 hs1
        have hb := hback t r1
        have hor := howns t r
        by_cases e : r1 = r
        · subst e; simp only [upd_self]; simp [hpc, pollingPc] at hb hor hs1 ⊢ <;> fin
        · simp only [upd_other _ _ _ _ e]; simp [hpc, pollingPc] at hor hs1 <;> fin
      · intro t hp
        have hw := hwake t
        rw [ex_split s.pc r] at hw
        simp only [ex_upd]
        simp [hpc, holdsId] at hw ⊢ <;> fin
      · intro hne
        have hl := hlive
        rw [ex_split s.pc r] at hl
        simp only [ex_upd]
        simp [hpc, active] at hl ⊢ <;> fin
      · intro t hn hs hall
        have hr := hresp t hn
        rw [ex_split s.pc r (atWake t), ex_split s.pc r (atTaken t), ex_split s.pc r (atDoneTrue t)] at hr
        simp only [ex_upd]
        simp [hpc, atWake, atTaken, atDoneTrue] at hr ⊢ <;> fin
    | taken r0 =>
      simp only []
      refine ⟨?_, ?_, ?_, ?_, ?_⟩
      · intro t r' hp
        have ho := howns t r'
        have hor := howns t r
        by_cases e : r' = r
        · subst e; simp only [upd_self] at hp; simp [hpc, pollingPc] at hp hor ⊢ <;> fin
        · simp only [upd_other _ _ _ _ e] at hp; simp [hpc, pollingPc] at hor <;> fin
      · intro t r1 hs1
        have hb := hback t r1
        have hor := howns t r
        by_cases e : r1 = r
        · subst e; simp only [upd_self]; simp [hpc, pollingPc] at hb hor hs1 ⊢ <;> fin
        · simp only [upd_other _ _ _ _ e]; simp [hpc, pollingPc] at hor hs1 <;> fin
      · intro t hp
        have hw := hwake t
        rw [ex_split s.pc r] at hw
        simp only [ex_upd]
        simp [hpc, holdsId] at hw ⊢ <;> fin
      · intro hne
        have hl := hlive
        rw [ex_split s.pc r] at hl
        simp only [ex_upd]
        simp [hpc, active] at hl ⊢ <;> fin
      · intro t hn hs hall
        have hr := hresp t hn
        rw [ex_split s.pc r (atWake t), ex_split s.pc r (atTaken t), ex_split s.pc r (atDoneTrue t)] at hr
        simp only [ex_upd]
        simp [hpc, atWake, atTaken, atDoneTrue] at hr ⊢ <;> fin
  | takenPt t0 =>
    simp only [step, hpc]
    refine ⟨?_, ?_, ?_, ?_, ?_⟩
    · intro t r' hp
      have ho := howns t r'
      have hor := howns t r
      by_cases e : r' = r
      · subst e; simp only [upd_self] at hp; simp [hpc, pollingPc] at hp hor ⊢ <;> fin
      · simp only [upd_other _ _ _ _ e] at hp; simp [hpc, pollingPc] at hor <;> fin
    · intro t r1 hs1
      have hb := hback t r1
      have hor := howns t r
      by_cases e : r1 = r
      · subst e; simp only [upd_self]; simp [hpc, pollingPc] at hb hor hs1 ⊢ <;> fin
      · simp only [upd_other _ _ _ _ e]; simp [hpc, pollingPc] at hor hs1 <;> fin
    · intro t hp
      have hw := hwake t
      rw [ex_split s.pc r] at hw
      simp only [ex_upd]
      simp [hpc, holdsId] at hw ⊢ <;> fin
    · intro hne
      have hl := hlive
      rw [ex_split s.pc r] at hl
      simp only [ex_upd]
      simp [hpc, active] at hl ⊢ <;> fin
    · intro t hn hs hall
      have hr := hresp t hn
      rw [ex_split s.pc r (atWake t), ex_split s.pc r (atTaken t), ex_split s.pc r (atDoneTrue t)] at hr
      simp only [ex_upd]
      simp [hpc, atWake, atTaken, atDoneTrue] at hr ⊢ <;> fin
  | afterPollPt t0 c =>
    simp only [step, hpc]
    have hown0 := howns t0 r
    simp only [hpc, pollingPc, beq_self_eq_true, forall_const] at hown0
    cases c with
    | true =>
      simp only [if_true]
      refine ⟨?_, ?_, ?_, ?_, ?_⟩
      · intro t r' hp
        have ho := howns t r'
        have hor := howns t r
        by_cases e : r' = r
        · subst e; simp only [upd_self] at hp; simp [hpc, pollingPc] at hp hor ⊢ <;> fin
        · simp only [upd_other _ _ _ _ e] at hp; simp [hpc, pollingPc] at hor <;> fin
      · intro t r1 hs1
        have hb := hback t r1
        have hor := howns t r
        by_cases e : r1 = r
        · subst e; simp only [upd_self]; simp [hpc, pollingPc] at hb hor hs1 ⊢ <;> fin
        · simp only [upd_other _ _ _ _ e]; simp [hpc, pollingPc] at hor hs1 <;> fin
      · intro t hp
        have hw := hwake t
        rw [ex_split s.pc r] at hw
        simp only [ex_upd]
        simp [hpc, holdsId] at hw ⊢ <;> fin
      · intro hne
        have hl := hlive
        rw [ex_split s.pc r] at hl
        simp only [ex_upd]
        simp [hpc, active] at hl ⊢ <;> fin
      · intro t hn hs hall
        have hr := hresp t hn
        rw [ex_split s.pc r (atWake t), ex_split s.pc r (atTaken t), ex_split s.pc r (atDoneTrue t)] at hr
        simp only [ex_upd]
        simp [hpc, atWake, atTaken, atDoneTrue] at hr ⊢ <;> fin
    | false =>
      simp only [Bool.false_eq_true, if_false]
      refine ⟨?_, ?_, ?_, ?_, ?_⟩
      · intro t r' hp
        have ho := howns t r'
        have hor := howns t r
        by_cases e : r' = r
        · subst e; simp only [upd_self] at hp; simp [hpc, pollingPc] at hp hor ⊢ <;> fin
        · simp only [upd_other _ _ _ _ e] at hp; simp [hpc, pollingPc] at hor <;> fin
      · intro t r1 hs1
        have hb := hback t r1
        have hor := howns t r
        by_cases e : r1 = r
        · subst e; simp only [upd_self]; simp [hpc, pollingPc] at hb hor hs1 ⊢ <;> fin
        · simp only [upd_other _ _ _ _ e]; simp [hpc, pollingPc] at hor hs1 <;> fin
      · intro t hp
        have hw := hwake t
        rw [ex_split s.pc r] at hw
        simp only [ex_upd]
        simp [hpc, holdsId] at hw ⊢ <;> fin
      · intro hne
        have hl := hlive
        rw [ex_split s.pc r] at hl
        simp only [ex_upd]
        simp [hpc, active] at hl ⊢ <;> fin
      · intro t hn hs hall
        have hr := hresp t hn
        rw [ex_split s.pc r (atWake t), ex_split s.pc r (atTaken t), ex_split s.pc r (atDoneTrue t)] at hr
        simp only [ex_upd]
        simp [hpc, atWake, atTaken, atDoneTrue] at hr ⊢ <;> fin
  | requeuePt t0 d =>
    simp only [step, hpc]
    refine ⟨?_, ?_, ?_, ?_, ?_⟩
    · intro t r' hp
      have ho := howns t r'
      have hor := howns t r
      by_cases e : r' = r
      · subst e; simp only [upd_self] at hp; simp [hpc, pollingPc] at hp hor ⊢ <;> fin
      · simp only [upd_other _ _ _ _ e] at hp; simp [hpc, pollingPc] at hor <;> fin
    · intro t r1 hs1
      have hb := hback t r1
      have hor := howns t r
      by_cases e : r1 = r
      · subst e; simp only [upd_self]; simp [hpc, pollingPc] at hb hor hs1 ⊢ <;> fin
      · simp only [upd_other _ _ _ _ e]; simp [hpc, pollingPc] at hor hs1 <;> fin
    · intro t hp
      have hw := hwake t
      rw [ex_split s.pc r] at hw
      simp only [ex_upd]
      simp [hpc, holdsId] at hw ⊢ <;> fin
    · intro hne
      have hl := hlive
      rw [ex_split s.pc r] at hl
      simp only [ex_upd]
      simp [hpc, active] at hl ⊢ <;> fin
    · intro t hn hs hall
      have hr := hresp t hn
      rw [ex_split s.pc r (atWake t), ex_split s.pc r (atTaken t), ex_split s.pc r (atDoneTrue t)] at hr
      simp only [ex_upd]
      simp [hpc, atWake, atTaken, atDoneTrue] at hr ⊢ <;> fin
  | done =>
    simp only [step, hpc]
    exact ⟨howns, hback, hwake, hlive, hresp⟩

end M.Slot

namespace M.Slot

theorem inv_run (cfg : Cfg) (hcfg : cfg.Ok) : ∀ (sched : List Nat) (s : St), Inv cfg s → Inv cfg (run cfg sched s)
  | [], _, h => h
  | r :: rest, s, h => by
    simp only [run, List.foldl_cons]
    exact inv_run cfg hcfg rest (step cfg r s) (inv_step cfg hcfg r s h)

end M.Slot
