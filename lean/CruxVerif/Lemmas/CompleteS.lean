/-
Completeness of eviction with `select` (simpleS task programs, direct host, whole runs). A completed select drops its
losing branch and leaves that branch's registrations behind: a task can stay `Suspended` at closed requests only, held by a
STALE registration of its own waker at a channel whose sender is still alive. `NDS`: a stored task suspended only at closed
requests is queued or some channel still holds a waker of it; the sender of that channel wakes it when it goes. `WOwn`: a
channel a stored task's block references holds only wakers of that task — so no other task's poll overwrites a stale
registration.
-/
import CruxVerif.Lemmas.SimpleS
import CruxVerif.Lemmas.Complete
namespace M.Rt

/-! ### a channel created during a poll holds the poll's waker or none -/

def NW (w0 : World) (wk : Waker) (w : World) : Prop :=
  ∀ l, w0.leaves.length ≤ l → (w.leaf l).waker = some wk ∨ (w.leaf l).waker = none

theorem NW.of_leaves {w0 : World} {wk : Waker} {w w' : World} (h : NW w0 wk w) (hl : w'.leaves = w.leaves) : NW w0 wk w' := by
  intro l hl0; rw [pleaf_of_leaves hl]; exact h l hl0

section
variable {w0 : World} {wk : Waker} {w : World}
theorem NW.modLeaf (h : NW w0 wk w) (l : Nat) (f : Leaf → Leaf)
    (hf : ∀ x, (f x).waker = x.waker ∨ (f x).waker = some wk ∨ (f x).waker = none) : NW w0 wk (w.modLeaf l f) := by
  intro l' hl'
  by_cases e : l = l'
  · subst e
    rw [World.leaf_modLeaf_self]
    cases hl : w.leaves[l]? with
    | none => right; rfl
    | some x =>
      simp only
      have := h l hl'
      rw [leaf_of_get hl] at this
      rcases hf x with h1 | h1 | h1
      · rw [h1]; exact this
      · exact Or.inl h1
      · exact Or.inr h1
  · rw [pleaf_modLeaf_ne w l f l' e]; exact h l' hl'
theorem nw_setWaker (l : Nat) (h : NW w0 wk w) : NW w0 wk (w.modLeaf l (setWaker wk)) := h.modLeaf l _ (fun _ => Or.inr (Or.inl rfl))
theorem nw_setQueue (l : Nat) (q : List Val) (h : NW w0 wk w) : NW w0 wk (w.modLeaf l (setQueue q)) := h.modLeaf l _ (fun _ => Or.inl rfl)
theorem nw_dropReceiver (l : Nat) (h : NW w0 wk w) : NW w0 wk (w.dropReceiver l) := h.modLeaf l _ (fun _ => Or.inl rfl)
theorem nw_newLeaf (lg : Bool) (h : NW w0 wk w) : NW w0 wk (w.newLeaf (some wk) lg).2 := by
  intro l hl0
  by_cases hl : l < w.leaves.length
  · rw [pleaf_newLeaf w _ lg l hl]; exact h l hl0
  · simp only [World.leaf, World.newLeaf]
    by_cases e : l = w.leaves.length
    · subst e; left; simp
    · right; rw [List.getElem?_eq_none (by simp; omega)]; rfl
theorem nw_newMeta (h : NW w0 wk w) : NW w0 wk w.newMeta.2 := h.of_leaves rfl
theorem nw_modMeta (s : Nat) (f : Meta → Meta) (h : NW w0 wk w) : NW w0 wk (w.modMeta s f) := h.of_leaves rfl
theorem nw_modCmd (c : Nat) (f : CmdSt → CmdSt) (h : NW w0 wk w) : NW w0 wk (w.modCmd c f) := h.of_leaves rfl
theorem nw_sinkEffect (sk : Sink) (e : Eff) (h : NW w0 wk w) : NW w0 wk (w.sinkEffect sk e) := by cases sk <;> exact h.of_leaves rfl
theorem nw_sinkEvent (sk : Sink) (e : Ev) (h : NW w0 wk w) : NW w0 wk (w.sinkEvent sk e) := by cases sk <;> exact h.of_leaves rfl
theorem nw_execSpawn (xs : List ExecTask) (h : NW w0 wk w) : NW w0 wk ({ w with execSpawn := xs } : World) := h.of_leaves rfl
theorem nw_wake (k : Waker) (h : NW w0 wk w) : NW w0 wk (w.wake k) := h.of_leaves (World.wake_leaves w k)
theorem nw_abortCmd (c : Nat) (h : NW w0 wk w) : NW w0 wk (w.abortCmd c) := by
  intro l hl0; rw [pleaf_abortCmd]; exact h l hl0
theorem nw_dropBlock (b : Block) (hb : hostFreeB b = true) (h : NW w0 wk w) : NW w0 wk (w.dropBlock b) :=
  dropBlock_hf_ind (NW w0 wk) (fun _ l hw => nw_dropReceiver l hw) _ b w hb h
end

def NWGood (pn : Waker → Nat → World → Option (NextRes × World)) (w0 : World) (wk : Waker) (f : Nat) : Prop :=
  ∀ sink b w r w', pollBlock pn f wk sink b w = some (r, w') → hostFreeB b = true → NW w0 wk w → NW w0 wk w'

theorem nwgood_succ (pn) (w0 : World) (wk : Waker) (f : Nat) (ih : NWGood pn w0 wk f) : NWGood pn w0 wk (f + 1) := by
  intro sink b w r w' h hf hw
  obtain ⟨env, cur, rest⟩ := b
  have hres := fun wk b w r w' h hf => (pollBlock_lgood pn f wk sink b w r w' h hf).2
  unfold pollBlock at h
  simp only [addJoinWaker_eq, addSpawn_eq, setWaker_eq, setQueue_eq] at h
  unfold NWGood at ih
  grind (gen := 20) (splits := 40) [nw_setWaker, nw_setQueue, nw_dropReceiver, nw_newLeaf, nw_newMeta, nw_modMeta, nw_modCmd,
    nw_sinkEffect, nw_sinkEvent, nw_execSpawn, nw_wake, nw_abortCmd, nw_dropBlock,
    hfB_eq, hfP_idle, hfP_reqDead, hfP_req, hfP_await, hfP_selfwake, hfP_streamWait,
    hfP_streamBody, hfP_join, hfP_select, hfP_host, hfIs_nil, hfIs_cons, hfI_host, hfI_stream, hfI_spawn, hfI_handoff,
    hfI_join, hfI_select, hfRes_pending]

theorem pollBlock_nwgood (pn) (w0 : World) (wk : Waker) : ∀ f, NWGood pn w0 wk f
  | 0 => by intro sink b w r w' h; simp [pollBlock] at h
  | f + 1 => nwgood_succ pn w0 wk f (pollBlock_nwgood pn w0 wk f)

theorem NW_refl (w : World) (wk : Waker) : NW w wk w := by
  intro l hl
  right
  simp [World.leaf, List.getElem?_eq_none hl]


/-! ### what one `run_task` does to the channels -/

theorem refs_lt (n nm : Nat) : ∀ (b : Block), inRangeB n nm b = true → ∀ l ∈ refsB b, l < n := by
  have key : ∀ k (b : Block), sizeOf b ≤ k → inRangeB n nm b = true → ∀ l ∈ refsB b, l < n := by
    intro k
    induction k with
    | zero => intro b hb; cases b; simp at hb
    | succ k ih =>
      intro b hb hr l hl
      obtain ⟨env, cur, rest⟩ := b
      simp only [Block.mk.sizeOf_spec] at hb
      simp only [inRangeB, Bool.and_eq_true] at hr
      simp only [refsB] at hl
      cases cur with
      | idle => simp [refsP] at hl
      | reqDead => simp [refsP] at hl
      | await s => simp [refsP] at hl
      | selfwake s => simp [refsP] at hl
      | host c m => simp [refsP] at hl
      | req x l0 =>
        simp only [refsP, List.mem_singleton] at hl
        simp only [inRangeP, decide_eq_true_eq] at hr
        rw [hl]; exact hr.2
      | streamWait x l0 c lim body =>
        simp only [refsP, List.mem_singleton] at hl
        simp only [inRangeP, decide_eq_true_eq] at hr
        rw [hl]; exact hr.2
      | streamBody x l0 c lim body inner =>
        simp only [refsP, List.mem_cons] at hl
        simp only [inRangeP, Bool.and_eq_true, decide_eq_true_eq] at hr
        simp only [Pend.streamBody.sizeOf_spec] at hb
        rcases hl with hl | hl
        · rw [hl]; exact hr.2.1
        · exact ih inner (by omega) hr.2.2 l hl
      | join a b ad bd =>
        simp only [refsP, List.mem_append] at hl
        simp only [inRangeP, Bool.and_eq_true] at hr
        simp only [Pend.join.sizeOf_spec] at hb
        rcases hl with hl | hl
        · cases ad with
          | true => simp at hl
          | false => exact ih a (by omega) hr.2.1 l (by simpa using hl)
        · cases bd with
          | true => simp at hl
          | false => exact ih b (by omega) hr.2.2 l (by simpa using hl)
      | select a b =>
        simp only [refsP, List.mem_append] at hl
        simp only [inRangeP, Bool.and_eq_true] at hr
        simp only [Pend.select.sizeOf_spec] at hb
        rcases hl with hl | hl
        · exact ih a (by omega) hr.2.1 l hl
        · exact ih b (by omega) hr.2.2 l hl
  intro b
  exact key _ b (Nat.le_refl _)

theorem leaf_some_lt {w : World} {l : Nat} {k : Waker} (h : (w.leaf l).waker = some k) : l < w.leaves.length := by
  by_cases hl : l < w.leaves.length
  · exact hl
  · simp [World.leaf, List.getElem?_eq_none (Nat.le_of_not_lt hl)] at h

structure LFr (c tid : Nat) (t : Task) (w w' : World) : Prop where
  /-- a channel the task's block does not reference is left as it was -/
  other : ∀ l, l < w.leaves.length → l ∉ refsB t.fut → w'.leaf l = w.leaf l
  /-- an old channel keeps its waker or gets this poll's -/
  old : ∀ l, l < w.leaves.length → (w'.leaf l).waker = (w.leaf l).waker ∨ (w'.leaf l).waker = some (.task c tid w.nextSerial)
  /-- a new channel holds this poll's waker or none -/
  new : ∀ l, w.leaves.length ≤ l → (w'.leaf l).waker = some (.task c tid w.nextSerial) ∨ (w'.leaf l).waker = none
  /-- the old channels the block left behind references were referenced before -/
  refs : ∀ t', (w'.cmd c).tasks.get? tid = some t' → ∀ l ∈ refsB t'.fut, l < w.leaves.length → l ∈ refsB t.fut

theorem runTaskF_lf (pn) (f : Nat) (c tid : Nat) (w : World) (st : TaskState) (w' : World) (t : Task)
    (h : runTaskF (pollBlock pn f) c tid w = some (st, w')) (hw : HFc c w) (hg : (w.cmd c).tasks.get? tid = some t)
    (hr : inRangeB w.leaves.length w.metas.length t.fut = true) (hin : c < w.cmds.length) : LFr c tid t w w' := by
  have htf : hostFreeB t.fut = true := hw.t t (Slab.mem_values_of_get _ _ _ hg)
  have same : LFr c tid t w w := ⟨fun _ _ _ => rfl, fun _ _ => Or.inl rfl,
    fun l hl => Or.inr (by simp [World.leaf, List.getElem?_eq_none hl]),
    fun t' hg' l hl _ => by rw [hg] at hg'; cases hg'; exact hl⟩
  unfold runTaskF at h
  rw [hg] at h
  simp only at h
  split at h
  · simp only [Option.some.injEq, Prod.mk.injEq] at h; obtain ⟨_, rfl⟩ := h; exact same
  · have pollfacts : ∀ (r : PollRes) (w1 : World),
        pollBlock pn f (.task c tid w.nextSerial) (.cmd c) t.fut ({ w with nextSerial := w.nextSerial + 1 } : World) = some (r, w1) →
        (∀ l, l < w.leaves.length → l ∉ refsB t.fut → w1.leaf l = w.leaf l ∧ lfRes l r) ∧
        (∀ l, l < w.leaves.length → (w1.leaf l).waker = (w.leaf l).waker ∨ (w1.leaf l).waker = some (.task c tid w.nextSerial)) ∧
        (∀ l, w.leaves.length ≤ l → (w1.leaf l).waker = some (.task c tid w.nextSerial) ∨ (w1.leaf l).waker = none) ∧
        (w1.cmd c).tasks = (w.cmd c).tasks ∧ w1.cmds.length = w.cmds.length := by
      intro r w1 hp
      refine ⟨?_, ?_, ?_, ?_, ?_⟩
      · intro l hl hn
        have := pollBlock_lfgood pn l f _ _ _ _ _ _ hp htf hl hn
        exact ⟨this.1, this.2.2⟩
      · intro l hl
        exact (pollBlock_good pn f _ _ _ _ _ _ hp htf hr).1.leaf l hl
      · intro l hl
        exact pollBlock_nwgood pn ({ w with nextSerial := w.nextSerial + 1 } : World) _ f _ _ _ _ _ hp htf (NW_refl _ _) l hl
      · have tk := pollBlock_tgood pn f (fun _ t => hostFreeB t.fut = true) _ _ _ _ _ _ hp htf (fun _ _ _ x => x)
        rw [tk.tasks c]; rfl
      · exact (pollBlock_qs _ _ _ _ _ _ _ _ hp htf).len
    split at h
    · cases h
    · rename_i env1 w1 hpoll
      simp only [Option.some.injEq, Prod.mk.injEq] at h
      obtain ⟨_, rfl⟩ := h
      obtain ⟨p1, p2, p3, p4, _⟩ := pollfacts _ _ hpoll
      exact ⟨fun l hl hn => (p1 l hl hn).1, p2, p3, fun t' hg' l hl _ => by rw [p4, hg] at hg'; cases hg'; exact hl⟩
    · rename_i b w1 hpoll
      obtain ⟨p1, p2, p3, p4, p5⟩ := pollfacts _ _ hpoll
      obtain ⟨x1, hx1⟩ : ∃ x, w1.cmds[c]? = some x := ⟨_, List.getElem?_eq_getElem (by omega)⟩
      have fin : ∀ (pf : Nat → Bool), LFr c tid t w ({ (w1.modCmd c fun x => { x with tasks := x.tasks.set tid { t with fut := b } })
            with woken := (w1.modCmd c fun x => { x with tasks := x.tasks.set tid { t with fut := b } }).woken.filter pf } : World) := by
        intro pf
        refine ⟨fun l hl hn => (p1 l hl hn).1, p2, p3, ?_⟩
        intro t' hg' l hl hlt
        have et : ((w1.modCmd c fun x => { x with tasks := x.tasks.set tid { t with fut := b } }).cmd c).tasks =
            (w1.cmd c).tasks.set tid { t with fut := b } := by
          rw [World.cmd_modCmd_self]; simp [hx1, World.cmd]
        change ((w1.modCmd c fun x => { x with tasks := x.tasks.set tid { t with fut := b } }).cmd c).tasks.get? tid = some t' at hg'
        rw [et, Slab.get_set_self _ _ _ t (by rw [p4]; exact hg)] at hg'
        cases hg'
        apply Classical.byContradiction
        intro hn
        have := (p1 l hlt hn).2
        rw [lfRes_pending] at this
        exact this hl
      split at h
      · simp only [Option.some.injEq, Prod.mk.injEq] at h; obtain ⟨_, rfl⟩ := h; exact fin _
      · simp only [Option.some.injEq, Prod.mk.injEq] at h; obtain ⟨_, rfl⟩ := h; exact fin _


/-! ### whose wakers a referenced channel holds; stale registrations -/

def WOwn (c : Nat) (w : World) : Prop :=
  ∀ tid t, (w.cmd c).tasks.get? tid = some t → ∀ l ∈ refsB t.fut, ∀ c' t' s',
    (w.leaf l).waker = some (.task c' t' s') → c' = c ∧ t' = tid

def StaleW (c tid : Nat) (w : World) : Prop := ∃ l s, (w.leaf l).waker = some (.task c tid s)

def NDS (c : Nat) (ex : Option Nat) (w : World) : Prop :=
  ∀ tid t, (w.cmd c).tasks.get? tid = some t → some tid ≠ ex → deadOnlyB t.fut = true →
    tid ∈ (w.cmd c).ready ∨ StaleW c tid w

theorem runTaskF_same_of_none (poll) (c tid : Nat) (w : World) (st : TaskState) (w' : World)
    (h : runTaskF poll c tid w = some (st, w')) (hg : (w.cmd c).tasks.get? tid = none) : w' = w := by
  rw [runTaskF_missing poll c tid w hg] at h
  simp only [Option.some.injEq, Prod.mk.injEq] at h
  exact h.2.symm

theorem runTaskF_wown (pn) (f : Nat) (c tid : Nat) (w : World) (st : TaskState) (w' : World)
    (h : runTaskF (pollBlock pn f) c tid w = some (st, w')) (hown : Own c w) (hwf : WFw w) (hin : c < w.cmds.length)
    (hwo : WOwn c w) : WOwn c w' := by
  cases hgo : (w.cmd c).tasks.get? tid with
  | none => rw [runTaskF_same_of_none _ c tid w st w' h hgo]; exact hwo
  | some t =>
    have hrt : inRangeB w.leaves.length w.metas.length t.fut = true := hwf.t c t (Slab.mem_values_of_get _ _ _ hgo)
    have lf := runTaskF_lf pn f c tid w st w' t h hown.hfc hgo hrt hin
    have fr := runTaskF_frame pn f c tid w st w' h hown.hfc
    intro tid' t' hg' l hl c' t'' s' hk
    by_cases e : tid' = tid
    · subst e
      by_cases hlt : l < w.leaves.length
      · have hl0 := lf.refs t' hg' l hl hlt
        rcases lf.old l hlt with h1 | h1
        · rw [h1] at hk; exact hwo tid' t hgo l hl0 c' t'' s' hk
        · rw [h1] at hk; cases hk; exact ⟨rfl, rfl⟩
      · rcases lf.new l (Nat.le_of_not_lt hlt) with h1 | h1
        · rw [h1] at hk; cases hk; exact ⟨rfl, rfl⟩
        · rw [h1] at hk; cases hk
    · rw [fr.1 tid' e] at hg'
      have hlt : l < w.leaves.length :=
        refs_lt _ _ t'.fut (hwf.t c t' (Slab.mem_values_of_get _ _ _ hg')) l hl
      have hn : l ∉ refsB t.fut := hown.disjoint tid tid' t t' (Ne.symm e) hgo hg' l hl
      rw [lf.other l hlt hn] at hk
      exact hwo tid' t' hg' l hl c' t'' s' hk

theorem runTaskF_nds_others (pn) (f : Nat) (c tid : Nat) (w : World) (st : TaskState) (w' : World)
    (h : runTaskF (pollBlock pn f) c tid w = some (st, w')) (hown : Own c w) (hwf : WFw w) (hin : c < w.cmds.length)
    (hwo : WOwn c w) (hn : NDS c (some tid) w) : NDS c (some tid) w' := by
  cases hgo : (w.cmd c).tasks.get? tid with
  | none => rw [runTaskF_same_of_none _ c tid w st w' h hgo]; exact hn
  | some t =>
    have hrt : inRangeB w.leaves.length w.metas.length t.fut = true := hwf.t c t (Slab.mem_values_of_get _ _ _ hgo)
    have lf := runTaskF_lf pn f c tid w st w' t h hown.hfc hgo hrt hin
    have fr := runTaskF_frame pn f c tid w st w' h hown.hfc
    intro tid' t' hg' hne hd
    have e : tid' ≠ tid := fun e => hne (by rw [e])
    rw [fr.1 tid' e] at hg'
    rcases hn tid' t' hg' hne hd with h1 | ⟨l, s0, h1⟩
    · exact Or.inl (fr.2 tid' h1)
    · refine Or.inr ⟨l, s0, ?_⟩
      have hlt := leaf_some_lt h1
      have hnr : l ∉ refsB t.fut := by
        intro hl
        exact e (hwo tid t hgo l hl c tid' s0 h1).2
      rw [lf.other l hlt hnr]; exact h1

/-- a simpleS task that `run_task` keeps as `Suspended` although it is suspended only at closed requests was woken during
    its poll (hence is queued) or a channel holds the poll's waker -/
theorem runTaskF_dead_stale (pn) (f : Nat) (c tid : Nat) (w : World) (w' : World)
    (h : runTaskF (pollBlock pn f) c tid w = some (.suspended, w')) (hw : HFc c w)
    (hs : ∀ t ∈ (w.cmd c).tasks.values, simpleSB t.fut = true) (sok : SOk w)
    (hal : (w.cmd c).alive = true) (hin : c < w.cmds.length) :
    ∀ t, (w'.cmd c).tasks.get? tid = some t → deadOnlyB t.fut = true → tid ∈ (w'.cmd c).ready ∨ StaleW c tid w' := by
  unfold runTaskF at h
  split at h
  · simp at h
  · rename_i t hg
    have htf : hostFreeB t.fut = true := hw.t t (Slab.mem_values_of_get _ _ _ hg)
    have hts : simpleSB t.fut = true := hs t (Slab.mem_values_of_get _ _ _ hg)
    split at h
    · simp at h
    · dsimp only at h
      split at h
      · cases h
      · simp at h
      · rename_i b w1 hpoll
        split at h
        · simp at h
        · rename_i hcond
          simp only [Option.some.injEq, Prod.mk.injEq, true_and] at h
          subst h
          intro t2 _ _
          have er : ((w1.modCmd c fun x => { x with tasks := x.tasks.set tid { t with fut := b } }).cmd c).ready = (w1.cmd c).ready := by
            refine cmd_modCmd_keep (·.ready) w1 c _ ?_; intro _; rfl
          by_cases hwk : w1.woken.contains w.nextSerial = true
          · left
            have := woken_means_queued pn f c tid w _ _ w1 hpoll htf sok hal hin (List.contains_iff_mem.mp hwk)
            show tid ∈ ((w1.modCmd c fun x => { x with tasks := x.tasks.set tid { t with fut := b } }).cmd c).ready
            rw [er]; exact this
          · right
            -- some clone of the poll's waker is held; it is not in a join-handle queue nor in a command: a channel holds it
            have mc0 : NoRegMC w.nextSerial ({ w with nextSerial := w.nextSerial + 1 } : World) :=
              ⟨fun m hm k hk => isSerial_of_below _ (some k) (sok.metas m hm k hk), fun x hx => isSerial_of_below _ _ (sok.cmds x hx)⟩
            have mc1 : NoRegMC w.nextSerial w1 := pollBlock_mcgood pn w.nextSerial f _ _ _ _ _ _ hpoll htf hts mc0
            have mc2 : NoRegMC w.nextSerial (w1.modCmd c fun x => { x with tasks := x.tasks.set tid { t with fut := b } }) :=
              mc1.modCmd c _ (fun _ hx => hx)
            have wp := pollBlock_wpgood pn c tid w.nextSerial f (.cmd c) t.fut _ _ w1 hpoll htf (WP_init c tid w sok hal hin)
            have hpos : (w1.leaves.filter fun l => isSerial w.nextSerial l.waker).length ≠ 0 := by
              intro hz
              apply hcond
              have hw0 : w1.woken.contains w.nextSerial = false := by
                cases hc : w1.woken.contains w.nextSerial with
                | true => exact absurd hc hwk
                | false => rfl
              show (!(w1.woken.contains w.nextSerial) &&
                (({ (w1.modCmd c fun x => { x with tasks := x.tasks.set tid { t with fut := b } })
                  with woken := (w1.modCmd c fun x => { x with tasks := x.tasks.set tid { t with fut := b } }).woken.filter (· != w.nextSerial) } : World).holders
                    w.nextSerial == 0)) = true
              rw [hw0]
              have : ({ (w1.modCmd c fun x => { x with tasks := x.tasks.set tid { t with fut := b } })
                  with woken := (w1.modCmd c fun x => { x with tasks := x.tasks.set tid { t with fut := b } }).woken.filter (· != w.nextSerial) } : World).holders
                    w.nextSerial = 0 := by
                unfold World.holders
                show (w1.leaves.filter fun l => isSerial w.nextSerial l.waker).length +
                  ((w1.modCmd c fun x => { x with tasks := x.tasks.set tid { t with fut := b } }).metas.map fun m =>
                    (m.joinWakers.filter fun k => isSerial w.nextSerial (some k)).length).sum +
                  ((w1.modCmd c fun x => { x with tasks := x.tasks.set tid { t with fut := b } }).cmds.filter fun x =>
                    isSerial w.nextSerial x.waker).length = 0
                rw [hz, filter_length_zero _ _ mc2.cmds, sum_map_zero _ _ (fun m hm => filter_length_zero _ _ (mc2.metas m hm))]
              rw [this]; rfl
            obtain ⟨lf, hlf⟩ := List.exists_mem_of_length_pos (Nat.pos_of_ne_zero hpos)
            rw [List.mem_filter] at hlf
            obtain ⟨i, hi⟩ := List.getElem?_of_mem hlf.1
            have hleaf : w1.leaf i = lf := by simp [World.leaf, hi]
            cases hk : lf.waker with
            | none => rw [hk] at hlf; simp [isSerial] at hlf
            | some k =>
              have hok := wp.u.leaves i k (by rw [hleaf]; exact hk)
              have hser : serOf k = some w.nextSerial := by
                have := hlf.2
                rw [hk] at this
                cases k with
                | root _ => simp [isSerial] at this
                | task c' t' s' => simp only [isSerial, beq_iff_eq] at this; simp [serOf, this]
              rcases hok with h1 | h1
              · refine ⟨i, w.nextSerial, ?_⟩
                show (w1.leaf i).waker = _
                rw [hleaf, hk, h1]
              · exact absurd hser h1


/-! ### finishing, spawning -/

theorem dropBlock_wakers (dc : Nat → World → World) (b : Block) (w : World) (hb : hostFreeB b = true) :
    ∀ l, ((dropBlock dc b w).leaf l).waker = (w.leaf l).waker := by
  refine dropBlock_hf_ind (fun W => ∀ l, (W.leaf l).waker = (w.leaf l).waker) ?_ dc b w hb (fun _ => rfl)
  intro W l0 hW l
  rw [← hW l]
  unfold World.dropReceiver
  by_cases e : l0 = l
  · subst e
    rw [World.leaf_modLeaf_self]
    cases hl : W.leaves[l0]? with
    | none => simp [World.leaf, hl]
    | some x => simp [World.leaf, hl]
  · rw [pleaf_modLeaf_ne W l0 _ l e]

theorem finishTask_wakers (c tid : Nat) (w : World) (hw : HFc c w) :
    ∀ l, ((finishTask c tid w).leaf l).waker = (w.leaf l).waker := by
  unfold finishTask
  simp only
  split
  · intro _; rfl
  · rename_i t tasks hr
    have htm : t ∈ (w.cmd c).tasks.values := by
      have : (w.cmd c).tasks.get? tid = some t := by
        cases hg : (w.cmd c).tasks.get? tid with
        | none => rw [Slab.remove_none _ _ hg] at hr; cases hr
        | some t' =>
          have := (Slab.remove_get _ _ _ hg).1
          rw [hr] at this; simp only [Option.some.injEq] at this; rw [this]
      exact Slab.mem_values_of_get _ _ _ this
    have htf := hw.t t htm
    intro l
    unfold World.dropTask M.Rt.dropTask
    simp only
    rw [dropBlock_wakers _ t.fut _ htf l]
    show (((((w.modCmd c fun x => { x with tasks := tasks }).modMeta t.serial fun m => { m with finished := true, joinWakers := [] }).wakeAll
      ((w.modCmd c fun x => { x with tasks := tasks }).getMeta t.serial).joinWakers).leaf l)).waker = _
    rw [pleaf_of_leaves (wakeAll_lm _ _).1]
    rfl

theorem finishTask_wown (c tid : Nat) (w : World) (hw : HFc c w) (hin : c < w.cmds.length) (hwo : WOwn c w) :
    WOwn c (finishTask c tid w) := by
  have fr := finishTask_frame c tid w hw hin
  intro tid' t' hg' l hl c' t'' s' hk
  rw [finishTask_wakers c tid w hw l] at hk
  exact hwo tid' t' (fr.1 tid' t' hg').1 l hl c' t'' s' hk

theorem finishTask_nds (c tid : Nat) (w : World) (hw : HFc c w) (hin : c < w.cmds.length) (hn : NDS c (some tid) w) :
    NDS c none (finishTask c tid w) := by
  have fr := finishTask_frame c tid w hw hin
  intro tid' t' hg' _ hd
  obtain ⟨hg1, hne1⟩ := fr.1 tid' t' hg'
  by_cases e : tid' = tid
  · subst e
    exact absurd rfl (hne1 (by rw [hg1]; simp))
  · rcases hn tid' t' hg1 (fun e' => e (Option.some.inj e')) hd with h1 | ⟨l, s0, h1⟩
    · exact Or.inl (fr.2 tid' h1)
    · exact Or.inr ⟨l, s0, by rw [finishTask_wakers c tid w hw l]; exact h1⟩

/-- where a stored task of the command comes from after `spawn_new_tasks` -/
theorem spawnNewTasks_get (c : Nat) (w : World) (hin : c < w.cmds.length) :
    ∀ tid t, ((spawnNewTasks c w).cmd c).tasks.get? tid = some t →
      ((w.cmd c).tasks.get? tid = some t ∧ (tid ∈ (w.cmd c).ready → tid ∈ ((spawnNewTasks c w).cmd c).ready)) ∨
      (t ∈ (w.cmd c).spawnQ ∧ tid ∈ ((spawnNewTasks c w).cmd c).ready) := by
  unfold spawnNewTasks
  obtain ⟨x0, hx0⟩ : ∃ x, w.cmds[c]? = some x := ⟨_, List.getElem?_eq_getElem hin⟩
  have ec : w.cmd c = x0 := by simp [World.cmd, hx0]
  have hP : ∀ (l : List Task) (W : World), c < W.cmds.length → ∀ tid t,
      ((l.foldl (fun w t => w.modCmd c fun x => { x with tasks := (x.tasks.insert t).2, ready := x.ready ++ [(x.tasks.insert t).1] }) W).cmd c).tasks.get? tid = some t →
      ((W.cmd c).tasks.get? tid = some t ∧ (tid ∈ (W.cmd c).ready →
        tid ∈ ((l.foldl (fun w t => w.modCmd c fun x => { x with tasks := (x.tasks.insert t).2, ready := x.ready ++ [(x.tasks.insert t).1] }) W).cmd c).ready)) ∨
      (t ∈ l ∧ tid ∈ ((l.foldl (fun w t => w.modCmd c fun x => { x with tasks := (x.tasks.insert t).2, ready := x.ready ++ [(x.tasks.insert t).1] }) W).cmd c).ready) := by
    intro l
    induction l with
    | nil => intro W _ tid t h; exact Or.inl ⟨h, fun hx => hx⟩
    | cons a l ih =>
      intro W hW tid t h
      simp only [List.foldl_cons] at h ⊢
      obtain ⟨y0, hy0⟩ : ∃ x, W.cmds[c]? = some x := ⟨_, List.getElem?_eq_getElem hW⟩
      have eW : W.cmd c = y0 := by simp [World.cmd, hy0]
      have e1t : ((W.modCmd c fun x => { x with tasks := (x.tasks.insert a).2, ready := x.ready ++ [(x.tasks.insert a).1] }).cmd c).tasks =
          (y0.tasks.insert a).2 := by rw [World.cmd_modCmd_self]; simp [hy0]
      have e1r : ((W.modCmd c fun x => { x with tasks := (x.tasks.insert a).2, ready := x.ready ++ [(x.tasks.insert a).1] }).cmd c).ready =
          y0.ready ++ [(y0.tasks.insert a).1] := by rw [World.cmd_modCmd_self]; simp [hy0]
      rcases ih _ (by simp only [World.modCmd, modifyNth_length]; exact hW) tid t h with ⟨h1, h2⟩ | ⟨h1, h2⟩
      · rw [e1t] at h1
        rw [e1r] at h2
        by_cases e : tid = (y0.tasks.insert a).1
        · -- the slot just filled: it holds `a` or what the later inserts put there; either way it is queued
          by_cases hta : t = a
          · exact Or.inr ⟨by rw [hta]; simp, h2 (by rw [e]; simp)⟩
          · -- `get?` of the fresh key after the insert is `a` whenever the key is in range; otherwise argue by the queue
            have hq := h2 (by rw [e]; simp)
            -- t was read at the inserted key but differs from a: then it must have been there before
            have : (y0.tasks.insert a).2.get? (y0.tasks.insert a).1 = some t := by rw [← e]; exact h1
            unfold Slab.insert at this
            split at this
            · rename_i k rest hf
              simp only [Slab.get?] at this
              by_cases hk : k < y0.tasks.entries.length
              · rw [List.getElem?_set_self hk] at this; simp at this; exact absurd this.symm hta
              · rw [List.getElem?_eq_none (by simp; omega)] at this; simp at this
            · simp only [Slab.get?] at this
              rw [List.getElem?_append_right (Nat.le_refl _)] at this
              simp at this; exact absurd this.symm hta
        · rw [Slab.get_insert_other _ _ _ e] at h1
          refine Or.inl ⟨by rw [eW]; exact h1, fun hx => h2 ?_⟩
          rw [eW] at hx; simp [hx]
      · exact Or.inr ⟨by simp [h1], h2⟩
  have hlen0 : c < (w.modCmd c fun x => { x with spawnQ := [] }).cmds.length := by
    simp only [World.modCmd, modifyNth_length]; exact hin
  have e0t : ((w.modCmd c fun x => { x with spawnQ := [] }).cmd c).tasks = (w.cmd c).tasks := by
    refine cmd_modCmd_keep (·.tasks) w c _ ?_; intro _; rfl
  have e0r : ((w.modCmd c fun x => { x with spawnQ := [] }).cmd c).ready = (w.cmd c).ready := by
    refine cmd_modCmd_keep (·.ready) w c _ ?_; intro _; rfl
  intro tid t h
  have := hP (w.cmd c).spawnQ _ hlen0 tid t h
  rw [e0t, e0r] at this
  exact this


/-! ### the shell's side: wakers are only taken, and a taken waker is woken -/

def WSub (w w' : World) : Prop := ∀ l k, (w'.leaf l).waker = some k → (w.leaf l).waker = some k

theorem WSub.refl (w : World) : WSub w w := fun _ _ h => h
theorem WSub.trans {a b c : World} (h1 : WSub a b) (h2 : WSub b c) : WSub a c := fun l k h => h1 l k (h2 l k h)
theorem WSub.of_leaves {w w' : World} (h : w'.leaves = w.leaves) : WSub w w' := fun l k hk => by rw [← pleaf_of_leaves h]; exact hk
theorem WSub.modLeaf (w : World) (l0 : Nat) (f : Leaf → Leaf) (hf : ∀ x, (f x).waker = x.waker ∨ (f x).waker = none) :
    WSub w (w.modLeaf l0 f) := by
  intro l k hk
  by_cases e : l0 = l
  · subst e
    rw [World.leaf_modLeaf_self] at hk
    cases hl : w.leaves[l0]? with
    | none => simp [hl] at hk
    | some x =>
      simp only [hl] at hk
      rcases hf x with h1 | h1
      · rw [h1] at hk; simp [World.leaf, hl, hk]
      · rw [h1] at hk; cases hk
  · rw [pleaf_modLeaf_ne w l0 f l e] at hk; exact hk
theorem WSub.wake (w : World) (k : Waker) : WSub w (w.wake k) := WSub.of_leaves (World.wake_leaves w k)

theorem wsub_dropSender (w : World) (l0 : Nat) : WSub w (w.dropSender l0) := by
  unfold World.dropSender
  simp only
  split
  · exact WSub.modLeaf w l0 _ (fun _ => Or.inl rfl)
  · split
    · exact (WSub.modLeaf w l0 _ (fun _ => Or.inr rfl)).trans (WSub.wake _ _)
    · exact WSub.modLeaf w l0 _ (fun _ => Or.inr rfl)

theorem wsub_resolveReq (r : Resolve) (v : Val) (w : World) : WSub w (resolveReq r v w).2.2 := by
  have h2 : ∀ l, WSub w (match (w.leaf l).waker with
      | some wk => (w.modLeaf l fun lf => { lf with queue := lf.queue ++ [v], waker := none }).wake wk
      | none => w.modLeaf l fun lf => { lf with queue := lf.queue ++ [v], waker := none }) := by
    intro l
    split
    · exact (WSub.modLeaf w l _ (fun _ => Or.inr rfl)).trans (WSub.wake _ _)
    · exact WSub.modLeaf w l _ (fun _ => Or.inr rfl)
  unfold resolveReq
  cases r with
  | never => exact WSub.refl w
  | gone => exact WSub.refl w
  | once l =>
    simp only
    split
    · exact (h2 l).trans (wsub_dropSender _ l)
    · exact wsub_dropSender _ l
  | many l =>
    simp only
    split
    · exact h2 l
    · exact WSub.refl w

theorem wsub_dropReq (r : Resolve) (w : World) : WSub w (dropReq r w).2 := by
  unfold dropReq
  cases r with
  | never => exact WSub.refl w
  | gone => exact WSub.refl w
  | once l => exact wsub_dropSender w l
  | many l => exact wsub_dropSender w l

/-- taking the waker of channel `l0` and waking it: a stale registration elsewhere stays, one at `l0` queues its task -/
theorem take_wake_stale (w : World) (l0 : Nat) (f : Leaf → Leaf) (hf : ∀ x, (f x).waker = none) (c tid : Nat)
    (hal : (w.cmd c).alive = true) (hin : c < w.cmds.length) (h : StaleW c tid w ∨ RD c tid w) :
    StaleW c tid (match (w.leaf l0).waker with | some wk => (w.modLeaf l0 f).wake wk | none => w.modLeaf l0 f) ∨
    RD c tid (match (w.leaf l0).waker with | some wk => (w.modLeaf l0 f).wake wk | none => w.modLeaf l0 f) := by
  rcases h with ⟨l, s, hk⟩ | h
  · by_cases e : l0 = l
    · subst e
      right
      simp only [hk]
      exact wake_queues c tid s (w.modLeaf l0 f) hal hin
    · left
      refine ⟨l, s, ?_⟩
      split
      · rw [pleaf_wake, pleaf_modLeaf_ne w l0 f l e]; exact hk
      · rw [pleaf_modLeaf_ne w l0 f l e]; exact hk
  · right
    split
    · exact rd_World_wake _ (rd_modLeaf _ _ h)
    · exact rd_modLeaf _ _ h

theorem dropSender_stale (w : World) (l0 : Nat) (c tid : Nat) (hal : (w.cmd c).alive = true) (hin : c < w.cmds.length)
    (h : StaleW c tid w ∨ RD c tid w) : StaleW c tid (w.dropSender l0) ∨ RD c tid (w.dropSender l0) := by
  unfold World.dropSender
  simp only
  split
  · rcases h with ⟨l, s, hk⟩ | h
    · left
      refine ⟨l, s, ?_⟩
      by_cases e : l0 = l
      · subst e
        rw [World.leaf_modLeaf_self]
        cases hl : w.leaves[l0]? with
        | none => simp [World.leaf, hl] at hk
        | some x => simp only; simp [World.leaf, hl] at hk; exact hk
      · rw [pleaf_modLeaf_ne w l0 _ l e]; exact hk
    · exact Or.inr (rd_modLeaf _ _ h)
  · exact take_wake_stale w l0 _ (fun _ => rfl) c tid hal hin h

theorem resolveReq_stale (r : Resolve) (v : Val) (w : World) (c tid : Nat) (hal : (w.cmd c).alive = true)
    (hin : c < w.cmds.length) (h : StaleW c tid w ∨ RD c tid w) :
    StaleW c tid (resolveReq r v w).2.2 ∨ RD c tid (resolveReq r v w).2.2 := by
  have h2 : ∀ l, _ := fun l => take_wake_stale w l (fun lf => { lf with queue := lf.queue ++ [v], waker := none }) (fun _ => rfl) c tid hal hin h
  have al2 : ∀ l, ((match (w.leaf l).waker with
      | some wk => (w.modLeaf l fun lf => { lf with queue := lf.queue ++ [v], waker := none }).wake wk
      | none => w.modLeaf l fun lf => { lf with queue := lf.queue ++ [v], waker := none }).cmd c).alive = true ∧
      c < (match (w.leaf l).waker with
      | some wk => (w.modLeaf l fun lf => { lf with queue := lf.queue ++ [v], waker := none }).wake wk
      | none => w.modLeaf l fun lf => { lf with queue := lf.queue ++ [v], waker := none }).cmds.length := by
    intro l
    split
    · have := alive_wake (w.modLeaf l fun lf => { lf with queue := lf.queue ++ [v], waker := none }) ‹Waker› c
      exact ⟨by rw [this.1]; exact hal, by rw [this.2]; exact hin⟩
    · exact ⟨hal, hin⟩
  unfold resolveReq
  cases r with
  | never => exact h
  | gone => exact h
  | once l =>
    simp only
    split
    · exact dropSender_stale _ l c tid (al2 l).1 (al2 l).2 (h2 l)
    · exact dropSender_stale _ l c tid hal hin h
  | many l =>
    simp only
    split
    · exact h2 l
    · exact h

theorem dropReq_stale (r : Resolve) (w : World) (c tid : Nat) (hal : (w.cmd c).alive = true) (hin : c < w.cmds.length)
    (h : StaleW c tid w ∨ RD c tid w) : StaleW c tid (dropReq r w).2 ∨ RD c tid (dropReq r w).2 := by
  unfold dropReq
  cases r with
  | never => exact h
  | gone => exact h
  | once l => exact dropSender_stale w l c tid hal hin h
  | many l => exact dropSender_stale w l c tid hal hin h


/-! ### stored tasks stay simpleS; spawned tasks reference no channel -/

structure SPS (c : Nat) (w : World) : Prop where
  t : ∀ t ∈ (w.cmd c).tasks.values, simpleSB t.fut = true
  s : ∀ t ∈ (w.cmd c).spawnQ, simpleSB t.fut = true ∧ refsB t.fut = []

theorem SPS.tk {c : Nat} {w w' : World} (h : SPS c w) (f : SKS w w') : SPS c w' :=
  ⟨fun t ht => h.t t (by rw [← f.tasks c]; exact ht), fun t ht => (f.spawn c t ht).elim (h.s t) id⟩
theorem SPS.tk0 {c : Nat} {w w' : World} (h : SPS c w) (f : TK0 w w') : SPS c w' := h.tk (f.imp (fun _ _ x => x.elim))

theorem SPS.modCmd {c : Nat} {w : World} (h : SPS c w) (g : CmdSt → CmdSt)
    (hgt : ∀ x, ∀ t ∈ (g x).tasks.values, t ∈ x.tasks.values ∨ simpleSB t.fut = true)
    (hgs : ∀ x, ∀ t ∈ (g x).spawnQ, t ∈ x.spawnQ) : SPS c (w.modCmd c g) := by
  refine ⟨?_, ?_⟩
  · intro t ht
    rw [World.cmd_modCmd_self] at ht
    cases hc : w.cmds[c]? with
    | none => simp [hc, Slab.values] at ht
    | some x =>
      simp only [hc] at ht
      rcases hgt x t ht with hm | hm
      · exact h.t t (by simp only [World.cmd, hc]; exact hm)
      · exact hm
  · intro t ht
    rw [World.cmd_modCmd_self] at ht
    cases hc : w.cmds[c]? with
    | none => simp [hc] at ht
    | some x =>
      simp only [hc] at ht
      exact h.s t (by simp only [World.cmd, hc]; exact hgs x t ht)

theorem runTaskF_sps (pn) (f : Nat) (c tid : Nat) (w : World) (st : TaskState) (w' : World)
    (h : runTaskF (pollBlock pn f) c tid w = some (st, w')) (hw : HFc c w) (hs : SPS c w) : SPS c w' := by
  unfold runTaskF at h
  split at h
  · simp only [Option.some.injEq, Prod.mk.injEq] at h; obtain ⟨_, rfl⟩ := h; exact hs
  · rename_i t hg
    have htf : hostFreeB t.fut = true := hw.t t (Slab.mem_values_of_get _ _ _ hg)
    have hts : simpleSB t.fut = true := hs.t t (Slab.mem_values_of_get _ _ _ hg)
    split at h
    · simp only [Option.some.injEq, Prod.mk.injEq] at h; obtain ⟨_, rfl⟩ := h; exact hs
    · dsimp only at h
      have h0 : SPS c ({ w with nextSerial := w.nextSerial + 1 } : World) := hs.tk0 (tk_of_cmds rfl)
      split at h
      · cases h
      · rename_i env1 w1 hpoll
        simp only [Option.some.injEq, Prod.mk.injEq] at h
        obtain ⟨_, rfl⟩ := h
        exact h0.tk (pollBlock_ssgood pn _ f _ _ _ _ _ _ hpoll htf hts (TKp.refl _)).1
      · rename_i b w1 hpoll
        have pg := pollBlock_ssgood pn _ f _ _ _ _ _ _ hpoll htf hts (TKp.refl _)
        have h1 : SPS c w1 := h0.tk pg.1
        have hb : simpleSB b = true := pg.2
        have h2 : SPS c (w1.modCmd c fun x => { x with tasks := x.tasks.set tid { t with fut := b } }) := by
          refine h1.modCmd _ ?_ ?_
          · intro x t' ht'
            rcases Slab.mem_values_set _ _ _ _ ht' with rfl | hm
            · exact Or.inr hb
            · exact Or.inl hm
          · intro x t' ht'; exact ht'
        split at h
        · simp only [Option.some.injEq, Prod.mk.injEq] at h; obtain ⟨_, rfl⟩ := h; exact h2.tk0 (tk_of_cmds rfl)
        · simp only [Option.some.injEq, Prod.mk.injEq] at h; obtain ⟨_, rfl⟩ := h; exact h2.tk0 (tk_of_cmds rfl)

theorem runTaskF_nas (pn) (f : Nat) (c tid : Nat) (w : World) (st : TaskState) (w' : World)
    (h : runTaskF (pollBlock pn f) c tid w = some (st, w')) (hw : HFc c w) (hs : SPS c w) (hq : NAb w) : NAb w' := by
  unfold runTaskF at h
  split at h
  · simp only [Option.some.injEq, Prod.mk.injEq] at h; obtain ⟨_, rfl⟩ := h; exact hq
  · rename_i t hg
    have htf : hostFreeB t.fut = true := hw.t t (Slab.mem_values_of_get _ _ _ hg)
    have hts : simpleSB t.fut = true := hs.t t (Slab.mem_values_of_get _ _ _ hg)
    split at h
    · simp only [Option.some.injEq, Prod.mk.injEq] at h; obtain ⟨_, rfl⟩ := h; exact hq
    · dsimp only at h
      have q0 : NAb ({ w with nextSerial := w.nextSerial + 1 } : World) := hq.of_same rfl rfl
      split at h
      · cases h
      · rename_i env1 w1 hpoll
        simp only [Option.some.injEq, Prod.mk.injEq] at h
        obtain ⟨_, rfl⟩ := h
        exact pollBlock_nasgood pn f _ _ _ _ _ _ hpoll htf hts q0
      · rename_i b w1 hpoll
        have q1 : NAb w1 := pollBlock_nasgood pn f _ _ _ _ _ _ hpoll htf hts q0
        split at h
        · simp only [Option.some.injEq, Prod.mk.injEq] at h; obtain ⟨_, rfl⟩ := h; exact q1.of_same rfl rfl
        · simp only [Option.some.injEq, Prod.mk.injEq] at h; obtain ⟨_, rfl⟩ := h; exact q1.of_same rfl rfl

theorem finishTask_sps (c tid : Nat) (w : World) (hw : HFc c w) (hs : SPS c w) : SPS c (finishTask c tid w) := by
  unfold finishTask
  simp only
  split
  · exact hs
  · rename_i t tasks hr
    have htm : t ∈ (w.cmd c).tasks.values := by
      have : (w.cmd c).tasks.get? tid = some t := by
        cases hg : (w.cmd c).tasks.get? tid with
        | none => rw [Slab.remove_none _ _ hg] at hr; cases hr
        | some t' =>
          have := (Slab.remove_get _ _ _ hg).1
          rw [hr] at this; simp only [Option.some.injEq] at this; rw [this]
      exact Slab.mem_values_of_get _ _ _ this
    have htf := hw.t t htm
    have hT : tasks = ((w.cmd c).tasks.remove tid).2 := by rw [hr]
    have h1 : SPS c (w.modCmd c fun x => { x with tasks := tasks }) := by
      refine hs.modCmd _ ?_ ?_
      · intro x t' ht'
        have : t' ∈ (w.cmd c).tasks.values := by
          simp only at ht'; rw [hT] at ht'; exact Slab.mem_values_remove _ _ _ ht'
        exact Or.inr (hs.t t' this)
      · intro x t' ht'; exact ht'
    generalize (w.modCmd c fun x => { x with tasks := tasks }) = w1 at h1 ⊢
    have h2 : SPS c (w1.modMeta t.serial fun m => { m with finished := true, joinWakers := [] }) := h1.tk0 (tk_of_cmds rfl)
    generalize (w1.modMeta t.serial fun m => { m with finished := true, joinWakers := [] }) = w2 at h2 ⊢
    have h3 : SPS c (w2.wakeAll (w1.getMeta t.serial).joinWakers) := h2.tk0 (tk0_wakeAll _ w2)
    unfold World.dropTask M.Rt.dropTask
    simp only
    have h4 : SPS c ((w2.wakeAll (w1.getMeta t.serial).joinWakers).modMeta t.serial fun m => { m with taskAlive := false, joinWakers := [] }) :=
      h3.tk0 (tk_of_cmds rfl)
    exact h4.tk0 (tk_World_dropBlock _ t.fut htf)

theorem spawnNewTasks_sps (c : Nat) (w : World) (hs : SPS c w) : SPS c (spawnNewTasks c w) := by
  unfold spawnNewTasks
  have h0 : SPS c (w.modCmd c fun x => { x with spawnQ := [] }) := by
    refine hs.modCmd _ ?_ ?_
    · intro x t' ht'; exact Or.inl ht'
    · intro x t' ht'; cases ht'
  have hP : ∀ (l : List Task) (W : World), (∀ t ∈ l, simpleSB t.fut = true) → SPS c W →
      SPS c (l.foldl (fun w t => w.modCmd c fun x => { x with tasks := (x.tasks.insert t).2, ready := x.ready ++ [(x.tasks.insert t).1] }) W) := by
    intro l
    induction l with
    | nil => intro W _ h; exact h
    | cons t l ih =>
      intro W hl h
      simp only [List.foldl_cons]
      refine ih _ (fun x hx => hl x (by simp [hx])) ?_
      refine h.modCmd _ ?_ ?_
      · intro x t' ht'
        rcases Slab.mem_values_insert _ _ _ ht' with rfl | hm
        · exact Or.inr (hl _ (by simp))
        · exact Or.inl hm
      · intro x t' ht'; exact ht'
  exact hP (w.cmd c).spawnQ _ (fun t ht => (hs.s t ht).1) h0

theorem spawnNewTasks_wown (c : Nat) (w : World) (hin : c < w.cmds.length) (hs : SPS c w) (hwo : WOwn c w) :
    WOwn c (spawnNewTasks c w) := by
  intro tid t hg l hl c' t' s' hk
  rw [pleaf_of_leaves (spawnNewTasks_leaves c w)] at hk
  rcases spawnNewTasks_get c w hin tid t hg with ⟨h1, _⟩ | ⟨h1, _⟩
  · exact hwo tid t h1 l hl c' t' s' hk
  · rw [(hs.s t h1).2] at hl; cases hl

theorem spawnNewTasks_nds (c : Nat) (w : World) (hin : c < w.cmds.length) (hn : NDS c none w) : NDS c none (spawnNewTasks c w) := by
  intro tid t hg hne hd
  rcases spawnNewTasks_get c w hin tid t hg with ⟨h1, h2⟩ | ⟨_, h2⟩
  · rcases hn tid t h1 hne hd with h3 | ⟨l, s0, h3⟩
    · exact Or.inl (h2 h3)
    · exact Or.inr ⟨l, s0, by rw [pleaf_of_leaves (spawnNewTasks_leaves c w)]; exact h3⟩
  · exact Or.inl h2


/-! ### the bundle through the executor loop -/

structure CS (c : Nat) (w : World) : Prop where
  sok : SOk w
  wfw : WFw w
  own : Own c w
  alive : (w.cmd c).alive = true
  inr : c < w.cmds.length
  sp : SPS c w
  na : NAb w
  wo : WOwn c w
  nd : NDS c none w

theorem drainReady_cs (c : Nat) : ∀ (f : Nat) (w w' : World), drainReady runTask f c w = some w' → CS c w → CS c w' := by
  intro f
  induction f with
  | zero => intro w w' h; simp [drainReady] at h
  | succ f ih =>
    intro w w' h hw
    unfold drainReady at h
    split at h
    · simp only [Option.some.injEq] at h; subst h; exact hw
    · rename_i tid rest hrd
      generalize hw0 : (w.modCmd c fun x => { x with ready := rest }) = w0 at h
      have e0t : (w0.cmd c).tasks = (w.cmd c).tasks := by subst hw0; refine cmd_modCmd_keep (·.tasks) w c _ ?_; intro _; rfl
      obtain ⟨x0, hx0⟩ : ∃ x, w.cmds[c]? = some x := ⟨_, List.getElem?_eq_getElem hw.inr⟩
      have e0r : (w0.cmd c).ready = rest := by subst hw0; rw [World.cmd_modCmd_self]; simp [hx0]
      have sok0 : SOk w0 := by
        subst hw0
        have hsk : SOkN w.nextSerial (w.modCmd c fun x => { x with ready := rest }) := by
          refine SOkN.modCmd hw.sok c _ ?_; intro _ hx; exact hx
        exact (SOk.step (w1 := w.modCmd c fun x => { x with ready := rest }) hw.sok rfl hsk).1
      have wf0 : WFw w0 := by subst hw0; exact hw.wfw.modCmd_gen c _ (fun _ _ h => Or.inl h) (fun _ _ h => Or.inl h)
      have own0 : Own c w0 := by subst hw0; exact hw.own.frame (fr_modCmd c w c _ (fun _ => rfl) (fun _ => rfl))
      have al0 : (w0.cmd c).alive = true := by
        subst hw0
        rw [show ((w.modCmd c fun x => { x with ready := rest }).cmd c).alive = (w.cmd c).alive from by
          refine cmd_modCmd_keep (·.alive) w c _ ?_; intro _; rfl]; exact hw.alive
      have in0 : c < w0.cmds.length := by subst hw0; simp only [World.modCmd, modifyNth_length]; exact hw.inr
      have sp0 : SPS c w0 := by subst hw0; exact hw.sp.modCmd _ (fun _ _ h => Or.inl h) (fun _ _ h => h)
      have na0 : NAb w0 := by subst hw0; exact nab_modCmd _ _ hw.na
      have wo0 : WOwn c w0 := by
        intro tid' t' hg' l hl c' t'' s' hk
        rw [e0t] at hg'
        subst hw0
        exact hw.wo tid' t' hg' l hl c' t'' s' hk
      have nd0 : NDS c (some tid) w0 := by
        intro tid' t' hg' hne hd
        rw [e0t] at hg'
        have hne' : tid' ≠ tid := fun e => hne (by rw [e])
        rcases hw.nd tid' t' hg' (fun e => by cases e) hd with h1 | ⟨l, s0, h1⟩
        · left
          rw [hrd] at h1
          simp only [List.mem_cons] at h1
          rw [e0r]
          rcases h1 with h1 | h1
          · exact absurd h1 hne'
          · exact h1
        · right; subst hw0; exact ⟨l, s0, h1⟩
      have after : ∀ (st : TaskState) (w1 : World), runTask c tid w0 = some (st, w1) →
          SOk w1 ∧ WFw w1 ∧ (w1.cmd c).alive = true ∧ c < w1.cmds.length ∧ SPS c w1 ∧ NAb w1 ∧ WOwn c w1 ∧ NDS c (some tid) w1 ∧
          RunPost c tid st w1 := by
        intro st w1 hrt
        have hrt' : runTaskF (pollBlock (pollNextF (runUntilSettledF (runTaskF (pollAt 63)))) loopFuel) c tid w0 = some (st, w1) := by
          rw [← runTask_eq]; exact hrt
        have q := runTaskF_q _ _ c tid w0 st w1 hrt' own0.hfc
        exact ⟨(runTask_ok c tid w0 st w1 hrt sok0).1, (runTask_w c tid w0 st w1 hrt wf0).1, by rw [q.1.alive c]; exact al0,
          by rw [q.1.len]; exact in0, runTaskF_sps _ _ c tid w0 st w1 hrt' own0.hfc sp0,
          runTaskF_nas _ _ c tid w0 st w1 hrt' own0.hfc sp0 na0, runTaskF_wown _ _ c tid w0 st w1 hrt' own0 wf0 in0 wo0,
          runTaskF_nds_others _ _ c tid w0 st w1 hrt' own0 wf0 in0 wo0 nd0, runTaskF_own _ _ c tid w0 st w1 hrt' own0⟩
      have fin : ∀ (st : TaskState) (w1 : World), runTask c tid w0 = some (st, w1) → Own c (finishTask c tid w1) →
          HFc c w1 → CS c (finishTask c tid w1) := by
        intro st w1 hrt hown hfc
        obtain ⟨a1, a2, a3, a4, a5, a6, a7, a8, _⟩ := after st w1 hrt
        have q := finishTask_q c tid w1 hfc
        exact ⟨(finishTask_keeps c tid w1 a1).1, (finishTask_w c tid w1 a2).1, hown, by rw [q.1.alive c]; exact a3,
          by rw [q.1.len]; exact a4, finishTask_sps c tid w1 hfc a5, finishTask_na c tid w1 hfc a6,
          finishTask_wown c tid w1 hfc a4 a7, finishTask_nds c tid w1 hfc a4 a8⟩
      simp only at h
      split at h
      · cases h
      · rename_i w1 hrt
        obtain ⟨a1, a2, a3, a4, a5, a6, a7, a8, a9⟩ := after _ w1 hrt
        refine ih w1 w' h ⟨a1, a2, a9, a3, a4, a5, a6, a7, ?_⟩
        intro tid' t' hg' _ hd
        by_cases e : tid' = tid
        · subst e
          have := runTaskF_missing_gone _ c tid' w0 w1 (by rw [← runTask_eq]; exact hrt)
          rw [this] at hg'; cases hg'
        · exact a8 tid' t' hg' (fun e' => e (Option.some.inj e')) hd
      · rename_i w1 hrt
        obtain ⟨a1, a2, a3, a4, a5, a6, a7, a8, a9⟩ := after _ w1 hrt
        refine ih w1 w' h ⟨a1, a2, a9, a3, a4, a5, a6, a7, ?_⟩
        intro tid' t' hg' _ hd
        by_cases e : tid' = tid
        · subst e
          exact runTaskF_dead_stale _ _ c tid' w0 w1 (by rw [← runTask_eq]; exact hrt) own0.hfc sp0.t sok0 al0 in0 t' hg' hd
        · exact a8 tid' t' hg' (fun e' => e (Option.some.inj e')) hd
      · rename_i w1 hrt
        obtain ⟨_, _, _, _, _, _, _, _, a9⟩ := after _ w1 hrt
        obtain ⟨t, hst⟩ := a9
        exact ih _ w' h (fin _ w1 hrt (finishTask_own_stale c tid w1 t hst) ⟨hst.hft, hst.hfs⟩)
      · rename_i w1 hrt
        obtain ⟨_, _, _, _, _, _, _, _, a9⟩ := after _ w1 hrt
        exact ih _ w' h (fin _ w1 hrt (finishTask_own c tid w1 a9) a9.hfc)

theorem settleLoop_cs (c : Nat) : ∀ (f : Nat) (w w' : World), settleLoop runTask f c w = some w' → CS c w → CS c w' := by
  intro f
  induction f with
  | zero => intro w w' h; simp [settleLoop] at h
  | succ f ih =>
    intro w w' h hw
    unfold settleLoop at h
    simp only at h
    have q := spawnNewTasks_q c w hw.own.hfc
    have k0 : CS c (spawnNewTasks c w) :=
      ⟨(spawnNewTasks_keeps c w hw.sok).1, (spawnNewTasks_w c w hw.wfw).1, spawnNewTasks_own c w hw.own,
        by rw [q.1.alive c]; exact hw.alive, by rw [q.1.len]; exact hw.inr, spawnNewTasks_sps c w hw.sp,
        spawnNewTasks_na c w hw.na, spawnNewTasks_wown c w hw.inr hw.sp hw.wo, spawnNewTasks_nds c w hw.inr hw.nd⟩
    split at h
    · simp only [Option.some.injEq] at h; subst h; exact k0
    · split at h
      · cases h
      · rename_i w1 hd
        exact ih w1 w' h (drainReady_cs c _ _ w1 hd k0)

theorem runUntilSettled_cs (c : Nat) (w w' : World) (h : runUntilSettled c w = some w') (hw : CS c w) : CS c w' := by
  unfold runUntilSettled runUntilSettledF at h
  split at h
  · rename_i hab
    unfold World.aborted at hab
    rw [hw.na.getMeta] at hab
    cases hab
  · exact settleLoop_cs c _ w w' h hw

theorem CS.modCmd_out {c : Nat} {w : World} (h : CS c w) (f : CmdSt → CmdSt) (ht : ∀ x, (f x).tasks = x.tasks)
    (hs : ∀ x, (f x).spawnQ = x.spawnQ) (hr : ∀ x, (f x).ready = x.ready) (ha : ∀ x, (f x).alive = x.alive)
    (hwk : ∀ x, (f x).waker = x.waker) : CS c (w.modCmd c f) := by
  have et : ((w.modCmd c f).cmd c).tasks = (w.cmd c).tasks := cmd_modCmd_keep (·.tasks) w c f ht
  have er : ((w.modCmd c f).cmd c).ready = (w.cmd c).ready := cmd_modCmd_keep (·.ready) w c f hr
  have hsk : SOkN w.nextSerial (w.modCmd c f) := h.sok.modCmd c f (fun x hx => by rw [hwk]; exact hx)
  refine ⟨(SOk.step (w1 := w.modCmd c f) h.sok rfl hsk).1,
    h.wfw.modCmd_gen c f (fun x t hx => Or.inl (by rw [ht] at hx; exact hx)) (fun x t hx => Or.inl (by rw [hs] at hx; exact hx)),
    h.own.frame (fr_modCmd c w c f ht hs), by rw [cmd_modCmd_keep (·.alive) w c f ha]; exact h.alive,
    by simp only [World.modCmd, modifyNth_length]; exact h.inr,
    h.sp.modCmd _ (fun x t hx => Or.inl (by rw [ht] at hx; exact hx)) (fun x t hx => by rw [hs] at hx; exact hx),
    nab_modCmd _ _ h.na, ?_, ?_⟩
  · intro tid t hg l hl c' t' s' hk
    rw [et] at hg
    exact h.wo tid t hg l hl c' t' s' hk
  · intro tid t hg hne hd
    rw [et] at hg; rw [er]
    rcases h.nd tid t hg hne hd with h1 | ⟨l, s0, h1⟩
    · exact Or.inl h1
    · exact Or.inr ⟨l, s0, h1⟩

theorem takeEffects_cs (c : Nat) (w : World) (es : List Eff) (w' : World) (h : takeEffects c w = some (es, w'))
    (hw : CS c w) : CS c w' := by
  unfold takeEffects at h
  split at h
  · cases h
  · rename_i w1 hs
    simp only [Option.some.injEq, Prod.mk.injEq] at h
    obtain ⟨_, rfl⟩ := h
    exact (runUntilSettled_cs c w w1 hs hw).modCmd_out _ (fun _ => rfl) (fun _ => rfl) (fun _ => rfl) (fun _ => rfl) (fun _ => rfl)

theorem takeEvents_cs (c : Nat) (w : World) (es : List Ev) (w' : World) (h : takeEvents c w = some (es, w'))
    (hw : CS c w) : CS c w' := by
  unfold takeEvents at h
  split at h
  · cases h
  · rename_i w1 hs
    simp only [Option.some.injEq, Prod.mk.injEq] at h
    obtain ⟨_, rfl⟩ := h
    exact (runUntilSettled_cs c w w1 hs hw).modCmd_out _ (fun _ => rfl) (fun _ => rfl) (fun _ => rfl) (fun _ => rfl) (fun _ => rfl)

theorem isDone_cs (c : Nat) (w : World) (d : Bool) (w' : World) (h : isDone c w = some (d, w')) (hw : CS c w) : CS c w' := by
  unfold isDone at h
  split at h
  · cases h
  · rename_i w1 hs
    simp only [Option.some.injEq, Prod.mk.injEq] at h
    obtain ⟨_, rfl⟩ := h
    exact runUntilSettled_cs c w w1 hs hw

/-- a step of the shell: slabs and spawn queues untouched, wakers only taken, a taken waker woken -/
theorem CS.shell {c : Nat} {w w' : World} (h : CS c w) (sk : SOk w') (q : QS none w w') (tk : TK0 w w') (fr : Fr c w w')
    (hl : LL w' = LL w) (ws : WSub w w') (st : ∀ tid, StaleW c tid w ∨ RD c tid w → StaleW c tid w' ∨ RD c tid w')
    (na : NAb w') : CS c w' := by
  refine ⟨sk, h.wfw.tk0_eq tk hl, h.own.frame fr, by rw [q.alive c]; exact h.alive, by rw [q.len]; exact h.inr, h.sp.tk0 tk, na, ?_, ?_⟩
  · intro tid t hg l hl' c' t' s' hk
    rw [tk.tasks c] at hg
    exact h.wo tid t hg l hl' c' t' s' (ws l _ hk)
  · intro tid t hg hne hd
    rw [tk.tasks c] at hg
    rcases h.nd tid t hg hne hd with h1 | h1
    · exact (st tid (Or.inr h1)).symm
    · exact (st tid (Or.inl h1)).symm

end M.Rt

namespace M.Hosts
open M.Rt

theorem Direct.observe_cs (res : String) (d : Direct) (o : Obs) (d' : Direct) (h : d.observe res = some (o, d'))
    (hw : CS d.cid d.w) : CS d'.cid d'.w ∧ (d'.w.cmd d'.cid).ready = [] := by
  unfold Direct.observe at h
  cases h1 : takeEffects d.cid d.w with
  | none => simp [h1] at h
  | some p1 =>
    obtain ⟨effs, w1⟩ := p1
    have k1 := takeEffects_cs _ _ _ _ h1 hw
    cases h2 : takeEvents d.cid w1 with
    | none => simp [h1, h2] at h
    | some p2 =>
      obtain ⟨evs, w2⟩ := p2
      have k2 := takeEvents_cs _ _ _ _ h2 k1
      cases h3 : isDone d.cid w2 with
      | none => simp [h1, h2, h3] at h
      | some p3 =>
        obtain ⟨dn, w3⟩ := p3
        have k3 := isDone_cs _ _ _ _ h3 k2
        have r3 := isDone_ready _ _ _ _ h3 k2.na
        simp [h1, h2, h3] at h
        obtain ⟨_, rfl⟩ := h
        exact ⟨k3, r3⟩

theorem Direct.step_obs_cs (d : Direct) (a : Action) (o : Obs) (d' : Direct) (h : d.step a = some (o, d'))
    (hw : CS d.cid d.w) : ∃ res d0, CS (Direct.cid d0) (Direct.w d0) ∧ Direct.observe res d0 = some (o, d') := by
  unfold Direct.step at h
  cases a with
  | res k v =>
    simp only at h
    split at h
    · exact ⟨_, _, hw, h⟩
    · rename_i reqs res w1 hr
      unfold shellResolve at hr
      split at hr
      · cases hr
      · rename_i e _
        simp only [Option.some.injEq, Prod.mk.injEq] at hr
        obtain ⟨_, _, rfl⟩ := hr
        refine ⟨_, _, ?_, h⟩
        exact hw.shell (resolveReq_keeps e.res v d.w hw.sok).1 (resolveReq_qs none e.res v d.w) (tk0_resolveReq e.res v d.w)
          (fr_resolveReq d.cid e.res v d.w) (LL_resolveReq e.res v d.w) (wsub_resolveReq e.res v d.w)
          (fun tid hx => resolveReq_stale e.res v d.w d.cid tid hw.alive hw.inr hx) (nab_resolveReq e.res v d.w hw.na)
  | drop k =>
    simp only at h
    split at h
    · exact ⟨_, _, hw, h⟩
    · rename_i reqs w1 hr
      unfold shellDrop at hr
      split at hr
      · cases hr
      · rename_i e _
        simp only [Option.some.injEq, Prod.mk.injEq] at hr
        obtain ⟨_, rfl⟩ := hr
        refine ⟨_, _, ?_, h⟩
        exact hw.shell (dropReq_keeps e.res d.w hw.sok).1 (dropReq_qs none e.res d.w) (tk0_dropReq e.res d.w)
          (fr_dropReq d.cid e.res d.w) (LL_dropReq e.res d.w) (wsub_dropReq e.res d.w)
          (fun tid hx => dropReq_stale e.res d.w d.cid tid hw.alive hw.inr hx) (nab_dropReq e.res d.w hw.na)
  | abort n =>
    simp only at h
    refine ⟨_, _, ?_, h⟩
    show CS d.cid (doAbort n d.w)
    unfold doAbort
    split
    · rename_i hfind
      rw [hw.na.2] at hfind
      simp at hfind
    · exact hw
  | poll => exact ⟨_, _, hw, h⟩
  | ev _ _ => simp at h
  | rawRes _ _ _ => simp at h
  | rawEv _ _ => simp at h

theorem Direct.step_csr (d : Direct) (a : Action) (o : Obs) (d' : Direct) (h : d.step a = some (o, d'))
    (hw : CS d.cid d.w ∧ (d.w.cmd d.cid).ready = []) : CS d'.cid d'.w ∧ (d'.w.cmd d'.cid).ready = [] := by
  obtain ⟨res, d0, h0, ho⟩ := Direct.step_obs_cs d a o d' h hw.1
  exact Direct.observe_cs _ _ _ _ ho h0

theorem CS_init (is : List Instr) (hf : hostFreeIs is = true) (hs : simpleSIs is = true) (canon : Bool) :
    CS (Direct.new (.task is) canon).cid (Direct.new (.task is) canon).w := by
  have g := GInv_init is hf canon
  have hone : ∀ tid t, ((Direct.new (.task is) canon).w.cmd (Direct.new (.task is) canon).cid).tasks.get? tid = some t →
      t.fut = .mk {} .idle is := by
    intro tid t hg
    unfold Direct.new at hg
    simp only [instantiate, newCmd, World.newMeta, World.cmd, List.nil_append, List.length_nil, List.getElem?_cons_zero,
      Option.getD_some] at hg
    have : tid = 0 := by
      simp only [Slab.insert, Slab.empty, Slab.get?] at hg
      by_cases e : tid = 0
      · exact e
      · rw [List.getElem?_eq_none (by simp; omega)] at hg; simp at hg
    subst this
    simp [Slab.insert, Slab.empty, Slab.get?] at hg
    subst hg
    rfl
  refine ⟨g.ctx.sok, g.ctx.wfw, g.ctx.own, g.ctx.alive, g.ctx.inr, ?_, ?_, ?_, ?_⟩
  · constructor
    · intro t ht
      unfold Direct.new at ht
      simp [instantiate, newCmd, World.newMeta, World.cmd, Slab.insert, Slab.empty, Slab.values] at ht
      subst ht
      simp [simpleSB, simpleSP, hs]
    · intro t ht
      unfold Direct.new at ht
      simp [instantiate, newCmd, World.newMeta, World.cmd] at ht
  · constructor
    · intro m hm
      unfold Direct.new at hm
      simp [instantiate, newCmd, World.newMeta] at hm
      subst hm; rfl
    · unfold Direct.new
      simp [instantiate, newCmd, World.newMeta]
  · intro tid t hg l hl
    rw [hone tid t hg] at hl
    simp [refsB, refsP] at hl
  · intro tid t hg _ hd
    rw [hone tid t hg] at hd
    simp [deadOnlyB, deadOnlyP] at hd

/-- the completeness invariants (with select) and the empty ready queue over whole runs of the direct host -/
theorem runDirect_cs (is : List Instr) (hf : hostFreeIs is = true) (hs : simpleSIs is = true) (canon : Bool)
    (acts : List Action) (os : List Obs) (d : Direct) (h : runDirect (.task is) canon acts = some (os, d)) :
    CS d.cid d.w ∧ (d.w.cmd d.cid).ready = [] := by
  unfold runDirect at h
  have h0 := CS_init is hf hs canon
  cases h1 : (Direct.new (.task is) canon).observe "-" with
  | none => simp [h1] at h
  | some p1 =>
    obtain ⟨o, d1⟩ := p1
    have k1 := Direct.observe_cs _ _ _ _ h1 h0
    cases h2 : runSteps Direct.step d1 acts with
    | none => simp [h1, h2] at h
    | some p2 =>
      obtain ⟨os2, d2⟩ := p2
      simp [h1, h2] at h
      obtain ⟨_, rfl⟩ := h
      exact runSteps_inv Direct.step (fun d => CS d.cid d.w ∧ (d.w.cmd d.cid).ready = []) Direct.step_csr acts d1 os2 _ h2 k1

end M.Hosts

namespace M.Rt

/-- a simpleS block that waits at no request or stream the shell could answer waits only at closed requests -/
theorem deadOnly_of_goneOnly_s : ∀ (b : Block), simpleSB b = true → goneOnlyB b = true → deadOnlyB b = true := by
  have key : ∀ n (b : Block), sizeOf b ≤ n → simpleSB b = true → goneOnlyB b = true → deadOnlyB b = true := by
    intro n
    induction n with
    | zero => intro b hb; cases b; simp at hb
    | succ n ih =>
      intro b hb hs hg
      obtain ⟨env, cur, rest⟩ := b
      simp only [Block.mk.sizeOf_spec] at hb
      simp only [simpleSB, Bool.and_eq_true] at hs
      simp only [goneOnlyB] at hg
      simp only [deadOnlyB]
      cases cur with
      | idle => simp [goneOnlyP] at hg
      | reqDead => simp [deadOnlyP]
      | await s => simp [simpleSP] at hs
      | selfwake s => simp [goneOnlyP] at hg
      | req x l => simp [goneOnlyP] at hg
      | streamWait x l c lim body => simp [goneOnlyP] at hg
      | streamBody x l c lim body inner =>
        simp only [simpleSP, Bool.and_eq_true] at hs
        simp only [goneOnlyP] at hg
        simp only [deadOnlyP]
        simp only [Pend.streamBody.sizeOf_spec] at hb
        exact ih inner (by omega) hs.1.2 hg
      | join a b ad bd =>
        simp only [simpleSP, Bool.and_eq_true] at hs
        simp only [goneOnlyP, Bool.and_eq_true, Bool.or_eq_true] at hg
        simp only [deadOnlyP, Bool.and_eq_true, Bool.or_eq_true]
        simp only [Pend.join.sizeOf_spec] at hb
        exact ⟨hg.1.imp id (ih a (by omega) hs.1.1), hg.2.imp id (ih b (by omega) hs.1.2)⟩
      | select a b =>
        simp only [simpleSP, Bool.and_eq_true] at hs
        simp only [goneOnlyP, Bool.and_eq_true] at hg
        simp only [deadOnlyP, Bool.and_eq_true]
        simp only [Pend.select.sizeOf_spec] at hb
        exact ⟨ih a (by omega) hs.1.1 hg.1, ih b (by omega) hs.1.2 hg.2⟩
      | host c m => simp [simpleSP] at hs
  intro b
  exact key _ b (Nat.le_refl _)

end M.Rt

namespace M.Rt

/-- a live-parked block that still waits at some request or stream has its waker registered at a channel -/
theorem live_point_of_parked (wk : Waker) (w : World) :
    ∀ (b : Block), LPB wk w b → goneOnlyB b = false → ∃ l, l < w.leaves.length ∧ (w.leaf l).waker = some wk := by
  have key : ∀ n (b : Block), sizeOf b ≤ n → LPB wk w b → goneOnlyB b = false →
      ∃ l, l < w.leaves.length ∧ (w.leaf l).waker = some wk := by
    intro n
    induction n with
    | zero => intro b hb; cases b; simp at hb
    | succ n ih =>
      intro b hb hp hg
      obtain ⟨env, cur, rest⟩ := b
      simp only [Block.mk.sizeOf_spec] at hb
      simp only [LPB] at hp
      simp only [goneOnlyB] at hg
      cases cur with
      | idle => simp [LPP] at hp
      | reqDead => simp [goneOnlyP] at hg
      | await s => simp [goneOnlyP] at hg
      | selfwake s => simp [LPP] at hp
      | host c m => simp [goneOnlyP] at hg
      | req x l => simp only [LPP] at hp; exact ⟨l, hp.1, hp.2⟩
      | streamWait x l c lim body => simp only [LPP] at hp; exact ⟨l, hp.1, hp.2⟩
      | streamBody x l c lim body inner =>
        simp only [LPP] at hp
        simp only [goneOnlyP] at hg
        simp only [Pend.streamBody.sizeOf_spec] at hb
        exact ih inner (by omega) hp hg
      | join a b ad bd =>
        simp only [LPP] at hp
        simp only [goneOnlyP, Bool.and_eq_false_iff, Bool.or_eq_false_iff] at hg
        simp only [Pend.join.sizeOf_spec] at hb
        rcases hg with ⟨h1, h2⟩ | ⟨h1, h2⟩
        · exact ih a (by omega) (hp.1 h1) h2
        · exact ih b (by omega) (hp.2 h1) h2
      | select a b =>
        simp only [LPP] at hp
        simp only [goneOnlyP, Bool.and_eq_false_iff] at hg
        simp only [Pend.select.sizeOf_spec] at hb
        rcases hg with h1 | h1
        · exact ih a (by omega) hp.1 h1
        · exact ih b (by omega) hp.2 h1
  intro b
  exact key _ b (Nat.le_refl _)

end M.Rt
