/- Freshness is preserved by dropping futures, tasks and commands (they only close channels and wake stale wakers). -/
import CruxVerif.Lemmas.FreshDefs
namespace M.Rt

theorem foldl_inv {α β : Type} (P : β → Prop) (g : β → α → β) (hg : ∀ b a, P b → P (g b a)) :
    ∀ (l : List α) (b : β), P b → P (l.foldl g b)
  | [], _, h => h
  | a :: l, b, h => foldl_inv P g hg l (g b a) (hg b a h)

mutual
theorem SOkN.dropBlock {n : Nat} (dc : Nat → World → World) (hdc : ∀ c w, SOkN n w → SOkN n (dc c w)) :
    (b : Block) → (w : World) → SOkN n w → SOkN n (dropBlock dc b w)
  | .mk env cur rest, w, h => by
    simp only [M.Rt.dropBlock]
    refine foldl_inv (SOkN n) _ ?_ rest _ (SOkN.dropPend dc hdc cur w h)
    intro w i hw
    cases i <;> first | exact hw | exact hdc _ _ hw
theorem SOkN.dropPend {n : Nat} (dc : Nat → World → World) (hdc : ∀ c w, SOkN n w → SOkN n (dc c w)) :
    (p : Pend) → (w : World) → SOkN n w → SOkN n (dropPend dc p w)
  | .idle, w, h => by simp only [M.Rt.dropPend]; exact h
  | .reqDead, w, h => by simp only [M.Rt.dropPend]; exact h
  | .await _, w, h => by simp only [M.Rt.dropPend]; exact h
  | .selfwake _, w, h => by simp only [M.Rt.dropPend]; exact h
  | .req _ l, w, h => by simp only [M.Rt.dropPend]; exact h.dropReceiver l
  | .streamWait _ l _ _ _, w, h => by simp only [M.Rt.dropPend]; exact h.dropReceiver l
  | .streamBody _ l _ _ _ inner, w, h => by
    simp only [M.Rt.dropPend]; exact (SOkN.dropBlock dc hdc inner w h).dropReceiver l
  | .join a b ad bd, w, h => by
    simp only [M.Rt.dropPend]
    cases ad <;> cases bd <;> simp only [Bool.false_eq_true, if_false, if_true]
    · exact SOkN.dropBlock dc hdc b _ (SOkN.dropBlock dc hdc a w h)
    · exact SOkN.dropBlock dc hdc a w h
    · exact SOkN.dropBlock dc hdc b w h
    · exact h
  | .select a b, w, h => by
    simp only [M.Rt.dropPend]; exact SOkN.dropBlock dc hdc b _ (SOkN.dropBlock dc hdc a w h)
  | .host c _, w, h => by simp only [M.Rt.dropPend]; exact hdc c w h
end

theorem SOkN.dropTask {n : Nat} (dc : Nat → World → World) (hdc : ∀ c w, SOkN n w → SOkN n (dc c w)) (t : Task)
    (w : World) (h : SOkN n w) : SOkN n (M.Rt.dropTask dc t w) := by
  unfold M.Rt.dropTask
  simp only
  refine SOkN.dropBlock dc hdc t.fut _ ?_
  refine h.modMeta _ _ ?_
  intro _ _ k hk; cases hk

theorem SOkN.dropEff {n : Nat} {w : World} (h : SOkN n w) (e : Eff) : SOkN n (dropEff w e) := by
  unfold M.Rt.dropEff
  split
  · exact h.dropSender _
  · exact h.dropSender _
  · exact h

theorem SOkN.dropCmdAt {n : Nat} : ∀ (f cid : Nat) (w : World), SOkN n w → SOkN n (dropCmdAt f cid w) := by
  intro f
  induction f with
  | zero => intro cid w h; exact h.anomaly _
  | succ f ih =>
    intro cid w h
    unfold M.Rt.dropCmdAt
    simp only
    split
    · exact h
    · refine foldl_inv (SOkN n) _ (fun b t hb => SOkN.dropTask _ (fun c w hw => ih c w hw) t b hb) _ _ ?_
      refine foldl_inv (SOkN n) _ (fun b t hb => SOkN.dropTask _ (fun c w hw => ih c w hw) t b hb) _ _ ?_
      split
      · refine h.modCmd cid _ ?_
        intro _ hx; exact hx
      · refine SOkN.anomaly ?_ _
        refine foldl_inv (SOkN n) M.Rt.dropEff (fun b a hb => SOkN.dropEff hb a) _ _ ?_
        refine h.modCmd cid _ ?_
        intro _ hx; exact hx

theorem SOkN.World_dropCmd {n : Nat} {w : World} (h : SOkN n w) (c : Nat) : SOkN n (w.dropCmd c) :=
  SOkN.dropCmdAt _ c w h

theorem SOkN.World_dropBlock {n : Nat} {w : World} (h : SOkN n w) (b : Block) : SOkN n (w.dropBlock b) :=
  SOkN.dropBlock _ (fun c w hw => hw.World_dropCmd c) b w h

theorem SOkN.World_dropTask {n : Nat} {w : World} (h : SOkN n w) (t : Task) : SOkN n (w.dropTask t) :=
  SOkN.dropTask _ (fun c w hw => hw.World_dropCmd c) t w h

end M.Rt
