/- `QS` through one poll of a host-free block (any sink), by one `grind` call over the definition of `pollBlock`. -/
import CruxVerif.Lemmas.QSteps
namespace M.Rt

theorem meOf_cmd (c : Nat) : meOf (.cmd c) = some c := rfl
theorem meOf_core : meOf .core = none := rfl

def addJoinWaker (wk : Waker) (m : Meta) : Meta := { m with joinWakers := m.joinWakers ++ [wk] }
theorem addJoinWaker_eq (wk : Waker) : (fun m : Meta => { m with joinWakers := m.joinWakers ++ [wk] }) = addJoinWaker wk := rfl

def addSpawn (t : Task) (x : CmdSt) : CmdSt := { x with spawnQ := x.spawnQ ++ [t] }
theorem addSpawn_eq (t : Task) : (fun x : CmdSt => { x with spawnQ := x.spawnQ ++ [t] }) = addSpawn t := rfl

section
variable {me : Option Nat} {w0 w : World}

theorem y_sinkEvent (s : Sink) (e : Ev) (h : QS (meOf s) w0 w) : QS (meOf s) w0 (w.sinkEvent s e) := h.trans (sinkEvent_qs w s e)
theorem y_sinkEffect (s : Sink) (e : Eff) (h : QS (meOf s) w0 w) : QS (meOf s) w0 (w.sinkEffect s e) := h.trans (sinkEffect_qs w s e)
theorem y_newLeaf (k : Option Waker) (lg : Bool) (h : QS me w0 w) : QS me w0 (w.newLeaf k lg).2 := h.trans (QS.newLeaf w k lg)
theorem y_newMeta (h : QS me w0 w) : QS me w0 w.newMeta.2 := h.trans (QS.newMeta w)
theorem y_modLeaf (l : Nat) (f : Leaf → Leaf) (h : QS me w0 w) : QS me w0 (w.modLeaf l f) := h.trans (QS.modLeaf w l f)
theorem y_dropReceiver (l : Nat) (h : QS me w0 w) : QS me w0 (w.dropReceiver l) := h.trans (QS.dropReceiver w l)
theorem y_wake (wk : Waker) (h : QS me w0 w) : QS me w0 (w.wake wk) := h.trans (World_wake_qs me w wk)
theorem y_abortCmd (c : Nat) (h : QS me w0 w) : QS me w0 (w.abortCmd c) := h.trans (abortCmd_qs me w c)
theorem y_dropBlock (b : Block) (hb : hostFreeB b = true) (h : QS me w0 w) : QS me w0 (w.dropBlock b) :=
  h.trans (World_dropBlock_qs me w b hb)
theorem y_abortTask (s : Nat) (h : QS me w0 w) : QS me w0 (w.modMeta s fun m => { m with aborted := true }) :=
  h.trans (QS.modMeta w s _ (fun _ _ => rfl))
theorem y_joinWaker (s : Nat) (wk : Waker) (h : QS me w0 w) : QS me w0 (w.modMeta s (addJoinWaker wk)) :=
  h.trans (QS.modMeta w s _ (fun _ hm => hm))
theorem y_execSpawn (l : List ExecTask) (h : QS me w0 w) : QS me w0 { w with execSpawn := w.execSpawn ++ l } :=
  h.trans (QS.of_fields rfl rfl (fun _ he => he) (fun _ ht => List.mem_append_left _ ht))
theorem y_spawn (c : Nat) (t : Task) (h : QS (meOf (.cmd c)) w0 w) : QS (meOf (.cmd c)) w0 (w.modCmd c (addSpawn t)) :=
  h.trans (QS.modCmd_me w c _ (fun _ => rfl) (fun _ => rfl) (fun _ => rfl))
end

def QGood (pn : Waker → Nat → World → Option (NextRes × World)) (w0 : World) (f : Nat) : Prop :=
  ∀ wk sink b w r w', pollBlock pn f wk sink b w = some (r, w') → hostFreeB b = true →
    QS (meOf sink) w0 w → QS (meOf sink) w0 w'

theorem qgood_succ (pn) (w0 : World) (f : Nat) (ih : QGood pn w0 f) : QGood pn w0 (f + 1) := by
  intro wk sink b w r w' h hf hq
  obtain ⟨env, cur, rest⟩ := b
  have hres := fun wk b w r w' h hf => (pollBlock_lgood pn f wk sink b w r w' h hf).2
  unfold pollBlock at h
  simp only [addJoinWaker_eq, addSpawn_eq] at h
  unfold QGood at ih
  grind (gen := 20) [meOf_cmd, meOf_core, y_sinkEvent, y_sinkEffect, y_newLeaf, y_newMeta, y_modLeaf, y_dropReceiver, y_wake, y_abortCmd,
    y_dropBlock, y_abortTask, y_joinWaker, y_execSpawn, y_spawn,
    hfB_eq, hfP_idle, hfP_reqDead, hfP_req, hfP_await, hfP_selfwake, hfP_streamWait,
    hfP_streamBody, hfP_join, hfP_select, hfP_host, hfIs_nil, hfIs_cons, hfI_host, hfI_stream, hfI_spawn, hfI_handoff,
    hfI_join, hfI_select, hfRes_pending]

theorem pollBlock_qgood (pn) (w0 : World) : ∀ f, QGood pn w0 f
  | 0 => by intro wk sink b w r w' h; simp [pollBlock] at h
  | f + 1 => qgood_succ pn w0 f (pollBlock_qgood pn w0 f)

/-- one poll of a host-free block is a `QS` step of its command (or of nobody, for a legacy task) -/
theorem pollBlock_qs (pn) (f : Nat) (wk : Waker) (sink : Sink) (b : Block) (w : World) (r : PollRes) (w' : World)
    (h : pollBlock pn f wk sink b w = some (r, w')) (hf : hostFreeB b = true) : QS (meOf sink) w w' :=
  pollBlock_qgood pn w f wk sink b w r w' h hf (QS.refl _ w)

end M.Rt
