/-
Helper lemmas for C14 / C15 (association-list headers, the builder fold name by name, header appending).
-/
import CruxVerif.Spec.Http
namespace Lemmas.Http
open M.Http S.Http

theorem contains_insert (h : Headers) (k n : Bytes) (vs : List Bytes) :
    (h.insert k vs).contains n = (k == n || h.contains n) := by
  unfold Headers.insert Headers.contains
  induction h with
  | nil => simp
  | cons e t ih =>
    simp only [List.filter_cons, List.any_cons]
    by_cases hek : e.1 = k
    · simp only [hek, bne_self_eq_false, Bool.false_eq_true, if_false, ih]
      by_cases hk : k = n <;> simp [hk]
    · have : (e.1 != k) = true := by simp [hek]
      simp only [this, if_true, List.cons_append, List.any_cons, ih]
      cases (e.1 == n) <;> cases (k == n) <;> simp

theorem values_insert (h : Headers) (k n : Bytes) (vs : List Bytes) :
    (h.insert k vs).values n = if k = n then vs else h.values n := by
  unfold Headers.insert Headers.values
  by_cases hk : k = n
  · subst hk
    simp [List.filter_append, List.filter_filter]
  · simp only [hk, if_false, List.filter_append, List.filter_filter]
    have : (List.filter (fun e : Bytes × List Bytes => e.1 == n) [(k, vs)]) = [] := by simp [hk]
    rw [this, List.append_nil]
    congr 1
    apply List.filter_congr
    intro e _
    by_cases he : e.1 = n <;> simp [he]
    intro h'; exact hk (h' ▸ rfl)

theorem values_of_not_contains (h : Headers) (n : Bytes) (hn : h.contains n = false) : h.values n = [] := by
  unfold Headers.contains at hn
  unfold Headers.values
  have : h.filter (fun e => e.1 == n) = [] := by
    rw [List.filter_eq_nil_iff]
    intro e he
    have := (List.any_eq_false.mp hn) e he
    simpa using this
  simp [this]

theorem values_append (h : Headers) (k n : Bytes) (vs : List Bytes) :
    (h.append k vs).values n = h.values n ++ (if k = n then vs else []) := by
  unfold Headers.append
  by_cases hc : h.contains k = true
  · simp only [hc, if_true, values_insert]
    by_cases hk : k = n
    · subst hk; simp
    · simp [hk]
  · have hc' : h.contains k = false := by simpa using hc
    simp only [hc', Bool.false_eq_true, if_false, values_insert]
    by_cases hk : k = n
    · subst hk; simp [values_of_not_contains h k hc']
    · simp [hk]

theorem contains_append (h : Headers) (k n : Bytes) (vs : List Bytes) :
    (h.append k vs).contains n = (k == n || h.contains n) := by
  unfold Headers.append
  split <;> simp [contains_insert]

/-- flattening and then selecting a name = the stored values, provided the stored names are lower-case -/
def KeysLower (h : Headers) : Prop := ∀ e ∈ h, lower e.1 = e.1

theorem valuesFor_flat (h : Headers) (hl : KeysLower h) (n : Bytes) :
    valuesFor h.flat n = h.values n := by
  unfold valuesFor Headers.flat Headers.values
  induction h with
  | nil => simp
  | cons e t ih =>
    have he : lower e.1 = e.1 := hl e (by simp)
    have ht : KeysLower t := fun x hx => hl x (by simp [hx])
    simp only [List.flatMap_cons, List.filter_append, List.map_append, ih ht, List.filter_cons]
    by_cases hen : e.1 = n
    · subst hen
      simp [List.filter_map, Function.comp_def, he]
    · simp [hen, List.filter_map, Function.comp_def, he]

theorem lowerByte_idem (c : Nat) : lowerByte (lowerByte c) = lowerByte c := by
  simp only [lowerByte]
  grind

theorem lower_idem (b : Bytes) : lower (lower b) = lower b := by
  simp [lower, lowerByte_idem]

end Lemmas.Http
