/-
Helper lemmas for C14 / C15 (association-list headers, the builder fold name by name, header appending).
-/
import CruxVerif.Spec.Http
namespace Lemmas.Http
open M.Http S.Http

theorem contains_insert (h : Headers) (k n : Bytes) (vs : List Bytes) :
    (h.insert k vs).contains n = (k == n || h.contains n) := by
  unfold Headers.insert Headers.contains
  induction h with
  | nil => simp
  | cons e t ih =>
    simp only [List.filter_cons, List.any_cons]
    by_cases hek : e.1 = k
    · simp only [hek, bne_self_eq_false, Bool.false_eq_true, if_false, ih]
      by_cases hk : k = n <;> simp [hk]
    · have : (e.1 != k) = true := by simp [hek]
      simp only [this, if_true, List.cons_append, List.any_cons, ih]
      cases (e.1 == n) <;> cases (k == n) <;> simp

theorem values_insert (h : Headers) (k n : Bytes) (vs : List Bytes) :
    (h.insert k vs).values n = if k = n then vs else h.values n := by
  unfold Headers.insert Headers.values
  by_cases hk : k = n
  · subst hk
    simp [List.filter_append, List.filter_filter]
  · simp only [hk, if_false, List.filter_append, List.filter_filter]
    have : (List.filter (fun e : Bytes × List Bytes => e.1 == n) [(k, vs)]) = [] := by simp [hk]
    rw [this, List.append_nil]
    congr 1
    apply List.filter_congr
    intro e _
    by_cases he : e.1 = n <;> simp [he]
    intro h'; exact hk (h' ▸ rfl)

theorem values_of_not_contains (h : Headers) (n : Bytes) (hn : h.contains n = false) : h.values n = [] := by
  unfold Headers.contains at hn
  unfold Headers.values
  have : h.filter (fun e => e.1 == n) = [] := by
    rw [List.filter_eq_nil_iff]
    intro e he
    have := (List.any_eq_false.mp hn) e he
    simpa using this
  simp [this]

theorem values_append (h : Headers) (k n : Bytes) (vs : List Bytes) :
    (h.append k vs).values n = h.values n ++ (if k = n then vs else []) := by
  unfold Headers.append
  by_cases hc : h.contains k = true
  · simp only [hc, if_true, values_insert]
    by_cases hk : k = n
    · subst hk; simp
    · simp [hk]
  · have hc' : h.contains k = false := by simpa using hc
    simp only [hc', Bool.false_eq_true, if_false, values_insert]
    by_cases hk : k = n
    · subst hk; simp [values_of_not_contains h k hc']
    · simp [hk]

theorem contains_append (h : Headers) (k n : Bytes) (vs : List Bytes) :
    (h.append k vs).contains n = (k == n || h.contains n) := by
  unfold Headers.append
  split <;> simp [contains_insert]

/-- flattening and then selecting a name = the stored values, provided the stored names are lower-case -/
def KeysLower (h : Headers) : Prop := ∀ e ∈ h, lower e.1 = e.1

theorem valuesFor_flat (h : Headers) (hl : KeysLower h) (n : Bytes) :
    valuesFor h.flat n = h.values n := by
  unfold valuesFor Headers.flat Headers.values
  induction h with
  | nil => simp
  | cons e t ih =>
    have he : lower e.1 = e.1 := hl e (by simp)
    have ht : KeysLower t := fun x hx => hl x (by simp [hx])
    simp only [List.flatMap_cons, List.filter_append, List.map_append, ih ht, List.filter_cons]
    by_cases hen : e.1 = n
    · subst hen
      simp [List.filter_map, Function.comp_def, he]
    · simp [hen, List.filter_map, Function.comp_def, he]

theorem lowerByte_idem (c : Nat) : lowerByte (lowerByte c) = lowerByte c := by
  simp only [lowerByte]
  grind

theorem lower_idem (b : Bytes) : lower (lower b) = lower b := by
  simp [lower, lowerByte_idem]

/-! ### C14: the builder fold, name by name -/

/-- the entry stored under `n`: `none` = no entry, `some vs` = an entry with values `vs` -/
def entry (h : Headers) (n : Bytes) : Option (List Bytes) := if h.contains n then some (h.values n) else none

theorem entry_nil (n : Bytes) : entry [] n = none := by simp [entry, Headers.contains]

theorem entry_insert (h : Headers) (k n : Bytes) (vs : List Bytes) :
    entry (h.insert k vs) n = if k = n then some vs else entry h n := by
  unfold entry
  rw [contains_insert, values_insert]
  by_cases hk : k = n <;> simp [hk]

theorem values_eq_entry (h : Headers) (n : Bytes) : h.values n = (entry h n).getD [] := by
  unfold entry
  by_cases hc : h.contains n = true
  · simp [hc]
  · have hc' : h.contains n = false := by simpa using hc
    simp [hc', values_of_not_contains h n hc']

/-- what one builder call does to the entry of header `n` -/
def stepName (n : Bytes) (st : Option (List Bytes)) (c : Call) : Option (List Bytes) :=
  match explicitFor n c with
  | some vs => some vs
  | none =>
    match bodyOf c with
    | some (k, _) => if n = ctName then (match st with | none => some [k.mime] | some x => some x) else st
    | none => st

theorem entry_copyContentType (h : Headers) (m n : Bytes) :
    entry (copyContentType h m) n =
      if n = ctName then (match entry h n with | none => some [m] | some x => some x) else entry h n := by
  unfold copyContentType
  by_cases hc : h.contains ctName = true
  · simp only [hc, if_true]
    by_cases hn : n = ctName
    · subst hn; simp [entry, hc]
    · simp [hn]
  · have hc' : h.contains ctName = false := by simpa using hc
    simp only [hc', Bool.false_eq_true, if_false, entry_insert]
    by_cases hn : n = ctName
    · subst hn; simp [entry, hc']
    · have : ¬ ctName = n := fun h => hn h.symm
      simp [hn, this]

theorem entry_applyCall (r r' : Req) (c : Call) (n : Bytes) (h : applyCall r c = some r') :
    entry r'.headers n = stepName n (entry r.headers n) c := by
  cases c with
  | header k vs =>
    simp only [applyCall] at h
    split at h
    · injection h with h; subst h
      simp only [entry_insert, stepName, explicitFor]
      by_cases hk : lower k = n <;> simp [hk, bodyOf]
    · cases h
  | contentType d =>
    simp only [applyCall] at h
    injection h with h; subst h
    simp only [entry_insert, stepName, explicitFor]
    by_cases hk : ctName = n <;> simp [hk, bodyOf]
  | body k b =>
    simp only [applyCall, setBody] at h
    injection h with h; subst h
    simp only [entry_copyContentType, stepName, explicitFor, bodyOf]
  | bodyForm ps =>
    simp only [applyCall, setBody] at h
    injection h with h; subst h
    simp only [entry_copyContentType, stepName, explicitFor, bodyOf]
  | bodyReader cs d =>
    simp only [applyCall, setBody] at h
    injection h with h; subst h
    simp only [entry_copyContentType, stepName, explicitFor, bodyOf, BodyKind.mime]
  | query u =>
    simp only [applyCall] at h
    injection h with h; subst h
    simp [stepName, explicitFor, bodyOf]


theorem keysLower_insert (h : Headers) (k : Bytes) (vs : List Bytes) (hl : KeysLower h) (hk : lower k = k) :
    KeysLower (h.insert k vs) := by
  intro e he
  unfold Headers.insert at he
  rw [List.mem_append] at he
  rcases he with he | he
  · exact hl e (List.mem_filter.mp he).1
  · simp at he; subst he; exact hk

theorem keysLower_append (h : Headers) (k : Bytes) (vs : List Bytes) (hl : KeysLower h) (hk : lower k = k) :
    KeysLower (h.append k vs) := by
  unfold Headers.append
  split <;> exact keysLower_insert _ _ _ hl hk

theorem lower_ctName : lower ctName = ctName := by decide

theorem keysLower_copyContentType (h : Headers) (m : Bytes) (hl : KeysLower h) :
    KeysLower (copyContentType h m) := by
  unfold copyContentType
  split
  · exact hl
  · exact keysLower_insert _ _ _ hl lower_ctName

theorem keysLower_applyCall (r r' : Req) (c : Call) (h : applyCall r c = some r') (hl : KeysLower r.headers) :
    KeysLower r'.headers := by
  cases c with
  | header k vs =>
    simp only [applyCall] at h
    split at h
    · injection h with h; subst h; exact keysLower_insert _ _ _ hl (lower_idem k)
    · cases h
  | contentType d =>
    simp only [applyCall] at h; injection h with h; subst h
    exact keysLower_insert _ _ _ hl lower_ctName
  | body k b =>
    simp only [applyCall, setBody] at h; injection h with h; subst h
    exact keysLower_copyContentType _ _ hl
  | bodyForm ps =>
    simp only [applyCall, setBody] at h; injection h with h; subst h
    exact keysLower_copyContentType _ _ hl
  | bodyReader cs d =>
    simp only [applyCall, setBody] at h; injection h with h; subst h
    exact keysLower_copyContentType _ _ hl
  | query u =>
    simp only [applyCall] at h; injection h with h; subst h; exact hl

/-- everything the fold does, field by field -/
theorem foldCalls_spec (cs : List Call) : ∀ (r r' : Req), foldCalls r cs = some r' →
    r'.method = r.method ∧
    r'.url = (lastQuery cs).getD r.url ∧
    r'.body = ((lastBody cs).map (·.2)).getD r.body ∧
    (lastBody cs = none → r'.len = r.len) ∧
    ((r.len = some 0 → r.body = []) → (r'.len = some 0 → r'.body = [])) ∧
    (KeysLower r.headers → KeysLower r'.headers) ∧
    ∀ n, entry r'.headers n = cs.foldl (stepName n) (entry r.headers n) := by
  induction cs with
  | nil =>
    intro r r' h
    simp only [foldCalls] at h; injection h with h; subst h
    simp [lastQuery, lastBody]
  | cons c cs ih =>
    intro r r' h
    simp only [foldCalls] at h
    cases h1 : applyCall r c with
    | none => simp [h1] at h
    | some r1 =>
      simp only [h1] at h
      obtain ⟨hm, hu, hb, hlk, hz, hk, he⟩ := ih r1 r' h
      refine ⟨?_, ?_, ?_, ?_, ?_, ?_, ?_⟩
      · rw [hm]; cases c <;> simp only [applyCall, setBody] at h1 <;> (try split at h1) <;>
          (try cases h1) <;> rfl
      · rw [hu]; simp only [lastQuery]
        cases hq : lastQuery cs with
        | some u => simp
        | none =>
          cases c <;> simp only [applyCall, setBody] at h1 <;> (try split at h1) <;>
            (try cases h1) <;> simp
      · rw [hb]; simp only [lastBody]
        cases hq : lastBody cs with
        | some u => simp
        | none =>
          cases c <;> simp only [applyCall, setBody] at h1 <;> (try split at h1) <;>
            (try cases h1) <;> simp [bodyOf]
      · intro hnone
        simp only [lastBody] at hnone
        cases hq : lastBody cs with
        | some u => simp [hq] at hnone
        | none =>
          simp only [hq] at hnone
          rw [hlk hq]
          cases c <;> simp only [applyCall, setBody] at h1 <;> (try split at h1) <;>
            (try cases h1) <;> first | rfl | simp [bodyOf] at hnone
      · intro hr
        apply hz
        intro hlen
        cases c <;> simp only [applyCall, setBody] at h1 <;> (try split at h1) <;> (try cases h1) <;>
          simp only at hlen ⊢
        · exact hr hlen
        · exact hr hlen
        · simp only [Option.some.injEq] at hlen; exact List.eq_nil_of_length_eq_zero hlen
        · simp only [Option.some.injEq] at hlen; exact List.eq_nil_of_length_eq_zero hlen
        · subst hlen; simp [readerContent]
        · exact hr hlen
      · intro hl; exact hk (keysLower_applyCall r r1 c h1 hl)
      · intro n; rw [he n, entry_applyCall r r1 c n h1]; rfl


/-- the content type the *code* ends up with when nothing sets it explicitly: that of the first body -/
def firstMime (cs : List Call) : Option (List Bytes) := (firstBody cs).map (fun p => [p.1.mime])

/-- closed form of the per-name fold: last explicit setting, else (content-type only) what was there or the first body -/
theorem foldl_stepName (n : Bytes) (cs : List Call) : ∀ st : Option (List Bytes),
    cs.foldl (stepName n) st =
      match lastExplicit n cs with
      | some vs => some vs
      | none => if n = ctName then (match st with | some x => some x | none => firstMime cs) else st := by
  induction cs with
  | nil => intro st; cases st <;> simp [lastExplicit, firstMime, firstBody]
  | cons c cs ih =>
    intro st
    simp only [List.foldl_cons, ih, lastExplicit]
    cases hl : lastExplicit n cs with
    | some vs => rfl
    | none =>
      simp only [stepName, firstMime, firstBody]
      cases he : explicitFor n c with
      | some vs => by_cases hn : n = ctName <;> simp [hn]
      | none =>
        cases hb : bodyOf c with
        | none => simp
        | some kb =>
          obtain ⟨k, b⟩ := kb
          by_cases hn : n = ctName
          · cases st <;> simp [hn]
          · simp [hn]

theorem lastBody_none_iff (cs : List Call) : lastBody cs = none ↔ firstBody cs = none := by
  induction cs with
  | nil => simp [lastBody, firstBody]
  | cons c cs ih =>
    simp only [lastBody, firstBody]
    cases hl : lastBody cs with
    | some x =>
      have : firstBody cs ≠ none := fun h => by rw [← ih] at h; simp [hl] at h
      cases hb : bodyOf c <;> simp [this]
    | none =>
      have : firstBody cs = none := ih.mp hl
      cases hb : bodyOf c <;> simp [this]

theorem foldCalls_some_of_inDomain (cs : List Call) : ∀ r : Req, inDomain cs = true → ∃ r', foldCalls r cs = some r' := by
  induction cs with
  | nil => intro r _; exact ⟨r, rfl⟩
  | cons c cs ih =>
    intro r h
    simp only [inDomain, List.all_cons, Bool.and_eq_true] at h
    obtain ⟨hc, hcs⟩ := h
    have : ∃ r1, applyCall r c = some r1 := by
      cases c <;> simp only [applyCall] <;> (try exact ⟨_, rfl⟩)
      simp only at hc
      simp [hc]
    obtain ⟨r1, h1⟩ := this
    obtain ⟨r', h'⟩ := ih r1 (by simpa [inDomain] using hcs)
    exact ⟨r', by simp [foldCalls, h1, h']⟩

theorem foldCalls_none_of_not_inDomain (cs : List Call) : ∀ r : Req, inDomain cs = false → foldCalls r cs = none := by
  induction cs with
  | nil => intro r h; simp [inDomain] at h
  | cons c cs ih =>
    intro r h
    simp only [foldCalls]
    cases h1 : applyCall r c with
    | none => rfl
    | some r1 =>
      simp only
      apply ih
      simp only [inDomain, List.all_cons, Bool.and_eq_false_iff] at h
      rcases h with h | h
      · exfalso
        cases c <;> simp only [applyCall] at h1 <;> simp only at h <;> (try simp at h)
        simp only [Option.ite_none_right_eq_some, Bool.and_eq_true, List.all_eq_true] at h1
        obtain ⟨x, hx, hx'⟩ := h h1.1.1
        have := h1.1.2 x hx
        simp [hx'] at this
      · simpa [inDomain] using h

theorem documentedMime_eq (k : BodyKind) : documentedMime k = k.mime := by cases k <;> decide


/-! ### the emitted header list: sorted by name, values of one name in order -/

theorem valuesFor_cons (p : Bytes × Bytes) (hs : List (Bytes × Bytes)) (n : Bytes) :
    valuesFor (p :: hs) n = (if lower p.1 = n then [p.2] else []) ++ valuesFor hs n := by
  unfold valuesFor
  by_cases h : lower p.1 = n <;> simp [h]

theorem bytesLe_refl (a : Bytes) : bytesLe a a = true := by
  induction a with
  | nil => rfl
  | cons x t ih => simp [bytesLe, ih]

/-- names of a pair list are lower-case -/
def NamesLower (l : List (Bytes × Bytes)) : Prop := ∀ q ∈ l, lower q.1 = q.1

theorem valuesFor_insertByName (p : Bytes × Bytes) (l : List (Bytes × Bytes)) (n : Bytes)
    (hp : lower p.1 = p.1) (hl : NamesLower l) :
    valuesFor (insertByName p l) n = valuesFor (p :: l) n := by
  induction l with
  | nil => rfl
  | cons q t ih =>
    have hq : lower q.1 = q.1 := hl q (by simp)
    have ht : NamesLower t := fun x hx => hl x (by simp [hx])
    simp only [insertByName]
    split
    · rfl
    · rename_i hle
      rw [valuesFor_cons, ih ht, valuesFor_cons, valuesFor_cons, valuesFor_cons]
      by_cases hpn : lower p.1 = n <;> by_cases hqn : lower q.1 = n <;> simp [hpn, hqn]
      exfalso
      have : p.1 = q.1 := by rw [← hp, ← hq, hpn, hqn]
      rw [this, bytesLe_refl] at hle
      exact hle rfl

theorem mem_insertByName (p x : Bytes × Bytes) (l : List (Bytes × Bytes)) :
    x ∈ insertByName p l ↔ x = p ∨ x ∈ l := by
  induction l with
  | nil => simp [insertByName]
  | cons q t ih =>
    simp only [insertByName]
    split
    · simp
    · simp only [List.mem_cons, ih]
      constructor
      · rintro (h | h | h) <;> simp [h]
      · rintro (h | h | h) <;> simp [h]

theorem mem_sortByName (x : Bytes × Bytes) (l : List (Bytes × Bytes)) : x ∈ sortByName l ↔ x ∈ l := by
  induction l with
  | nil => simp [sortByName]
  | cons p t ih =>
    have : sortByName (p :: t) = insertByName p (sortByName t) := rfl
    rw [this, mem_insertByName, ih]; simp

theorem valuesFor_sortByName (l : List (Bytes × Bytes)) (n : Bytes) (hl : NamesLower l) :
    valuesFor (sortByName l) n = valuesFor l n := by
  induction l with
  | nil => rfl
  | cons p t ih =>
    have hp : lower p.1 = p.1 := hl p (by simp)
    have ht : NamesLower t := fun x hx => hl x (by simp [hx])
    have : sortByName (p :: t) = insertByName p (sortByName t) := rfl
    rw [this, valuesFor_insertByName p _ n hp (fun x hx => ht x ((mem_sortByName x t).mp hx)),
      valuesFor_cons, ih ht, valuesFor_cons]

theorem namesLower_flat (h : Headers) (hk : KeysLower h) : NamesLower h.flat := by
  intro q hq
  simp only [Headers.flat, List.mem_flatMap, List.mem_map] at hq
  obtain ⟨e, he, v, _, rfl⟩ := hq
  exact hk e he

theorem valuesFor_emitHeaders (h : Headers) (hk : KeysLower h) (n : Bytes) :
    valuesFor (emitHeaders h) n = h.values n := by
  unfold emitHeaders
  rw [valuesFor_sortByName _ n (namesLower_flat h hk), valuesFor_flat h hk]

/-! ### C15: appending the shell's headers -/

theorem appendAll_spec (hs : List (Bytes × Bytes)) : ∀ h h' : Headers, appendAll h hs = some h' →
    (KeysLower h → KeysLower h') ∧ ∀ n, h'.values n = h.values n ++ valuesFor hs n := by
  induction hs with
  | nil =>
    intro h h' hh
    simp only [appendAll] at hh; injection hh with hh; subst hh
    simp [valuesFor]
  | cons p hs ih =>
    intro h h' hh
    obtain ⟨n0, v0⟩ := p
    simp only [appendAll] at hh
    split at hh
    · obtain ⟨hk, hv⟩ := ih _ h' hh
      refine ⟨fun hl => hk (keysLower_append _ _ _ hl (lower_idem n0)), ?_⟩
      intro n
      rw [hv n, values_append, valuesFor_cons, List.append_assoc]
    · cases hh

theorem appendAll_some_of_ascii (hs : List (Bytes × Bytes)) : ∀ h : Headers, asciiHeaders hs = true →
    ∃ h', appendAll h hs = some h' := by
  induction hs with
  | nil => intro h _; exact ⟨h, rfl⟩
  | cons p hs ih =>
    intro h ha
    obtain ⟨n0, v0⟩ := p
    simp only [asciiHeaders, List.all_cons, Bool.and_eq_true] at ha
    obtain ⟨⟨h1, h2⟩, h3⟩ := ha
    obtain ⟨h', hh⟩ := ih (h.append (lower n0) [v0]) (by simpa [asciiHeaders] using h3)
    exact ⟨h', by simp [appendAll, h1, h2, hh]⟩

theorem appendAll_none_of_not_ascii (hs : List (Bytes × Bytes)) : ∀ h : Headers, asciiHeaders hs = false →
    appendAll h hs = none := by
  induction hs with
  | nil => intro h ha; simp [asciiHeaders] at ha
  | cons p hs ih =>
    intro h ha
    obtain ⟨n0, v0⟩ := p
    simp only [appendAll]
    split
    · apply ih
      rename_i hc
      simp only [asciiHeaders, List.all_cons, Bool.and_eq_false_iff] at ha
      rcases ha with ha | ha
      · exfalso; simp only [Bool.and_eq_true] at hc; rcases ha with ha | ha <;> simp [ha] at hc
      · simpa [asciiHeaders] using ha
    · rfl

/-- every status http-types knows lies in 100..=511 (table of 59 rows, by evaluation) -/
theorem validStatus_range (s : Nat) (h : isValidStatus s = true) : 100 ≤ s ∧ s ≤ 511 := by
  have hall : ∀ x ∈ validStatus, 100 ≤ x ∧ x ≤ 511 := by decide
  unfold isValidStatus at h
  exact hall s (by simpa using h)

/-- the two byte order marks exclude each other -/
theorem bom8_not_bom16 (b : Bytes) (h : bom8 b = true) : bom16 b = false := by
  unfold bom8 at h
  split at h
  · simp [bom16]
  · cases h


/-! ### C15: helper facts about the conversion, the expectations and the oracle -/

/-- the headers a valid response with ASCII headers reaches the app with: the shell's, name by name in order, plus
    one leading `content-type: application/octet-stream` -/
theorem toHttpTypes_valid (r : HttpResponse) (hv : isValidStatus r.status = true)
    (ha : asciiHeaders r.headers = true) :
    ∃ h, toHttpTypes r = .ok h ∧
      ∀ n, valuesFor h.flat n = (if n = ctName then [octetStream] else []) ++ valuesFor r.headers n := by
  obtain ⟨h, hh⟩ := appendAll_some_of_ascii r.headers (Headers.insert [] ctName [octetStream]) ha
  obtain ⟨hk, hval⟩ := appendAll_spec r.headers _ h hh
  have hkl : KeysLower h := hk (keysLower_insert [] ctName _ (by intro e he; cases he) lower_ctName)
  refine ⟨h, by simp [toHttpTypes, hv, hh], ?_⟩
  intro n
  rw [valuesFor_flat h hkl, hval n, values_insert]
  by_cases hn : n = ctName
  · subst hn; simp
  · have : ¬ ctName = n := fun h => hn h.symm
    simp [hn, this, Headers.values]

/-- an expectation never panics and never changes status or headers -/
theorem applyExpect_cases (e : Expect) (f : Facts) (s : Nat) (hs : List (Bytes × Bytes)) (body : Bytes) :
    (∃ b, applyExpect e f s hs body = .success s hs b) ∨ (∃ err, applyExpect e f s hs body = .error err) := by
  cases e
  · exact .inl ⟨body, rfl⟩
  · simp only [applyExpect]
    cases decodeString f body with
    | ok x => exact .inl ⟨x, rfl⟩
    | error x => exact .inr ⟨x, rfl⟩
  · simp only [applyExpect]
    cases f.jd with
    | ok x => exact .inl ⟨x, rfl⟩
    | fail x => exact .inr ⟨_, rfl⟩
    | na => exact .inr ⟨_, rfl⟩

theorem ascii_octetStream : ascii "application/octet-stream" = octetStream := by decide

theorem sameHeadersModInjection_of (given obs : List (Bytes × Bytes))
    (h : ∀ n, valuesFor obs n = (if n = ctName then [octetStream] else []) ++ valuesFor given n) :
    sameHeadersModInjection given obs = true := by
  unfold sameHeadersModInjection
  rw [List.all_eq_true]
  intro n _
  rw [h n, ascii_octetStream]
  by_cases hn : n = ctName <;> simp [hn]

theorem sameHeaders_false_of_injected (given obs : List (Bytes × Bytes))
    (h : valuesFor obs ctName = octetStream :: valuesFor given ctName) : sameHeaders given obs = false := by
  unfold sameHeaders
  rw [List.all_eq_false]
  refine ⟨ctName, by simp [headerNames], ?_⟩
  rw [h]
  have : octetStream :: valuesFor given ctName ≠ valuesFor given ctName := by
    intro heq
    have := congrArg List.length heq
    simp at this
  simp [this]

theorem okRespWith_error (h1 h2 : List (Bytes × Bytes) → List (Bytes × Bytes) → Bool) (res : HttpResult)
    (e : Expect) (f : Facts) (err : HttpError) :
    okRespWith h1 res e f (.error err) = okRespWith h2 res e f (.error err) := by
  unfold okRespWith
  cases res with
  | err x => rfl
  | ok r =>
    simp only
    split
    · rfl
    · split
      · rcases expectedDecoded e f r.body with _ | _ | _ <;> rfl
      · rfl

theorem okRespWith_panic (h1 : List (Bytes × Bytes) → List (Bytes × Bytes) → Bool) (r : HttpResponse)
    (e : Expect) (f : Facts) (c : PanicClass) : okRespWith h1 (.ok r) e f (.panic c) = false := by
  unfold okRespWith
  simp only
  split
  · rfl
  · split <;> rfl

theorem okRespWith_success_false (hdrs : List (Bytes × Bytes) → List (Bytes × Bytes) → Bool) (r : HttpResponse)
    (e : Expect) (f : Facts) (s : Nat) (hs : List (Bytes × Bytes)) (b : Bytes)
    (h1 : 100 ≤ r.status) (h2 : r.status < 400) (hh : hdrs r.headers hs = false) :
    okRespWith hdrs (.ok r) e f (.success s hs b) = false := by
  have hn : ¬ (400 ≤ r.status) := by omega
  simp only [okRespWith, hn, h1, h2, decide_true, decide_false, Bool.false_and, Bool.and_self,
    Bool.false_eq_true, if_false, if_true]
  rcases expectedDecoded e f r.body with _ | _ | _ <;> simp [hh]

end Lemmas.Http
