/-
`simple` task programs: tasks that wait only on shell requests and streams — emit, notify, request, stream, spawn, join,
self-wake; no select, no handoff of a request future, no join handles, no abort handles, no hosted commands. One poll of a
simple block leaves a simple block and spawns only simple tasks (`SGood`, one `grind` call).
-/
import CruxVerif.Lemmas.LQ
namespace M.Rt

mutual
def simpleI : Instr → Bool
  | .emit _ _ => true
  | .notify _ _ => true
  | .req _ _ _ => true
  | .selfwake _ => true
  | .stream _ _ _ _ body => simpleIs body
  | .spawn _ body => simpleIs body
  | .join a b => simpleIs a && simpleIs b
  | _ => false
def simpleIs : List Instr → Bool
  | [] => true
  | i :: is => simpleI i && simpleIs is
end

mutual
def simpleB : Block → Bool
  | .mk _ cur rest => simpleP cur && simpleIs rest
def simpleP : Pend → Bool
  | .idle => true
  | .reqDead => true
  | .req _ _ => true
  | .selfwake _ => true
  | .streamWait _ _ _ _ body => simpleIs body
  | .streamBody _ _ _ _ body inner => simpleIs body && simpleB inner
  | .join a b _ _ => simpleB a && simpleB b
  | _ => false
end

theorem spB_eq (env : Env) (cur : Pend) (rest : List Instr) : simpleB (.mk env cur rest) = (simpleP cur && simpleIs rest) := by
  simp [simpleB]
theorem spP_idle : simpleP .idle = true := by simp [simpleP]
theorem spP_reqDead : simpleP .reqDead = true := by simp [simpleP]
theorem spP_req (x l : Nat) : simpleP (.req x l) = true := by simp [simpleP]
theorem spP_selfwake (k : Nat) : simpleP (.selfwake k) = true := by simp [simpleP]
theorem spP_await (s : Nat) : simpleP (.await s) = false := by simp [simpleP]
theorem spP_host (c : Nat) (m : Mapper) : simpleP (.host c m) = false := by simp [simpleP]
theorem spP_select (a b : Block) : simpleP (.select a b) = false := by simp [simpleP]
theorem spP_streamWait (x l c lim : Nat) (body : List Instr) : simpleP (.streamWait x l c lim body) = simpleIs body := by
  simp [simpleP]
theorem spP_streamBody (x l c lim : Nat) (body : List Instr) (inner : Block) :
    simpleP (.streamBody x l c lim body inner) = (simpleIs body && simpleB inner) := by simp [simpleP]
theorem spP_join (a b : Block) (ad bd : Bool) : simpleP (.join a b ad bd) = (simpleB a && simpleB b) := by simp [simpleP]
theorem spIs_nil : simpleIs [] = true := by simp [simpleIs]
theorem spIs_cons (i : Instr) (is : List Instr) : simpleIs (i :: is) = (simpleI i && simpleIs is) := by simp [simpleIs]
theorem spI_emit (t : Nat) (e : Expr) : simpleI (.emit t e) = true := by simp [simpleI]
theorem spI_notify (t : Nat) (e : Expr) : simpleI (.notify t e) = true := by simp [simpleI]
theorem spI_req (x n : Nat) (e : Expr) : simpleI (.req x n e) = true := by simp [simpleI]
theorem spI_selfwake (k : Nat) : simpleI (.selfwake k) = true := by simp [simpleI]
theorem spI_stream (x n : Nat) (e : Expr) (lim : Nat) (body : List Instr) : simpleI (.stream x n e lim body) = simpleIs body := by
  simp [simpleI]
theorem spI_spawn (h : Nat) (body : List Instr) : simpleI (.spawn h body) = simpleIs body := by simp [simpleI]
theorem spI_join (a b : List Instr) : simpleI (.join a b) = (simpleIs a && simpleIs b) := by simp [simpleI]
theorem spI_await (h : Nat) : simpleI (.await h) = false := by simp [simpleI]
theorem spI_abortTask (h : Nat) : simpleI (.abortTask h) = false := by simp [simpleI]
theorem spI_select (a b : List Instr) : simpleI (.select a b) = false := by simp [simpleI]
theorem spI_abortCmd (n : Nat) : simpleI (.abortCmd n) = false := by simp [simpleI]
theorem spI_handoff (x n : Nat) (e : Expr) (body : List Instr) : simpleI (.handoff x n e body) = false := by simp [simpleI]
theorem spI_host (c : Nat) (m : Mapper) : simpleI (.host c m) = false := by simp [simpleI]

def spRes : PollRes → Prop
  | .pending b => simpleB b = true
  | .ready _ => True
theorem spRes_pending (b : Block) : spRes (.pending b) = (simpleB b = true) := rfl
theorem spRes_ready (e : Env) : spRes (.ready e) = True := rfl

/-- since `w0`, no task slab was touched and whatever joined a spawn queue is simple -/
abbrev SK (w0 w : World) : Prop := TKp (fun _ t => simpleB t.fut = true) w0 w

section
variable {w0 w : World}
theorem sk_sinkEvent (s : Sink) (e : Ev) (h : SK w0 w) : SK w0 (w.sinkEvent s e) := h.trans (tk_sinkEvent w s e)
theorem sk_sinkEffect (s : Sink) (e : Eff) (h : SK w0 w) : SK w0 (w.sinkEffect s e) := h.trans (tk_sinkEffect w s e)
theorem sk_newLeaf (k : Option Waker) (lg : Bool) (h : SK w0 w) : SK w0 (w.newLeaf k lg).2 := h.trans (tk_of_cmds rfl)
theorem sk_newMeta (h : SK w0 w) : SK w0 w.newMeta.2 := h.trans (tk_of_cmds rfl)
theorem sk_addSpawn (c : Nat) (t : Task) (ht : simpleB t.fut = true) (h : SK w0 w) : SK w0 (w.modCmd c (addSpawn t)) :=
  h.trans (tk_spawn w c t ht)
theorem sk_modMeta (s : Nat) (f : Meta → Meta) (h : SK w0 w) : SK w0 (w.modMeta s f) := h.trans (tk_of_cmds rfl)
theorem sk_modLeaf (l : Nat) (f : Leaf → Leaf) (h : SK w0 w) : SK w0 (w.modLeaf l f) := h.trans (tk_of_cmds rfl)
theorem sk_dropReceiver (l : Nat) (h : SK w0 w) : SK w0 (w.dropReceiver l) := h.trans (tk_dropReceiver w l)
theorem sk_dropBlock (b : Block) (hb : hostFreeB b = true) (h : SK w0 w) : SK w0 (w.dropBlock b) :=
  h.trans (tk_World_dropBlock w b hb)
theorem sk_wake (k : Waker) (h : SK w0 w) : SK w0 (w.wake k) := h.trans (tk_World_wake w k)
theorem sk_abortCmd (c : Nat) (h : SK w0 w) : SK w0 (w.abortCmd c) := h.trans (tk_abortCmd w c)
theorem sk_execSpawn (xs : List ExecTask) (h : SK w0 w) : SK w0 ({ w with execSpawn := xs } : World) := h.trans (tk_of_cmds rfl)
end

def SGood (pn : Waker → Nat → World → Option (NextRes × World)) (w0 : World) (f : Nat) : Prop :=
  ∀ wk sink b w r w', pollBlock pn f wk sink b w = some (r, w') → hostFreeB b = true → simpleB b = true → SK w0 w →
    SK w0 w' ∧ spRes r

theorem sgood_succ (pn) (w0 : World) (f : Nat) (ih : SGood pn w0 f) : SGood pn w0 (f + 1) := by
  intro wk sink b w r w' h hf hs hw
  obtain ⟨env, cur, rest⟩ := b
  have hres := fun wk b w r w' h hf => (pollBlock_lgood pn f wk sink b w r w' h hf).2
  unfold pollBlock at h
  simp only [addJoinWaker_eq, addSpawn_eq, setWaker_eq, setQueue_eq] at h
  unfold SGood at ih
  grind (gen := 20) (splits := 40) [sk_sinkEvent, sk_sinkEffect, sk_newLeaf, sk_newMeta, sk_addSpawn, sk_modMeta, sk_modLeaf,
    sk_dropReceiver, sk_dropBlock, sk_wake, sk_abortCmd, sk_execSpawn,
    spB_eq, spP_idle, spP_reqDead, spP_req, spP_selfwake, spP_await, spP_host, spP_select, spP_streamWait, spP_streamBody, spP_join,
    spIs_nil, spIs_cons, spI_emit, spI_notify, spI_req, spI_selfwake, spI_stream, spI_spawn, spI_join, spI_await, spI_abortTask,
    spI_select, spI_abortCmd, spI_handoff, spI_host, spRes_pending, spRes_ready,
    hfB_eq, hfP_idle, hfP_reqDead, hfP_req, hfP_await, hfP_selfwake, hfP_streamWait,
    hfP_streamBody, hfP_join, hfP_select, hfP_host, hfIs_nil, hfIs_cons, hfI_host, hfI_stream, hfI_spawn, hfI_handoff,
    hfI_join, hfI_select, hfRes_pending]

theorem pollBlock_sgood (pn) (w0 : World) : ∀ f, SGood pn w0 f
  | 0 => by intro wk sink b w r w' h; simp [pollBlock] at h
  | f + 1 => sgood_succ pn w0 f (pollBlock_sgood pn w0 f)

end M.Rt
