/-
UTF-8 well-formedness: the byte-level automaton of the model (`M.Http.validUtf8`, Unicode table 3-7) accepts exactly the
encodings of sequences of Unicode scalar values (`S.Http.encodeUtf8`).
-/
import CruxVerif.Spec.Http
namespace Lemmas.Utf8
open M.Http S.Http

theorem utf8Go_zero (lo hi : Nat) (l : Bytes) : utf8Go 0 lo hi l = utf8Go 0 0 0 l := by
  cases l <;> simp [utf8Go]

theorem utf8Go_encodeScalar (c : Nat) (hc : isScalar c = true) (rest : Bytes) :
    utf8Go 0 0 0 (encodeScalar c ++ rest) = utf8Go 0 0 0 rest := by
  unfold encodeScalar
  simp only [isScalar, Bool.or_eq_true, Bool.and_eq_true, decide_eq_true_eq] at hc
  by_cases h1 : c < 128
  · simp [h1, utf8Go]
  · by_cases h2 : c < 2048
    · simp only [h1, h2, if_false, if_true, List.cons_append, List.nil_append]
      have a1 : ¬ (192 + c / 64 < 128) := by omega
      have a2 : 194 ≤ 192 + c / 64 ∧ 192 + c / 64 ≤ 223 := by omega
      have a3 : 128 ≤ 128 + c % 64 ∧ 128 + c % 64 ≤ 191 := by omega
      simp [utf8Go, a1, a2, a3, utf8Go_zero]
    · by_cases h3 : c < 65536
      · simp only [h1, h2, h3, if_false, if_true, List.cons_append, List.nil_append]
        have hb1 : 128 ≤ 128 + c / 64 % 64 ∧ 128 + c / 64 % 64 ≤ 191 := by omega
        have hb2 : 128 ≤ 128 + c % 64 ∧ 128 + c % 64 ≤ 191 := by omega
        by_cases q0 : c / 4096 = 0
        · have hb1' : 160 ≤ 128 + c / 64 % 64 := by omega
          simp [utf8Go, q0, hb1', hb1.2, hb2, utf8Go_zero]
        · by_cases q13 : c / 4096 = 13
          · have hb1' : 128 + c / 64 % 64 ≤ 159 := by omega
            simp [utf8Go, q13, hb1', hb1.1, hb2, utf8Go_zero]
          · have hq : c / 4096 = 1 ∨ c / 4096 = 2 ∨ c / 4096 = 3 ∨ c / 4096 = 4 ∨ c / 4096 = 5 ∨ c / 4096 = 6 ∨
                c / 4096 = 7 ∨ c / 4096 = 8 ∨ c / 4096 = 9 ∨ c / 4096 = 10 ∨ c / 4096 = 11 ∨ c / 4096 = 12 ∨
                c / 4096 = 14 ∨ c / 4096 = 15 := by omega
            rcases hq with h | h | h | h | h | h | h | h | h | h | h | h | h | h <;>
              simp [utf8Go, h, hb1, hb2, utf8Go_zero]
      · simp only [h1, h2, h3, if_false, List.cons_append, List.nil_append]
        have hb1 : 128 ≤ 128 + c / 4096 % 64 ∧ 128 + c / 4096 % 64 ≤ 191 := by omega
        have hb2 : 128 ≤ 128 + c / 64 % 64 ∧ 128 + c / 64 % 64 ≤ 191 := by omega
        have hb3 : 128 ≤ 128 + c % 64 ∧ 128 + c % 64 ≤ 191 := by omega
        by_cases q0 : c / 262144 = 0
        · have hb1' : 144 ≤ 128 + c / 4096 % 64 := by omega
          simp [utf8Go, q0, hb1', hb1.2, hb2, hb3, utf8Go_zero]
        · by_cases q4 : c / 262144 = 4
          · have hb1' : 128 + c / 4096 % 64 ≤ 143 := by omega
            simp [utf8Go, q4, hb1', hb1.1, hb2, hb3, utf8Go_zero]
          · have hq : c / 262144 = 1 ∨ c / 262144 = 2 ∨ c / 262144 = 3 := by omega
            rcases hq with h | h | h <;> simp [utf8Go, h, hb1, hb2, hb3, utf8Go_zero]

/-- one continuation step -/
theorem utf8Go_succ (n lo hi : Nat) (l : Bytes) (h : utf8Go (n + 1) lo hi l = true) :
    ∃ b r, l = b :: r ∧ lo ≤ b ∧ b ≤ hi ∧ utf8Go n 128 191 r = true := by
  cases l with
  | nil => simp [utf8Go] at h
  | cons b r =>
    simp only [utf8Go] at h
    by_cases hc : (decide (lo ≤ b) && decide (b ≤ hi)) = true
    · simp only [hc, if_true] at h
      simp only [Bool.and_eq_true, decide_eq_true_eq] at hc
      exact ⟨b, r, rfl, hc.1, hc.2, h⟩
    · simp [hc] at h

/-- what the first byte of a sequence demands -/
def leadClass (b : Nat) : Option (Nat × Nat × Nat) :=
  if b < 128 then some (0, 0, 0)
  else if 194 ≤ b && b ≤ 223 then some (1, 128, 191)
  else if b == 224 then some (2, 160, 191)
  else if (225 ≤ b && b ≤ 236) || b == 238 || b == 239 then some (2, 128, 191)
  else if b == 237 then some (2, 128, 159)
  else if b == 240 then some (3, 144, 191)
  else if 241 ≤ b && b ≤ 243 then some (3, 128, 191)
  else if b == 244 then some (3, 128, 143)
  else none

theorem utf8Go_lead (b : Nat) (r : Bytes) :
    utf8Go 0 0 0 (b :: r) = match leadClass b with
      | some (n, lo, hi) => utf8Go n lo hi r
      | none => false := by
  simp only [utf8Go, leadClass]
  split <;> try rfl
  split <;> try rfl
  split <;> try rfl
  split <;> try rfl
  split <;> try rfl
  split <;> try rfl
  split <;> try rfl
  split <;> rfl

theorem leadClass_spec (b n lo hi : Nat) (h : leadClass b = some (n, lo, hi)) :
    (n = 0 ∧ b < 128) ∨
    (n = 1 ∧ lo = 128 ∧ hi = 191 ∧ 194 ≤ b ∧ b ≤ 223) ∨
    (n = 2 ∧ ((b = 224 ∧ lo = 160 ∧ hi = 191) ∨ (225 ≤ b ∧ b ≤ 239 ∧ b ≠ 237 ∧ lo = 128 ∧ hi = 191) ∨
              (b = 237 ∧ lo = 128 ∧ hi = 159))) ∨
    (n = 3 ∧ ((b = 240 ∧ lo = 144 ∧ hi = 191) ∨ (241 ≤ b ∧ b ≤ 243 ∧ lo = 128 ∧ hi = 191) ∨
              (b = 244 ∧ lo = 128 ∧ hi = 143))) := by
  unfold leadClass at h
  repeat' split at h
  all_goals cases h
  all_goals simp_all
  all_goals omega

theorem isScalar_iff (c : Nat) : isScalar c = true ↔ (c < 55296 ∨ (57344 ≤ c ∧ c < 1114112)) := by
  simp only [isScalar, Bool.or_eq_true, Bool.and_eq_true, decide_eq_true_eq]

theorem two_bytes (b0 b1 c : Nat) (h0 : 194 ≤ b0 ∧ b0 ≤ 223) (h1 : 128 ≤ b1 ∧ b1 ≤ 191)
    (hc : c = (b0 - 192) * 64 + (b1 - 128)) :
    isScalar c = true ∧ encodeScalar c = [b0, b1] := by
  have r1 : ¬ c < 128 := by omega
  have r2 : c < 2048 := by omega
  refine ⟨(isScalar_iff c).mpr (by omega), ?_⟩
  have e0 : 192 + c / 64 = b0 := by omega
  have e1 : 128 + c % 64 = b1 := by omega
  simp only [encodeScalar, r1, r2, if_false, if_true, e0, e1]

theorem three_bytes (b0 b1 b2 c : Nat)
    (h0 : (b0 = 224 ∧ 160 ≤ b1 ∧ b1 ≤ 191) ∨ (225 ≤ b0 ∧ b0 ≤ 239 ∧ b0 ≠ 237 ∧ 128 ≤ b1 ∧ b1 ≤ 191) ∨
          (b0 = 237 ∧ 128 ≤ b1 ∧ b1 ≤ 159))
    (h2 : 128 ≤ b2 ∧ b2 ≤ 191) (hc : c = (b0 - 224) * 4096 + (b1 - 128) * 64 + (b2 - 128)) :
    isScalar c = true ∧ encodeScalar c = [b0, b1, b2] := by
  have r1 : ¬ c < 128 := by omega
  have r2 : ¬ c < 2048 := by omega
  have r3 : c < 65536 := by omega
  refine ⟨(isScalar_iff c).mpr (by omega), ?_⟩
  have e0 : 224 + c / 4096 = b0 := by omega
  have e1 : 128 + c / 64 % 64 = b1 := by omega
  have e2 : 128 + c % 64 = b2 := by omega
  simp only [encodeScalar, r1, r2, r3, if_false, if_true, e0, e1, e2]

theorem four_bytes (b0 b1 b2 b3 c : Nat)
    (h0 : (b0 = 240 ∧ 144 ≤ b1 ∧ b1 ≤ 191) ∨ (241 ≤ b0 ∧ b0 ≤ 243 ∧ 128 ≤ b1 ∧ b1 ≤ 191) ∨
          (b0 = 244 ∧ 128 ≤ b1 ∧ b1 ≤ 143))
    (h2 : 128 ≤ b2 ∧ b2 ≤ 191) (h3 : 128 ≤ b3 ∧ b3 ≤ 191)
    (hc : c = (b0 - 240) * 262144 + (b1 - 128) * 4096 + (b2 - 128) * 64 + (b3 - 128)) :
    isScalar c = true ∧ encodeScalar c = [b0, b1, b2, b3] := by
  have r1 : ¬ c < 128 := by omega
  have r2 : ¬ c < 2048 := by omega
  have r3 : ¬ c < 65536 := by omega
  refine ⟨(isScalar_iff c).mpr (by omega), ?_⟩
  have e0 : 240 + c / 262144 = b0 := by omega
  have e1 : 128 + c / 4096 % 64 = b1 := by omega
  have e2 : 128 + c / 64 % 64 = b2 := by omega
  have e3 : 128 + c % 64 = b3 := by omega
  simp only [encodeScalar, r1, r2, r3, if_false, e0, e1, e2, e3]


theorem validUtf8_encodeUtf8 (cs : List Nat) (h : cs.all isScalar = true) : validUtf8 (encodeUtf8 cs) = true := by
  unfold validUtf8
  induction cs with
  | nil => simp [encodeUtf8, utf8Go]
  | cons c cs ih =>
    simp only [List.all_cons, Bool.and_eq_true] at h
    have : encodeUtf8 (c :: cs) = encodeScalar c ++ encodeUtf8 cs := by simp [encodeUtf8]
    rw [this, utf8Go_encodeScalar c h.1]
    exact ih h.2

theorem exists_scalars (n : Nat) : ∀ b : Bytes, b.length ≤ n → utf8Go 0 0 0 b = true →
    ∃ cs, cs.all isScalar = true ∧ encodeUtf8 cs = b := by
  induction n with
  | zero =>
    intro b hb _
    have : b = [] := List.length_eq_zero_iff.mp (by omega)
    exact ⟨[], by simp, by simp [this, encodeUtf8]⟩
  | succ n ih =>
    intro b hb hv
    cases b with
    | nil => exact ⟨[], by simp, by simp [encodeUtf8]⟩
    | cons b0 r =>
      rw [utf8Go_lead] at hv
      simp only [List.length_cons] at hb
      cases hl : leadClass b0 with
      | none => simp [hl] at hv
      | some t =>
        obtain ⟨k, lo, hi⟩ := t
        simp only [hl] at hv
        have key : ∀ (c : Nat) (seq r' : Bytes), isScalar c = true → encodeScalar c = seq → b0 :: r = seq ++ r' →
            r'.length ≤ n → utf8Go 0 0 0 r' = true → ∃ cs, cs.all isScalar = true ∧ encodeUtf8 cs = b0 :: r := by
          intro c seq r' hc he hr hlen hv'
          obtain ⟨cs, hcs, hcs'⟩ := ih r' hlen hv'
          exact ⟨c :: cs, by simp [hc, hcs], by simp [encodeUtf8] at hcs' ⊢; rw [he, hcs', hr]⟩
        rcases leadClass_spec b0 k lo hi hl with ⟨hk, h0⟩ | ⟨hk, hlo, hhi, h0⟩ | ⟨hk, h0⟩ | ⟨hk, h0⟩
        · subst hk
          rw [utf8Go_zero] at hv
          exact key b0 [b0] r ((isScalar_iff b0).mpr (by omega)) (by simp [encodeScalar, h0]) rfl (by omega) hv
        · subst hk hlo hhi
          obtain ⟨b1, r1, hr1, h1a, h1b, hv1⟩ := utf8Go_succ _ _ _ _ hv
          rw [utf8Go_zero] at hv1
          subst hr1
          obtain ⟨hs, he⟩ := two_bytes b0 b1 _ h0 ⟨h1a, h1b⟩ rfl
          exact key _ [b0, b1] r1 hs he rfl (by simp only [List.length_cons] at hb; omega) hv1
        · subst hk
          obtain ⟨b1, r1, hr1, h1a, h1b, hv1⟩ := utf8Go_succ _ _ _ _ hv
          obtain ⟨b2, r2, hr2, h2a, h2b, hv2⟩ := utf8Go_succ _ _ _ _ hv1
          rw [utf8Go_zero] at hv2
          subst hr1 hr2
          obtain ⟨hs, he⟩ := three_bytes b0 b1 b2 _ (by omega) ⟨h2a, h2b⟩ rfl
          exact key _ [b0, b1, b2] r2 hs he rfl (by simp only [List.length_cons] at hb; omega) hv2
        · subst hk
          obtain ⟨b1, r1, hr1, h1a, h1b, hv1⟩ := utf8Go_succ _ _ _ _ hv
          obtain ⟨b2, r2, hr2, h2a, h2b, hv2⟩ := utf8Go_succ _ _ _ _ hv1
          obtain ⟨b3, r3, hr3, h3a, h3b, hv3⟩ := utf8Go_succ _ _ _ _ hv2
          rw [utf8Go_zero] at hv3
          subst hr1 hr2 hr3
          obtain ⟨hs, he⟩ := four_bytes b0 b1 b2 b3 _ (by omega) ⟨h2a, h2b⟩ ⟨h3a, h3b⟩ rfl
          exact key _ [b0, b1, b2, b3] r3 hs he rfl (by simp only [List.length_cons] at hb; omega) hv3

/-- **The model's UTF-8 check is UTF-8**: a byte string is accepted iff it is the encoding of a sequence of Unicode
    scalar values. -/
theorem validUtf8_iff (b : Bytes) : validUtf8 b = true ↔ ∃ cs, cs.all isScalar = true ∧ encodeUtf8 cs = b := by
  constructor
  · intro h; exact exists_scalars b.length b (Nat.le_refl _) h
  · rintro ⟨cs, hcs, rfl⟩; exact validUtf8_encodeUtf8 cs hcs


end Lemmas.Utf8
