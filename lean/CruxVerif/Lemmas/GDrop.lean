/- Dropping never adds references: the global measure can only shrink, the leaves stay. -/
import CruxVerif.Lemmas.GDefs
namespace M.Rt

structure Dec (w w' : World) : Prop where
  g : ∀ l, G l w' ≤ G l w
  len : w'.leaves.length = w.leaves.length

theorem Dec.refl (w : World) : Dec w w := ⟨fun _ => Nat.le_refl _, rfl⟩
theorem Dec.trans {w1 w2 w3 : World} (h12 : Dec w1 w2) (h23 : Dec w2 w3) : Dec w1 w3 :=
  ⟨fun l => Nat.le_trans (h23.g l) (h12.g l), h23.len.trans h12.len⟩

theorem Dec.of_eq {w w' : World} (hg : ∀ l, G l w' = G l w) (hl : w'.leaves.length = w.leaves.length) : Dec w w' :=
  ⟨fun l => by rw [hg l]; exact Nat.le_refl _, hl⟩

theorem len_dropSender (w : World) (x : Nat) : (w.dropSender x).leaves.length = w.leaves.length := by
  unfold World.dropSender
  simp only
  split
  · exact len_modLeaf w x _
  · split
    · rw [len_wake]; exact len_modLeaf w x _
    · exact len_modLeaf w x _

theorem dec_dropReceiver (w : World) (x : Nat) : Dec w (w.dropReceiver x) :=
  Dec.of_eq (fun _ => G_of_cmds rfl) (len_dropReceiver w x)

theorem dec_dropSender (w : World) (x : Nat) : Dec w (w.dropSender x) :=
  Dec.of_eq (fun l => G_dropSender l w x) (len_dropSender w x)

theorem dec_dropEff (w : World) (e : Eff) : Dec w (dropEff w e) := by
  unfold dropEff
  split
  · exact dec_dropSender w _
  · exact dec_dropSender w _
  · exact Dec.refl w

theorem foldl_dec {α : Type} (g : World → α → World) (hg : ∀ W a, Dec W (g W a)) : ∀ (l : List α) (W : World), Dec W (l.foldl g W)
  | [], W => Dec.refl W
  | a :: l, W => by
    simp only [List.foldl_cons]
    exact (hg W a).trans (foldl_dec g hg l (g W a))

mutual
theorem dec_dropBlock (dc : Nat → World → World) (hdc : ∀ c w, Dec w (dc c w)) : (b : Block) → (w : World) →
    Dec w (dropBlock dc b w)
  | .mk env cur rest, w => by
    simp only [dropBlock]
    refine (dec_dropPend dc hdc cur w).trans (foldl_dec _ ?_ rest _)
    intro W i
    cases i <;> first | exact Dec.refl W | exact hdc _ W
theorem dec_dropPend (dc : Nat → World → World) (hdc : ∀ c w, Dec w (dc c w)) : (p : Pend) → (w : World) →
    Dec w (dropPend dc p w)
  | .idle, w => by simp only [dropPend]; exact Dec.refl w
  | .reqDead, w => by simp only [dropPend]; exact Dec.refl w
  | .await _, w => by simp only [dropPend]; exact Dec.refl w
  | .selfwake _, w => by simp only [dropPend]; exact Dec.refl w
  | .req _ l, w => by simp only [dropPend]; exact dec_dropReceiver w l
  | .streamWait _ l _ _ _, w => by simp only [dropPend]; exact dec_dropReceiver w l
  | .streamBody _ l _ _ _ inner, w => by
    simp only [dropPend]; exact (dec_dropBlock dc hdc inner w).trans (dec_dropReceiver _ l)
  | .join a b ad bd, w => by
    simp only [dropPend]
    cases ad <;> cases bd <;> simp only [Bool.false_eq_true, if_false, if_true]
    · exact (dec_dropBlock dc hdc a w).trans (dec_dropBlock dc hdc b _)
    · exact dec_dropBlock dc hdc a w
    · exact dec_dropBlock dc hdc b w
    · exact Dec.refl w
  | .select a b, w => by
    simp only [dropPend]; exact (dec_dropBlock dc hdc a w).trans (dec_dropBlock dc hdc b _)
  | .host c _, w => by simp only [dropPend]; exact hdc c w
end

theorem dec_dropTask (dc : Nat → World → World) (hdc : ∀ c w, Dec w (dc c w)) (t : Task) (w : World) :
    Dec w (dropTask dc t w) := by
  unfold dropTask
  simp only
  exact Dec.trans (w2 := w.modMeta t.serial fun m => { m with taskAlive := false, joinWakers := [] })
    (Dec.of_eq (fun _ => G_of_cmds rfl) rfl) (dec_dropBlock dc hdc t.fut _)

/-- clearing command `c`'s slab and spawn queue -/
theorem dec_modCmd_clear (w : World) (c : Nat) (f : CmdSt → CmdSt) (hf : ∀ x l, cmdCnt l (f x) = 0) : Dec w (w.modCmd c f) := by
  refine ⟨?_, rfl⟩
  intro l
  have h := G_modCmd l w c f
  have : cmdCnt l ((w.modCmd c f).cmd c) = 0 := by
    rw [World.cmd_modCmd_self]
    cases w.cmds[c]? with
    | none => rfl
    | some x => exact hf x l
  omega

theorem dec_dropCmdAt : ∀ (f c : Nat) (w : World), Dec w (dropCmdAt f c w) := by
  intro f
  induction f with
  | zero => intro c w; exact Dec.of_eq (fun _ => G_of_cmds rfl) rfl
  | succ f ih =>
    intro c w
    unfold dropCmdAt
    simp only
    split
    · exact Dec.refl w
    · refine Dec.trans ?_ (foldl_dec _ (fun W t => dec_dropTask _ (fun c w => ih c w) t W) _ _)
      refine Dec.trans ?_ (foldl_dec _ (fun W t => dec_dropTask _ (fun c w => ih c w) t W) _ _)
      split
      · refine dec_modCmd_clear w c _ ?_
        intro _ _; rfl
      · refine Dec.trans (Dec.trans (dec_modCmd_clear w c _ ?_) (foldl_dec dropEff dec_dropEff _ _))
          (Dec.of_eq (fun _ => G_of_cmds rfl) rfl)
        intro _ _; rfl

theorem dec_World_dropCmd (w : World) (c : Nat) : Dec w (w.dropCmd c) := dec_dropCmdAt _ c w
theorem dec_World_dropBlock (w : World) (b : Block) : Dec w (w.dropBlock b) :=
  dec_dropBlock _ (fun c w => dec_World_dropCmd w c) b w
theorem dec_World_dropTask (w : World) (t : Task) : Dec w (w.dropTask t) :=
  dec_dropTask _ (fun c w => dec_World_dropCmd w c) t w

theorem Dec.toGLe {w w' : World} (h : Dec w w') (X : List Nat) : GLe w X w' X := GLe.of_le X h.g h.len

end M.Rt
