/- Lemmas about the shell side of M.Rt: `resolveReq`, `dropReq`, `wake` (core/resolve.rs, context.rs). -/
import CruxVerif.Lemmas.RtBasic
namespace M.Rt

/-- waking never touches leaf channels or join-handle states -/
theorem wake_leaves : ∀ (f : Nat) (wk : Waker) (w : World), (wake f wk w).leaves = w.leaves ∧ (wake f wk w).metas = w.metas := by
  intro f
  induction f with
  | zero => intro wk w; cases wk <;> simp [wake, World.anomaly]
  | succ f ih =>
    intro wk w
    cases wk with
    | root etid => simp [wake]
    | task cid tid serial =>
      unfold wake
      simp only
      split
      · split <;> simp [World.modCmd]
      · rename_i pw _
        have := ih pw
        split <;> (rw [(this _).1, (this _).2]; simp [World.modCmd])

theorem World.wake_leaves (w : World) (wk : Waker) : (w.wake wk).leaves = w.leaves := (M.Rt.wake_leaves _ _ _).1

theorem World.leaf_modLeaf_self (w : World) (l : Nat) (f : Leaf → Leaf) :
    (w.modLeaf l f).leaf l = match w.leaves[l]? with | some lf => f lf | none => {} := by
  simp only [World.leaf, World.modLeaf, modifyNth_get_self]
  cases w.leaves[l]? <;> simp

theorem World.dropSender_leaf_queue (w : World) (l : Nat) : ((w.dropSender l).leaf l).queue = (w.leaf l).queue := by
  unfold World.dropSender
  simp only
  split
  · rw [World.leaf_modLeaf_self]; simp only [World.leaf]; cases w.leaves[l]? <;> simp
  · split
    · simp only [World.leaf, World.wake_leaves]
      simp only [World.modLeaf, modifyNth_get_self]
      cases w.leaves[l]? <;> simp
    · rw [World.leaf_modLeaf_self]; simp only [World.leaf]; cases w.leaves[l]? <;> simp

/-- a notification accepts no resolution -/
theorem resolve_never (v : Val) (w : World) : resolveReq .never v w = (.never, .never, w) := rfl

/-- a one-shot request accepts exactly one: it is `Never` afterwards … -/
theorem resolve_once_consumes (l : Nat) (v : Val) (w : World) :
    (resolveReq (.once l) v w).1 = .never ∧ (resolveReq (.once l) v w).2.1 = .ok := by
  unfold resolveReq; simp only; split <;> exact ⟨rfl, rfl⟩

/-- … so a second resolution is rejected and changes nothing -/
theorem resolve_once_second_rejected (l : Nat) (v v' : Val) (w : World) :
    let (r, _, w1) := resolveReq (.once l) v w
    resolveReq r v' w1 = (.never, .never, w1) := by
  simp only
  rw [(resolve_once_consumes l v w).1]
  rfl

/-- a stream request accepts a resolution iff its consumer still exists; a rejected one changes nothing -/
theorem resolve_many_iff (l : Nat) (v : Val) (w : World) :
    ((resolveReq (.many l) v w).2.1 = .ok ↔ (w.leaf l).receiverAlive = true) ∧
    ((w.leaf l).receiverAlive = false → resolveReq (.many l) v w = (.many l, .finished, w)) := by
  unfold resolveReq
  simp only
  cases h : (w.leaf l).receiverAlive <;> simp

/-- an accepted stream resolution stays a stream request and appends the value, unchanged, to the consumer's channel -/
theorem resolve_many_appends (l : Nat) (v : Val) (w : World) (hl : l < w.leaves.length)
    (h : (w.leaf l).receiverAlive = true) :
    (resolveReq (.many l) v w).1 = .many l ∧
    ((resolveReq (.many l) v w).2.2.leaf l).queue = (w.leaf l).queue ++ [v] := by
  unfold resolveReq
  simp only [h, if_true]
  refine ⟨trivial, ?_⟩
  have hget : w.leaves[l]? = some w.leaves[l] := by simp [hl]
  split
  · simp only [World.leaf, World.wake_leaves]
    simp only [World.modLeaf, modifyNth_get_self, hget]
    simp
  · simp only [World.leaf, World.modLeaf, modifyNth_get_self, hget]
    simp

/-- an accepted one-shot resolution puts exactly the value into the requester's channel -/
theorem resolve_once_delivers (l : Nat) (v : Val) (w : World) (hl : l < w.leaves.length)
    (h : (w.leaf l).receiverAlive = true) :
    ((resolveReq (.once l) v w).2.2.leaf l).queue = (w.leaf l).queue ++ [v] := by
  unfold resolveReq
  simp only [h, if_true]
  have hget : w.leaves[l]? = some w.leaves[l] := by simp [hl]
  rw [World.dropSender_leaf_queue]
  split
  · simp only [World.leaf, World.wake_leaves]
    simp only [World.modLeaf, modifyNth_get_self, hget]
    simp
  · simp only [World.leaf, World.modLeaf, modifyNth_get_self, hget]
    simp

/-- every request gets a channel of its own: a fresh leaf id, different from every existing one -/
theorem newLeaf_fresh (w : World) (wk : Option Waker) (legacy : Bool) :
    (w.newLeaf wk legacy).1 = w.leaves.length ∧ (w.newLeaf wk legacy).2.leaves.length = w.leaves.length + 1 ∧
    ∀ l, l < w.leaves.length → (w.newLeaf wk legacy).2.leaves[l]? = w.leaves[l]? := by
  refine ⟨rfl, by simp [World.newLeaf], ?_⟩
  intro l hl
  simp [World.newLeaf, List.getElem?_append_left hl]

end M.Rt
