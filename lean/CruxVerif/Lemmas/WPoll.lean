/-
"Woken means queued": during the poll of task `tid` of command `cid` with the fresh serial `s`, every waker with serial `s`
anywhere in the world is that poll's waker, so whenever `s` is flagged `woken` the task id has been pushed onto the
command's ready queue.
-/
import CruxVerif.Lemmas.PFrame
namespace M.Rt

def serOf : Waker → Option Nat
  | .task _ _ s => some s
  | .root _ => none

/-- waker `k` is the poll's own waker or has another serial -/
def okW (s : Nat) (wk0 k : Waker) : Prop := k = wk0 ∨ serOf k ≠ some s

structure UW (s : Nat) (wk0 : Waker) (w : World) : Prop where
  leaves : ∀ l k, (w.leaf l).waker = some k → okW s wk0 k
  joins : ∀ m k, k ∈ (w.getMeta m).joinWakers → okW s wk0 k
  cmds : ∀ c k, (w.cmd c).waker = some k → okW s wk0 k

/-- the state predicate carried through the poll -/
structure WP (cid tid s : Nat) (w : World) : Prop where
  u : UW s (.task cid tid s) w
  wk : s ∈ w.woken → RD cid tid w
  alive : (w.cmd cid).alive = true
  inr : cid < w.cmds.length

theorem WP.of_same {cid tid s : Nat} {w w' : World} (h : WP cid tid s w) (hl : w'.leaves = w.leaves) (hm : w'.metas = w.metas)
    (hc : w'.cmds = w.cmds) (hw : w'.woken = w.woken) : WP cid tid s w' := by
  have hcmd : ∀ c, w'.cmd c = w.cmd c := fun c => cmd_of_cmds hc c
  refine ⟨⟨fun l k hk => h.u.leaves l k (by rw [← pleaf_of_leaves hl]; exact hk),
    fun m k hk => h.u.joins m k (by rw [← getMeta_of_metas hm]; exact hk),
    fun c k hk => h.u.cmds c k (by rw [← hcmd]; exact hk)⟩, ?_, by rw [hcmd]; exact h.alive, by rw [hc]; exact h.inr⟩
  intro hs
  rw [hw] at hs
  exact rd_of_cmds hc (h.wk hs)

/-- a predicate kept by dropping a receiver is kept by dropping a host-free block -/
theorem dropBlock_hf_ind (P : World → Prop) (hP : ∀ w l, P w → P (w.dropReceiver l)) (dc : Nat → World → World) :
    ∀ (b : Block) (w : World), hostFreeB b = true → P w → P (dropBlock dc b w) := by
  have key : ∀ n (b : Block), sizeOf b ≤ n → ∀ w, hostFreeB b = true → P w → P (dropBlock dc b w) := by
    intro n
    induction n with
    | zero => intro b hb; cases b; simp at hb
    | succ n ih =>
      intro b hb w hf hw
      obtain ⟨env, cur, rest⟩ := b
      simp only [hostFreeB, Bool.and_eq_true] at hf
      simp only [dropBlock]
      rw [foldl_hostFree _ (by intro w i hi; cases i <;> simp_all [hostFreeI]) rest _ hf.2]
      simp only [Block.mk.sizeOf_spec] at hb
      cases cur with
      | idle => simpa [dropPend] using hw
      | reqDead => simpa [dropPend] using hw
      | await s => simpa [dropPend] using hw
      | selfwake s => simpa [dropPend] using hw
      | req x l => simp only [dropPend]; exact hP w l hw
      | streamWait x l c lim body => simp only [dropPend]; exact hP w l hw
      | streamBody x l c lim body inner =>
        simp only [hostFreeP, Bool.and_eq_true] at hf
        simp only [dropPend]
        refine hP _ l (ih inner ?_ w hf.1.2 hw)
        simp only [Pend.streamBody.sizeOf_spec] at hb; omega
      | join a b ad bd =>
        simp only [hostFreeP, Bool.and_eq_true] at hf
        simp only [dropPend]
        simp only [Pend.join.sizeOf_spec] at hb
        cases ad <;> cases bd <;> simp only [Bool.false_eq_true, if_false, if_true]
        · exact ih b (by omega) _ hf.1.2 (ih a (by omega) w hf.1.1 hw)
        · exact ih a (by omega) w hf.1.1 hw
        · exact ih b (by omega) w hf.1.2 hw
        · exact hw
      | select a b =>
        simp only [hostFreeP, Bool.and_eq_true] at hf
        simp only [dropPend]
        simp only [Pend.select.sizeOf_spec] at hb
        exact ih b (by omega) _ hf.1.2 (ih a (by omega) w hf.1.1 hw)
      | host c m => simp [hostFreeP] at hf
  intro b w hf hw
  exact key _ b (Nat.le_refl _) w hf hw

end M.Rt

namespace M.Rt

def setWaker (k : Waker) (lf : Leaf) : Leaf := { lf with waker := some k }
def setQueue (q : List Val) (lf : Leaf) : Leaf := { lf with queue := q }
theorem setWaker_eq (k : Waker) : (fun lf : Leaf => { lf with waker := some k }) = setWaker k := rfl
theorem setQueue_eq (q : List Val) : (fun lf : Leaf => { lf with queue := q }) = setQueue q := rfl

section
variable {cid tid s : Nat} {w : World}

/-- a change of leaf `l` whose waker afterwards is the old one or the poll's own -/
theorem WP.modLeaf (h : WP cid tid s w) (l : Nat) (f : Leaf → Leaf)
    (hf : ∀ x, (f x).waker = x.waker ∨ (f x).waker = some (.task cid tid s)) : WP cid tid s (w.modLeaf l f) := by
  refine ⟨⟨?_, h.u.joins, h.u.cmds⟩, h.wk, h.alive, h.inr⟩
  intro l' k hk
  by_cases e : l = l'
  · subst e
    rw [World.leaf_modLeaf_self] at hk
    cases hl : w.leaves[l]? with
    | none => simp [hl] at hk
    | some x =>
      simp only [hl] at hk
      rcases hf x with h1 | h1
      · rw [h1] at hk
        exact h.u.leaves l k (by simp only [World.leaf, hl, Option.getD_some]; exact hk)
      · rw [h1] at hk; cases hk; exact Or.inl rfl
  · rw [pleaf_modLeaf_ne w l f l' e] at hk
    exact h.u.leaves l' k hk

theorem wp_setWaker (l : Nat) (h : WP cid tid s w) : WP cid tid s (w.modLeaf l (setWaker (.task cid tid s))) :=
  h.modLeaf l _ (fun _ => Or.inr rfl)
theorem wp_setQueue (l : Nat) (q : List Val) (h : WP cid tid s w) : WP cid tid s (w.modLeaf l (setQueue q)) :=
  h.modLeaf l _ (fun _ => Or.inl rfl)
theorem wp_dropReceiver (l : Nat) (h : WP cid tid s w) : WP cid tid s (w.dropReceiver l) := h.modLeaf l _ (fun _ => Or.inl rfl)

theorem wp_newLeaf (lg : Bool) (h : WP cid tid s w) : WP cid tid s (w.newLeaf (some (.task cid tid s)) lg).2 := by
  refine ⟨⟨?_, h.u.joins, h.u.cmds⟩, h.wk, h.alive, h.inr⟩
  intro l k hk
  by_cases hl : l < w.leaves.length
  · rw [pleaf_newLeaf w _ lg l hl] at hk; exact h.u.leaves l k hk
  · simp only [World.leaf, World.newLeaf] at hk
    by_cases e : l = w.leaves.length
    · subst e; simp at hk; exact Or.inl hk.symm
    · rw [List.getElem?_eq_none (by simp; omega)] at hk; simp at hk

theorem wp_newMeta (h : WP cid tid s w) : WP cid tid s w.newMeta.2 := by
  refine ⟨⟨h.u.leaves, ?_, h.u.cmds⟩, h.wk, h.alive, h.inr⟩
  intro m k hk
  refine h.u.joins m k ?_
  unfold World.getMeta World.newMeta at hk
  simp only at hk
  rw [getMeta_append_default] at hk
  exact hk

theorem WP.modMeta (h : WP cid tid s w) (m0 : Nat) (f : Meta → Meta)
    (hf : ∀ x k, k ∈ (f x).joinWakers → k ∈ x.joinWakers ∨ k = .task cid tid s) : WP cid tid s (w.modMeta m0 f) := by
  refine ⟨⟨h.u.leaves, ?_, h.u.cmds⟩, h.wk, h.alive, h.inr⟩
  intro m k hk
  rw [getMeta_modMeta w m0 m f (Or.inr trivial)] at hk
  split at hk
  · rename_i e; subst e
    cases hm : w.metas[m0]? with
    | none => simp [hm] at hk
    | some x =>
      simp only [hm] at hk
      rcases hf x k hk with h1 | h1
      · exact h.u.joins m0 k (by simp only [World.getMeta, hm, Option.getD_some]; exact h1)
      · exact Or.inl h1
  · exact h.u.joins m k hk

theorem wp_abortTask (m0 : Nat) (h : WP cid tid s w) : WP cid tid s (w.modMeta m0 fun m => { m with aborted := true }) :=
  h.modMeta m0 _ (fun _ _ hk => Or.inl hk)
theorem wp_addJoinWaker (m0 : Nat) (h : WP cid tid s w) : WP cid tid s (w.modMeta m0 (addJoinWaker (.task cid tid s))) := by
  refine h.modMeta m0 _ ?_
  intro x k hk
  simp only [addJoinWaker, List.mem_append, List.mem_singleton] at hk
  exact hk

/-- a change of a command that keeps (or clears) its waker, only adds to its ready queue and keeps it alive -/
theorem WP.modCmd (h : WP cid tid s w) (c : Nat) (f : CmdSt → CmdSt) (hw : ∀ x, (f x).waker = x.waker ∨ (f x).waker = none)
    (hr : ∀ x y, y ∈ x.ready → y ∈ (f x).ready) (ha : ∀ x, (f x).alive = x.alive) : WP cid tid s (w.modCmd c f) := by
  have oth : ∀ d, c ≠ d → (w.modCmd c f).cmd d = w.cmd d := fun d hd => World.cmd_modCmd_other w c d f hd
  refine ⟨⟨h.u.leaves, h.u.joins, ?_⟩, ?_, ?_, by simp only [World.modCmd, modifyNth_length]; exact h.inr⟩
  · intro d k hk
    by_cases e : c = d
    · subst e
      rw [World.cmd_modCmd_self] at hk
      cases hc : w.cmds[c]? with
      | none => simp [hc] at hk
      | some x =>
        simp only [hc] at hk
        rcases hw x with h1 | h1
        · rw [h1] at hk; exact h.u.cmds c k (by simp only [World.cmd, hc, Option.getD_some]; exact hk)
        · rw [h1] at hk; cases hk
    · rw [oth d e] at hk; exact h.u.cmds d k hk
  · intro hs
    have := h.wk hs
    unfold RD at *
    by_cases e : c = cid
    · subst e
      rw [World.cmd_modCmd_self]
      cases hc : w.cmds[c]? with
      | none => simp [World.cmd, hc] at this
      | some x => simp only [World.cmd, hc, Option.getD_some] at this ⊢; exact hr x tid this
    · rw [oth cid e]; exact this
  · by_cases e : c = cid
    · subst e; rw [cmd_modCmd_keep (·.alive) w c f ha]; exact h.alive
    · rw [oth cid e]; exact h.alive

theorem wp_addSpawn (c : Nat) (t : Task) (h : WP cid tid s w) : WP cid tid s (w.modCmd c (addSpawn t)) :=
  h.modCmd c _ (fun _ => Or.inl rfl) (fun _ _ hy => hy) (fun _ => rfl)
theorem wp_sinkEffect (sk : Sink) (e : Eff) (h : WP cid tid s w) : WP cid tid s (w.sinkEffect sk e) := by
  cases sk with
  | cmd c => exact h.modCmd c _ (fun _ => Or.inl rfl) (fun _ _ hy => hy) (fun _ => rfl)
  | core => exact h.of_same rfl rfl rfl rfl
theorem wp_sinkEvent (sk : Sink) (e : Ev) (h : WP cid tid s w) : WP cid tid s (w.sinkEvent sk e) := by
  cases sk with
  | cmd c => exact h.modCmd c _ (fun _ => Or.inl rfl) (fun _ _ hy => hy) (fun _ => rfl)
  | core => exact h.of_same rfl rfl rfl rfl
theorem wp_execSpawn (xs : List ExecTask) (h : WP cid tid s w) : WP cid tid s ({ w with execSpawn := w.execSpawn ++ xs } : World) :=
  h.of_same rfl rfl rfl rfl
theorem wp_dropBlock (b : Block) (hb : hostFreeB b = true) (h : WP cid tid s w) : WP cid tid s (w.dropBlock b) :=
  dropBlock_hf_ind (WP cid tid s) (fun _ l hw => wp_dropReceiver l hw) _ b w hb h
end

theorem wp_wake (cid tid s : Nat) : ∀ (f : Nat) (k : Waker) (w : World), WP cid tid s w → okW s (.task cid tid s) k →
    WP cid tid s (wake f k w) := by
  intro f
  induction f with
  | zero =>
    intro k w h _
    cases k <;> exact h.of_same rfl rfl rfl rfl
  | succ f ih =>
    intro k w h hk
    cases k with
    | root e => exact h.of_same rfl rfl rfl rfl
    | task c t s' =>
      simp only [wake]
      -- the push
      have h1 : WP cid tid s (if (w.cmd c).alive = true then w.modCmd c fun y => { y with ready := y.ready ++ [t] } else w) := by
        split
        · exact h.modCmd c _ (fun _ => Or.inl rfl) (fun _ _ hy => List.mem_append_left _ hy) (fun _ => rfl)
        · exact h
      generalize hw1 : (if (w.cmd c).alive = true then w.modCmd c fun y => { y with ready := y.ready ++ [t] } else w) = w1 at h1
      -- the flag
      have hrd : s' = s → RD cid tid w1 := by
        intro es
        subst es
        have : Waker.task c t s' = Waker.task cid tid s' := by
          rcases hk with e | e
          · exact e
          · exact absurd rfl e
        cases this
        unfold RD
        subst hw1
        rw [if_pos h.alive, World.cmd_modCmd_self]
        cases hc : w.cmds[cid]? with
        | none => have := h.inr; rw [List.getElem?_eq_none_iff] at hc; omega
        | some x => simp only [List.mem_append, List.mem_singleton, or_true]
      have h2 : WP cid tid s ({ w1 with woken := s' :: w1.woken } : World) := by
        refine ⟨⟨h1.u.leaves, h1.u.joins, h1.u.cmds⟩, ?_, h1.alive, h1.inr⟩
        intro hs
        simp only [List.mem_cons] at hs
        rcases hs with hs | hs
        · exact rd_of_cmds rfl (hrd hs.symm)
        · exact rd_of_cmds rfl (h1.wk hs)
      have hwk : (w.cmd c).waker = (w1.cmd c).waker := by
        subst hw1
        split
        · refine Eq.symm (cmd_modCmd_keep (·.waker) w c _ ?_); intro _; rfl
        · rfl
      split
      · exact h2
      · rename_i pw hpw
        refine ih pw _ ?_ (h2.u.cmds c pw (by show (w1.cmd c).waker = some pw; rw [← hwk]; exact hpw))
        exact h2.modCmd c _ (fun _ => Or.inr rfl) (fun _ _ hy => hy) (fun _ => rfl)

end M.Rt

namespace M.Rt

theorem wp_World_wake {cid tid s : Nat} {w : World} (h : WP cid tid s w) : WP cid tid s (w.wake (.task cid tid s)) :=
  wp_wake cid tid s _ _ w h (Or.inl rfl)

theorem wp_abortCmd {cid tid s : Nat} {w : World} (c : Nat) (h : WP cid tid s w) : WP cid tid s (w.abortCmd c) := by
  unfold World.abortCmd
  simp only
  have h1 := wp_abortTask (w.cmd c).abortFlag h
  split
  · exact h1
  · rename_i pw hpw
    refine wp_wake cid tid s _ pw _ (h1.modCmd c _ (fun _ => Or.inr rfl) (fun _ _ hy => hy) (fun _ => rfl)) (h.u.cmds c pw hpw)

def WPGood (pn : Waker → Nat → World → Option (NextRes × World)) (cid tid s : Nat) (f : Nat) : Prop :=
  ∀ sink b w r w', pollBlock pn f (.task cid tid s) sink b w = some (r, w') → hostFreeB b = true →
    WP cid tid s w → WP cid tid s w'

theorem wpgood_succ (pn) (cid tid s : Nat) (f : Nat) (ih : WPGood pn cid tid s f) : WPGood pn cid tid s (f + 1) := by
  intro sink b w r w' h hf hw
  obtain ⟨env, cur, rest⟩ := b
  have hres := fun wk b w r w' h hf => (pollBlock_lgood pn f wk sink b w r w' h hf).2
  unfold pollBlock at h
  simp only [addJoinWaker_eq, addSpawn_eq, setWaker_eq, setQueue_eq] at h
  unfold WPGood at ih
  grind (gen := 20) (splits := 40) [wp_setWaker, wp_setQueue, wp_dropReceiver, wp_newLeaf, wp_newMeta, wp_abortTask, wp_addJoinWaker,
    wp_addSpawn, wp_sinkEffect, wp_sinkEvent, wp_execSpawn, wp_dropBlock, wp_World_wake, wp_abortCmd,
    hfB_eq, hfP_idle, hfP_reqDead, hfP_req, hfP_await, hfP_selfwake, hfP_streamWait,
    hfP_streamBody, hfP_join, hfP_select, hfP_host, hfIs_nil, hfIs_cons, hfI_host, hfI_stream, hfI_spawn, hfI_handoff,
    hfI_join, hfI_select, hfRes_pending]

theorem pollBlock_wpgood (pn) (cid tid s : Nat) : ∀ f, WPGood pn cid tid s f
  | 0 => by intro sink b w r w' h; simp [pollBlock] at h
  | f + 1 => wpgood_succ pn cid tid s f (pollBlock_wpgood pn cid tid s f)

end M.Rt
