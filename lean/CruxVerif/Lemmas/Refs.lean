/- Linearity of request channels through one poll of a host-free block (see RefsDefs). -/
import CruxVerif.Lemmas.RefsSteps
import CruxVerif.Lemmas.K2
namespace M.Rt

def resRefs : PollRes → List Nat
  | .pending b' => refsB b'
  | .ready _ => []

/-- the continuation of a host-free block is host-free -/
def hfRes : PollRes → Prop
  | .pending b' => hostFreeB b' = true
  | .ready _ => True

def LGood (pn : Waker → Nat → World → Option (NextRes × World)) (f : Nat) : Prop :=
  ∀ wk sink b w r w', pollBlock pn f wk sink b w = some (r, w') → hostFreeB b = true →
    Le sink w (refsB b) w' (resRefs r) ∧ hfRes r

theorem lgood_zero (pn) : LGood pn 0 := by
  intro wk sink b w r w' h; simp [pollBlock] at h

theorem refs_idle (env : Env) (rest : List Instr) : refsB (.mk env .idle rest) = [] := by simp [refsB, refsP]

theorem LGood.cont {pn f} (ih : LGood pn f) {wk : Waker} {sink : Sink} {env : Env} {rest : List Instr} {w w1 : World}
    {X : List Nat} {r : PollRes} {w' : World} (h1 : Le sink w X w1 []) (hf : hostFreeIs rest = true)
    (h : pollBlock pn f wk sink (.mk env .idle rest) w1 = some (r, w')) : Le sink w X w' (resRefs r) ∧ hfRes r := by
  have := ih wk sink _ w1 r w' h (by simp [hostFreeB, hostFreeP, hf])
  rw [refs_idle] at this
  exact ⟨h1.trans this.1, this.2⟩

theorem len_sinkEvent (w : World) (s : Sink) (e : Ev) : (w.sinkEvent s e).leaves.length = w.leaves.length := by
  cases s <;> rfl
theorem len_sinkEffect (w : World) (s : Sink) (e : Eff) : (w.sinkEffect s e).leaves.length = w.leaves.length := by
  cases s <;> rfl

/-- giving all references up while the world changes only outside the spawn queues -/
theorem Le.same_drop {sink : Sink} {w w' : World} (X : List Nat) (hs : spawnRefs sink w' = spawnRefs sink w)
    (hl : w'.leaves.length = w.leaves.length) : Le sink w X w' [] :=
  (Le.of_same X hs hl).drop (fun l => by simp)

/-- a new request: one new leaf, referenced once -/
theorem Le.alloc (sink : Sink) (w w' : World) (hs : spawnRefs sink w' = spawnRefs sink w)
    (hl : w'.leaves.length = w.leaves.length + 1) : Le sink w [] w' [w.leaves.length] := by
  refine ⟨by omega, ?_⟩
  intro l
  rw [hs]
  unfold fresh
  by_cases h : l = w.leaves.length
  · subst h; simp [hl]; omega
  · have : (w.leaves.length == l) = false := by simp; omega
    simp [List.count_cons, this]

theorem count_flatten_append_singleton {α : Type} [BEq α] [LawfulBEq α] (L : List (List α)) (x : List α) (a : α) :
    (L ++ [x]).flatten.count a = L.flatten.count a + x.count a := by
  simp [List.flatten_append, List.count_append]

/-- spawning into the command's own queue adds at most the new task's references -/
theorem sr_spawn_cmd (w : World) (c : Nat) (t : Task) (l : Nat) :
    (spawnRefs (.cmd c) (w.modCmd c fun x => { x with spawnQ := x.spawnQ ++ [t] })).count l ≤
      (spawnRefs (.cmd c) w).count l + (refsB t.fut).count l := by
  simp only [spawnRefs]
  rw [World.cmd_modCmd_self]
  simp only [World.cmd]
  cases w.cmds[c]? with
  | none => simp
  | some x => simp [List.map_append, List.flatten_append, List.count_append]

theorem sr_spawn_core (w : World) (b : Block) (l : Nat) :
    (spawnRefs .core { w with execSpawn := w.execSpawn ++ [.legacy b] }).count l =
      (spawnRefs .core w).count l + (refsB b).count l := by
  simp [spawnRefs, List.map_append, List.flatten_append, List.count_append, execRefs]

/-- handing a freshly created request to a task spawned into the command's queue: the new leaf is referenced once -/
theorem Le.handoff_cmd (w W : World) (c : Nat) (t : Task) (hWs : spawnRefs (.cmd c) W = spawnRefs (.cmd c) w)
    (hWl : W.leaves.length = w.leaves.length + 1) (ht : refsB t.fut = [w.leaves.length]) :
    Le (.cmd c) w [] (W.modCmd c fun cs => { cs with spawnQ := cs.spawnQ ++ [t] }) [] := by
  have hl : (W.modCmd c fun cs => { cs with spawnQ := cs.spawnQ ++ [t] }).leaves.length = w.leaves.length + 1 := hWl
  refine ⟨by omega, ?_⟩
  intro l
  have h1 := sr_spawn_cmd W c t l
  rw [hWs, ht] at h1
  unfold fresh
  rw [hl]
  by_cases h : l = w.leaves.length
  · subst h; simp at h1 ⊢; omega
  · have : (w.leaves.length == l) = false := by simp; omega
    simp [List.count_cons, this] at h1 ⊢
    omega

theorem Le.handoff_core (w W : World) (b : Block) (hWs : spawnRefs .core W = spawnRefs .core w)
    (hWl : W.leaves.length = w.leaves.length + 1) (ht : refsB b = [w.leaves.length]) :
    Le .core w [] { W with execSpawn := W.execSpawn ++ [.legacy b] } [] := by
  have hl : ({ W with execSpawn := W.execSpawn ++ [.legacy b] } : World).leaves.length = w.leaves.length + 1 := hWl
  refine ⟨by omega, ?_⟩
  intro l
  have h1 := sr_spawn_core W b l
  rw [hWs, ht] at h1
  unfold fresh
  rw [hl]
  by_cases h : l = w.leaves.length
  · subst h; simp at h1 ⊢; omega
  · have : (w.leaves.length == l) = false := by simp; omega
    simp [List.count_cons, this] at h1 ⊢
    omega

/-- one side of a `join!`: polled unless done; what it still references afterwards -/
theorem lhalf {pn f} (ih : LGood pn f) {wk : Waker} {sink : Sink} (d : Bool) (x : Block) (env : Env) (w : World)
    (rx : PollRes) (w1 : World)
    (hx : (if d = true then some (PollRes.ready env, w) else pollBlock pn f wk sink x w) = some (rx, w1))
    (hf : hostFreeB x = true) : Le sink w (if d then [] else refsB x) w1 (resRefs rx) ∧ hfRes rx := by
  cases d with
  | true =>
    simp only [if_true, Option.some.injEq, Prod.mk.injEq] at hx
    obtain ⟨rfl, rfl⟩ := hx
    exact ⟨Le.refl _ _ _, trivial⟩
  | false =>
    simp only [Bool.false_eq_true, if_false] at hx ⊢
    exact ih wk sink x w rx w1 hx hf

theorem lgood_succ (pn) (f : Nat) (ih : LGood pn f) : LGood pn (f + 1) := by
  intro wk sink b w r w' h hf
  obtain ⟨env, cur, rest⟩ := b
  unfold pollBlock at h
  simp only at h
  simp only [hostFreeB, Bool.and_eq_true] at hf
  obtain ⟨hfc, hfr⟩ := hf
  cases cur with
  | idle =>
    rw [refs_idle]
    cases rest with
    | nil =>
      simp only [Option.some.injEq, Prod.mk.injEq] at h
      obtain ⟨rfl, rfl⟩ := h
      exact ⟨Le.refl _ _ _, trivial⟩
    | cons i rest' =>
      simp only [hostFreeIs, Bool.and_eq_true] at hfr
      obtain ⟨hfi, hfr'⟩ := hfr
      cases i with
      | emit tag e => exact ih.cont (Le.same_drop [] (sr_sinkEvent sink sink w _) (len_sinkEvent w sink _)) hfr' h
      | notify n e => exact ih.cont (Le.same_drop [] (sr_sinkEffect sink sink w _) (len_sinkEffect w sink _)) hfr' h
      | req x n e =>
        simp only [Option.some.injEq, Prod.mk.injEq] at h
        obtain ⟨rfl, rfl⟩ := h
        refine ⟨?_, by simp [hfRes, hostFreeB, hostFreeP, hfr']⟩
        simp only [resRefs, refsB, refsP]
        refine Le.alloc sink w _ ?_ ?_
        · rw [sr_sinkEffect, sr_newLeaf]
        · rw [len_sinkEffect]; simp [World.newLeaf]
      | stream x n e limit body =>
        simp only [Option.some.injEq, Prod.mk.injEq] at h
        obtain ⟨rfl, rfl⟩ := h
        simp only [hostFreeI] at hfi
        refine ⟨?_, by simp [hfRes, hostFreeB, hostFreeP, hfr', hfi]⟩
        simp only [resRefs, refsB, refsP]
        refine Le.alloc sink w _ ?_ ?_
        · rw [sr_sinkEffect, sr_newLeaf]
        · rw [len_sinkEffect]; simp [World.newLeaf]
      | spawn hd body =>
        cases sink with
        | cmd c =>
          simp only at h
          refine ih.cont ?_ hfr' h
          refine ⟨Nat.le_refl _, ?_⟩
          intro l
          have := sr_spawn_cmd w.newMeta.2 c ⟨w.newMeta.1, .mk env .idle body⟩ l
          rw [refs_idle] at this
          simp only [List.count_nil, Nat.add_zero, Nat.zero_add] at this ⊢
          have h2 : spawnRefs (.cmd c) w.newMeta.2 = spawnRefs (.cmd c) w := sr_newMeta _ w
          rw [h2] at this
          omega
        | core =>
          simp only at h
          refine ih.cont ?_ hfr' h
          refine ⟨Nat.le_refl _, ?_⟩
          intro l
          have := sr_spawn_core w (.mk env .idle body) l
          rw [refs_idle] at this
          simp only [List.count_nil, Nat.add_zero, Nat.zero_add] at this ⊢
          omega
      | handoff x n e body =>
        -- the new leaf is referenced once: by the spawned task, not by the continuation
        cases sink with
        | cmd c =>
          simp only at h
          refine ih.cont ?_ hfr' h
          refine Le.handoff_cmd w _ c _ ?_ ?_ ?_
          · rw [sr_newMeta, sr_sinkEffect, sr_newLeaf]
          · show (World.sinkEffect _ _ _).leaves.length = _
            rw [len_sinkEffect]; simp [World.newLeaf]
          · simp [refsB, refsP, World.newLeaf]
        | core =>
          simp only at h
          refine ih.cont ?_ hfr' h
          refine Le.handoff_core w _ _ ?_ ?_ ?_
          · rw [sr_sinkEffect, sr_newLeaf]
          · rw [len_sinkEffect]; simp [World.newLeaf]
          · simp [refsB, refsP, World.newLeaf]
      | await hd =>
        cases hh : env.handle hd with
        | none => simp only [hh] at h; exact ih.cont (Le.refl _ _ _) hfr' h
        | some s =>
          simp only [hh] at h
          have := ih wk sink _ w r w' h (by simp [hostFreeB, hostFreeP, hfr'])
          exact ⟨by simpa [refsB, refsP] using this.1, this.2⟩
      | abortTask hd =>
        cases hh : env.handle hd with
        | none => simp only [hh] at h; exact ih.cont (Le.refl _ _ _) hfr' h
        | some s =>
          simp only [hh] at h
          refine ih.cont ?_ hfr' h
          exact Le.same_drop [] (sr_modMeta sink w s _) rfl
      | join a b =>
        simp only [hostFreeI, Bool.and_eq_true] at hfi
        have := ih wk sink _ w r w' h (by simp [hostFreeB, hostFreeP, hfr', hfi.1, hfi.2])
        exact ⟨by simpa [refsB, refsP] using this.1, this.2⟩
      | select a b =>
        simp only [hostFreeI, Bool.and_eq_true] at hfi
        have := ih wk sink _ w r w' h (by simp [hostFreeB, hostFreeP, hfr', hfi.1, hfi.2])
        exact ⟨by simpa [refsB, refsP] using this.1, this.2⟩
      | selfwake k =>
        have := ih wk sink _ w r w' h (by simp [hostFreeB, hostFreeP, hfr'])
        exact ⟨by simpa [refsB, refsP] using this.1, this.2⟩
      | abortCmd name =>
        simp only at h
        split at h
        · exact ih.cont (Le.same_drop [] (sr_abortCmd sink w _) (len_abortCmd w _)) hfr' h
        · exact ih.cont (Le.refl _ _ _) hfr' h
      | host c m => simp [hostFreeI] at hfi
  | req x l =>
    simp only at h
    have hX : refsB (.mk env (.req x l) rest) = [l] := by simp [refsB, refsP]
    rw [hX]
    split at h
    · exact ih.cont (Le.same_drop [l] (sr_dropReceiver sink w l) (len_dropReceiver w l)) hfr h
    · split at h
      · simp only [Option.some.injEq, Prod.mk.injEq] at h
        obtain ⟨rfl, rfl⟩ := h
        refine ⟨?_, by simp [hfRes, hostFreeB, hostFreeP, hfr]⟩
        simp only [resRefs, refsB, refsP]
        exact Le.same_drop [l] (sr_dropReceiver sink w l) (len_dropReceiver w l)
      · simp only [Option.some.injEq, Prod.mk.injEq] at h
        obtain ⟨rfl, rfl⟩ := h
        refine ⟨?_, by simp [hfRes, hostFreeB, hostFreeP, hfr]⟩
        simp only [resRefs, refsB, refsP]
        exact Le.of_same [l] (sr_modLeaf sink w l _) (len_modLeaf w l _)
  | reqDead =>
    simp only [Option.some.injEq, Prod.mk.injEq] at h
    obtain ⟨rfl, rfl⟩ := h
    exact ⟨Le.refl _ _ _, by simp [hfRes, hostFreeB, hostFreeP, hfr]⟩
  | streamWait x l count limit body =>
    simp only [hostFreeP] at hfc
    simp only at h
    have hX : refsB (.mk env (.streamWait x l count limit body) rest) = [l] := by simp [refsB, refsP]
    rw [hX]
    split at h
    · exact ih.cont (Le.same_drop [l] (sr_dropReceiver sink w l) (len_dropReceiver w l)) hfr h
    · split at h
      · rename_i v q _
        have h1 : Le sink w [l] (w.modLeaf l fun lf => { lf with queue := q }) [l] :=
          Le.of_same [l] (sr_modLeaf sink w l _) (len_modLeaf w l _)
        have h2 := ih wk sink _ _ r w' h (by simp [hostFreeB, hostFreeP, hfr, hfc])
        have hY : refsB (.mk env (.streamBody x l count limit body (.mk (env.set x v) .idle body)) rest) = [l] := by
          simp [refsB, refsP]
        rw [hY] at h2
        exact ⟨h1.trans h2.1, h2.2⟩
      · split at h
        · exact ih.cont (Le.same_drop [l] (sr_dropReceiver sink w l) (len_dropReceiver w l)) hfr h
        · simp only [Option.some.injEq, Prod.mk.injEq] at h
          obtain ⟨rfl, rfl⟩ := h
          refine ⟨?_, by simp [hfRes, hostFreeB, hostFreeP, hfr, hfc]⟩
          simp only [resRefs, refsB, refsP]
          exact Le.of_same [l] (sr_modLeaf sink w l _) (len_modLeaf w l _)
  | streamBody x l count limit body inner =>
    simp only [hostFreeP, Bool.and_eq_true] at hfc
    simp only at h
    have hX : refsB (.mk env (.streamBody x l count limit body inner) rest) = [l] ++ refsB inner ++ [] := by
      simp [refsB, refsP]
    rw [hX]
    cases hp : pollBlock pn f wk sink inner w with
    | none => simp [hp] at h
    | some res =>
      obtain ⟨ri, w1⟩ := res
      have hih := ih wk sink inner w ri w1 hp hfc.2
      have hi := hih.1.frame [l] []
      cases ri with
      | pending inner' =>
        simp only [hp, Option.some.injEq, Prod.mk.injEq] at h
        obtain ⟨rfl, rfl⟩ := h
        have : resRefs (.pending (.mk env (.streamBody x l count limit body inner') rest)) = [l] ++ refsB inner' ++ [] := by
          simp [resRefs, refsB, refsP]
        rw [this]
        have hh : hostFreeB inner' = true := hih.2
        exact ⟨hi, by simp [hfRes, hostFreeB, hostFreeP, hfr, hfc.1, hh]⟩
      | ready env' =>
        simp only [hp] at h
        have h2 := ih wk sink _ w1 r w' h (by simp [hostFreeB, hostFreeP, hfr, hfc.1])
        have hY : refsB (.mk env' (.streamWait x l (count + 1) limit body) rest) = [l] ++ resRefs (.ready env') ++ [] := by
          simp [refsB, refsP, resRefs]
        rw [hY] at h2
        exact ⟨hi.trans h2.1, h2.2⟩
  | await s =>
    simp only at h
    have hX : refsB (.mk env (.await s) rest) = [] := by simp [refsB, refsP]
    rw [hX]
    split at h
    · exact ih.cont (Le.refl _ _ _) hfr h
    · split at h
      · simp only [Option.some.injEq, Prod.mk.injEq] at h
        obtain ⟨rfl, rfl⟩ := h
        refine ⟨?_, by simp [hfRes, hostFreeB, hostFreeP, hfr]⟩
        simp only [resRefs, refsB, refsP]
        exact Le.of_same [] (sr_modMeta sink w s _) rfl
      · exact ih.cont (Le.refl _ _ _) hfr h
  | join a b ad bd =>
    simp only [hostFreeP, Bool.and_eq_true] at hfc
    simp only at h
    have hX : refsB (.mk env (.join a b ad bd) rest) = (if ad then [] else refsB a) ++ (if bd then [] else refsB b) := by
      simp [refsB, refsP]
    rw [hX]
    split at h
    · simp at h
    · rename_i ra w1 hra
      split at h
      · simp at h
      · rename_i rb w2 hrb
        have ha := lhalf ih ad a env w ra w1 hra hfc.1
        have hb := lhalf ih bd b env w1 rb w2 hrb hfc.2
        have h1 := ha.1.frame [] (if bd then [] else refsB b)
        have h2 := hb.1.frame (resRefs ra) []
        simp only [List.nil_append, List.append_nil] at h1 h2
        have h12 := h1.trans h2
        cases ra with
        | pending a' =>
          cases rb with
          | pending b' =>
            simp only [Bool.and_self, Bool.false_eq_true, if_false, Option.some.injEq, Prod.mk.injEq] at h
            obtain ⟨rfl, rfl⟩ := h
            have hha : hostFreeB a' = true := ha.2
            have hhb : hostFreeB b' = true := hb.2
            exact ⟨by simpa [resRefs, refsB, refsP] using h12, by simp [hfRes, hostFreeB, hostFreeP, hfr, hha, hhb]⟩
          | ready envb =>
            simp only [Bool.false_and, Bool.false_eq_true, if_false, Option.some.injEq, Prod.mk.injEq] at h
            obtain ⟨rfl, rfl⟩ := h
            have hha : hostFreeB a' = true := ha.2
            exact ⟨by simpa [resRefs, refsB, refsP] using h12, by simp [hfRes, hostFreeB, hostFreeP, hfr, hha, hfc.2]⟩
        | ready enva =>
          cases rb with
          | pending b' =>
            simp only [Bool.and_false, Bool.false_eq_true, if_false, Option.some.injEq, Prod.mk.injEq] at h
            obtain ⟨rfl, rfl⟩ := h
            have hhb : hostFreeB b' = true := hb.2
            exact ⟨by simpa [resRefs, refsB, refsP] using h12, by simp [hfRes, hostFreeB, hostFreeP, hfr, hhb, hfc.1]⟩
          | ready envb =>
            simp only [Bool.and_self, if_true] at h
            simp only [resRefs, List.append_nil] at h12
            exact ih.cont h12 hfr h
  | select a b =>
    simp only [hostFreeP, Bool.and_eq_true] at hfc
    simp only at h
    have hX : refsB (.mk env (.select a b) rest) = refsB a ++ refsB b := by simp [refsB, refsP]
    rw [hX]
    cases hp : pollBlock pn f wk sink a w with
    | none => simp [hp] at h
    | some res =>
      obtain ⟨ra, w1⟩ := res
      have hia := ih wk sink a w ra w1 hp hfc.1
      have h1 := hia.1.frame [] (refsB b)
      simp only [List.nil_append] at h1
      cases ra with
      | ready enva =>
        simp only [hp] at h
        have hd := World.dropBlock_same sink w1 b hfc.2
        have h2 : Le sink w1 (resRefs (.ready enva) ++ refsB b) (w1.dropBlock b) [] := Le.same_drop _ hd.1 hd.2
        exact ih.cont (h1.trans h2) hfr h
      | pending a' =>
        simp only [hp] at h
        have hfa : hostFreeB a' = true := hia.2
        cases hq : pollBlock pn f wk sink b w1 with
        | none => simp [hq] at h
        | some res2 =>
          obtain ⟨rb, w2⟩ := res2
          have hib := ih wk sink b w1 rb w2 hq hfc.2
          have h2 := hib.1.frame (refsB a') []
          simp only [List.append_nil] at h2
          simp only [resRefs] at h1
          have h12 := h1.trans h2
          cases rb with
          | ready envb =>
            simp only [hq] at h
            have hd := World.dropBlock_same sink w2 a' hfa
            have h3 : Le sink w2 (refsB a' ++ resRefs (.ready envb)) (w2.dropBlock a') [] := Le.same_drop _ hd.1 hd.2
            exact ih.cont (h12.trans h3) hfr h
          | pending b' =>
            simp only [hq, Option.some.injEq, Prod.mk.injEq] at h
            obtain ⟨rfl, rfl⟩ := h
            have hhb : hostFreeB b' = true := hib.2
            exact ⟨by simpa [resRefs, refsB, refsP] using h12, by simp [hfRes, hostFreeB, hostFreeP, hfr, hfa, hhb]⟩
  | selfwake k =>
    simp only at h
    have hX : refsB (.mk env (.selfwake k) rest) = [] := by simp [refsB, refsP]
    rw [hX]
    split at h
    · exact ih.cont (Le.refl _ _ _) hfr h
    · simp only [Option.some.injEq, Prod.mk.injEq] at h
      obtain ⟨rfl, rfl⟩ := h
      refine ⟨?_, by simp [hfRes, hostFreeB, hostFreeP, hfr]⟩
      simp only [resRefs, refsB, refsP]
      exact Le.of_same [] (sr_World_wake sink w wk) (len_wake w wk)
  | host c m => simp [hostFreeP] at hfc

end M.Rt

namespace M.Rt

theorem pollBlock_lgood (pn) : ∀ f, LGood pn f
  | 0 => lgood_zero pn
  | f + 1 => lgood_succ pn f (pollBlock_lgood pn f)

/-- **Request channels are linear through a poll.** One poll of a host-free block, any fuel, any world: for every leaf id,
    the number of references held by the block and by the tasks in its spawn queue does not grow, except by at most one
    for a leaf allocated during the poll. -/
theorem pollBlock_linear (pn : Waker → Nat → World → Option (NextRes × World)) (f : Nat) (wk : Waker) (sink : Sink)
    (b : Block) (w : World) (r : PollRes) (w' : World) (h : pollBlock pn f wk sink b w = some (r, w'))
    (hf : hostFreeB b = true) : Le sink w (refsB b) w' (resRefs r) :=
  (pollBlock_lgood pn f wk sink b w r w' h hf).1

end M.Rt
