/-
K2 — "no lost wake-up at a leaf", definitions.

For a task block that hosts no command (`hostFree`: every block of a user task in the DSL; hosting blocks are created by
the combinators only), one poll with waker `wk` leaves the block *parked* (`ParkedB`): every point it is suspended at either
holds `wk` — a request / stream leaf has `wk` in its waker slot, an awaited join handle has `wk` in its waker queue, a
self-waking future has set `woken` — or is a request whose channel has closed (`reqDead`).
`Mono wk w w'` is the frame of one poll: waker slots of existing leaves keep their content or receive `wk`, join-handle
queues and the `woken` set only grow.
-/
import CruxVerif.Lemmas.Resolve
namespace M.Rt

mutual
def hostFreeI : Instr → Bool
  | .host _ _ => false
  | .stream _ _ _ _ body => hostFreeIs body
  | .spawn _ body => hostFreeIs body
  | .handoff _ _ _ body => hostFreeIs body
  | .join a b => hostFreeIs a && hostFreeIs b
  | .select a b => hostFreeIs a && hostFreeIs b
  | _ => true
def hostFreeIs : List Instr → Bool
  | [] => true
  | i :: is => hostFreeI i && hostFreeIs is
end

mutual
def hostFreeB : Block → Bool
  | .mk _ cur rest => hostFreeP cur && hostFreeIs rest
def hostFreeP : Pend → Bool
  | .host _ _ => false
  | .streamWait _ _ _ _ body => hostFreeIs body
  | .streamBody _ _ _ _ body inner => hostFreeIs body && hostFreeB inner
  | .join a b _ _ => hostFreeB a && hostFreeB b
  | .select a b => hostFreeB a && hostFreeB b
  | _ => true
end

/-- every join-handle id bound in the environment exists -/
def envOk (nm : Nat) (env : Env) : Bool := env.handles.all fun p => decide (p.2 < nm)

-- every leaf id (< n) and join-handle id (< nm) mentioned by the block exists
mutual
def inRangeB (n nm : Nat) : Block → Bool
  | .mk env cur _ => envOk nm env && inRangeP n nm cur
def inRangeP (n nm : Nat) : Pend → Bool
  | .req _ l => decide (l < n)
  | .streamWait _ l _ _ _ => decide (l < n)
  | .streamBody _ l _ _ _ inner => decide (l < n) && inRangeB n nm inner
  | .await s => decide (s < nm)
  | .join a b _ _ => inRangeB n nm a && inRangeB n nm b
  | .select a b => inRangeB n nm a && inRangeB n nm b
  | _ => true
end

def wokenBy (wk : Waker) (w : World) : Prop :=
  match wk with
  | .task _ _ s => s ∈ w.woken
  | .root _ => True

mutual
def ParkedB (wk : Waker) (w : World) : Block → Prop
  | .mk _ cur _ => ParkedP wk w cur
def ParkedP (wk : Waker) (w : World) : Pend → Prop
  | .idle => False
  | .req _ l => l < w.leaves.length ∧ (w.leaf l).waker = some wk
  | .reqDead => True
  | .streamWait _ l _ _ _ => l < w.leaves.length ∧ (w.leaf l).waker = some wk
  | .streamBody _ _ _ _ _ inner => ParkedB wk w inner
  | .await s => wk ∈ (w.getMeta s).joinWakers
  | .join a b ad bd => (ad = false → ParkedB wk w a) ∧ (bd = false → ParkedB wk w b)
  | .select a b => ParkedB wk w a ∧ ParkedB wk w b
  | .selfwake _ => wokenBy wk w
  | .host _ _ => True
end

-- the block is suspended only at requests whose channel has closed: nothing can ever wake it
mutual
def deadOnlyB : Block → Bool
  | .mk _ cur _ => deadOnlyP cur
def deadOnlyP : Pend → Bool
  | .reqDead => true
  | .streamBody _ _ _ _ _ inner => deadOnlyB inner
  | .join a b ad bd => (ad || deadOnlyB a) && (bd || deadOnlyB b)
  | .select a b => deadOnlyB a && deadOnlyB b
  | .host _ _ => true
  | _ => false
end

structure Mono (wk : Waker) (w w' : World) : Prop where
  len : w.leaves.length ≤ w'.leaves.length
  mlen : w.metas.length ≤ w'.metas.length
  leaf : ∀ l, l < w.leaves.length → (w'.leaf l).waker = (w.leaf l).waker ∨ (w'.leaf l).waker = some wk
  joins : ∀ s, wk ∈ (w.getMeta s).joinWakers → wk ∈ (w'.getMeta s).joinWakers
  woken : ∀ s, s ∈ w.woken → s ∈ w'.woken

theorem Mono.refl (wk : Waker) (w : World) : Mono wk w w :=
  ⟨Nat.le_refl _, Nat.le_refl _, fun _ _ => Or.inl rfl, fun _ h => h, fun _ h => h⟩

theorem Mono.trans {wk : Waker} {w1 w2 w3 : World} (h12 : Mono wk w1 w2) (h23 : Mono wk w2 w3) : Mono wk w1 w3 := by
  refine ⟨Nat.le_trans h12.len h23.len, Nat.le_trans h12.mlen h23.mlen, ?_, fun s h => h23.joins s (h12.joins s h), fun s h => h23.woken s (h12.woken s h)⟩
  intro l hl
  have h2 : l < w2.leaves.length := Nat.lt_of_lt_of_le hl h12.len
  rcases h23.leaf l h2 with e | e
  · rw [e]; exact h12.leaf l hl
  · exact Or.inr e

/-- a world change that touches neither leaves, nor join-handle states, nor `woken` -/
theorem Mono.of_same {wk : Waker} {w w' : World} (hl : w'.leaves = w.leaves) (hm : w'.metas = w.metas)
    (hw : w'.woken = w.woken) : Mono wk w w' := by
  refine ⟨by rw [hl]; exact Nat.le_refl _, by rw [hm]; exact Nat.le_refl _, ?_, ?_, ?_⟩
  · intro l _; left; simp [World.leaf, hl]
  · intro s h; simpa [World.getMeta, hm] using h
  · intro s h; simpa [hw] using h

end M.Rt
