/- `QS` for the primitive operations: wakes, aborts, sender drops, resolve / drop from the shell. -/
import CruxVerif.Lemmas.QDefs
namespace M.Rt

theorem wake_root (f : Nat) (etid : Nat) (w : World) : wake f (.root etid) w = { w with execReady := w.execReady ++ [etid] } := by
  cases f <;> rfl

theorem QS.execReady_append {me : Option Nat} (w : World) (l : List Nat) : QS me w { w with execReady := w.execReady ++ l } :=
  QS.of_fields rfl rfl (fun e h => List.mem_append_left _ h) (fun _ h => h)

/-- taking command `c`'s waker and waking it, after any change `g` of `c` that keeps liveness, flag and waker -/
theorem wake_qs (me : Option Nat) : ∀ (f : Nat) (wk : Waker) (w : World), QS me w (wake f wk w) := by
  intro f
  induction f with
  | zero =>
    intro wk w
    cases wk with
    | root e => rw [wake_root]; exact QS.execReady_append w _
    | task c t s => exact QS.of_fields rfl rfl (fun _ h => h) (fun _ h => h)
  | succ f ih =>
    intro wk w
    cases wk with
    | root e => rw [wake_root]; exact QS.execReady_append w _
    | task c tid s =>
      simp only [wake]
      -- the state after the push and the `woken` flag
      generalize hw2 : ({ (if (w.cmd c).alive = true then w.modCmd c fun c => { c with ready := c.ready ++ [tid] } else w) with
        woken := s :: (if (w.cmd c).alive = true then w.modCmd c fun c => { c with ready := c.ready ++ [tid] } else w).woken } : World) = w2
      have hcmd2 : ∀ d, c ≠ d → w2.cmd d = w.cmd d := by
        intro d hd; subst hw2
        split
        · exact World.cmd_modCmd_other w c d _ hd
        · rfl
      have hk : ∀ {β : Type} (g : CmdSt → β), (∀ x r, g { x with ready := r } = g x) → g (w2.cmd c) = g (w.cmd c) := by
        intro β g hg; subst hw2
        split
        · exact cmd_modCmd_keep g w c _ (fun x => hg x _)
        · rfl
      have hlen2 : w2.cmds.length = w.cmds.length := by
        subst hw2; split
        · simp [World.modCmd, modifyNth_length]
        · rfl
      have hmeta2 : w2.metas = w.metas := by subst hw2; split <;> rfl
      have hr2 : w2.execReady = w.execReady := by subst hw2; split <;> rfl
      have hs2 : w2.execSpawn = w.execSpawn := by subst hw2; split <;> rfl
      cases hwk : (w.cmd c).waker with
      | none =>
        simp only
        refine ⟨hlen2, ?_, ?_, ?_, by rw [hr2]; exact fun _ h => h, by rw [hs2]; exact fun _ h => h, ?_, ?_, ?_⟩
        · intro d; by_cases e : c = d
          · subst e; exact hk (·.alive) (fun _ _ => rfl)
          · rw [hcmd2 d e]
        · intro d; by_cases e : c = d
          · subst e; exact hk (·.abortFlag) (fun _ _ => rfl)
          · rw [hcmd2 d e]
        · intro s' h; simpa [World.getMeta, hmeta2] using h
        · intro d; by_cases e : c = d
          · subst e; exact Or.inl (hk (·.waker) (fun _ _ => rfl))
          · rw [hcmd2 d e]; exact Or.inl rfl
        · intro d _; by_cases e : c = d
          · subst e
            exact ⟨hk (·.tasks) (fun _ _ => rfl), hk (·.spawnQ) (fun _ _ => rfl), hk (·.effects) (fun _ _ => rfl),
              hk (·.events) (fun _ _ => rfl)⟩
          · rw [hcmd2 d e]; exact ⟨rfl, rfl, rfl, rfl⟩
        · intro d _; by_cases e : c = d
          · subst e; exact Or.inr ((hk (·.waker) (fun _ _ => rfl)).trans hwk)
          · rw [hcmd2 d e]; exact Or.inl rfl
      | some pw =>
        simp only
        generalize hw3 : (w2.modCmd c fun c => { c with waker := none }) = w3
        have hcmd3 : ∀ d, c ≠ d → w3.cmd d = w.cmd d := by
          intro d hd; subst hw3; rw [World.cmd_modCmd_other w2 c d _ hd]; exact hcmd2 d hd
        have hk3 : ∀ {β : Type} (g : CmdSt → β), (∀ x r, g { x with ready := r } = g x) → (∀ x k, g { x with waker := k } = g x) →
            g (w3.cmd c) = g (w.cmd c) := by
          intro β g hg hg2; subst hw3
          rw [cmd_modCmd_keep g w2 c _ (fun x => hg2 x _)]; exact hk g hg
        have hwk3 : (w3.cmd c).waker = none := by
          subst hw3; exact cmd_modCmd_const (·.waker) none w2 c _ (fun _ => rfl) rfl
        have hlen3 : w3.cmds.length = w.cmds.length := by subst hw3; simp [World.modCmd, modifyNth_length, hlen2]
        have hmeta3 : w3.metas = w.metas := by subst hw3; exact hmeta2
        have hr3 : w3.execReady = w.execReady := by subst hw3; exact hr2
        have hs3 : w3.execSpawn = w.execSpawn := by subst hw3; exact hs2
        have q := ih pw w3
        refine ⟨q.len.trans hlen3, ?_, ?_, ?_, ?_, ?_, ?_, ?_, ?_⟩
        · intro d; rw [q.alive d]; by_cases e : c = d
          · subst e; exact hk3 (·.alive) (fun _ _ => rfl) (fun _ _ => rfl)
          · rw [hcmd3 d e]
        · intro d; rw [q.flag d]; by_cases e : c = d
          · subst e; exact hk3 (·.abortFlag) (fun _ _ => rfl) (fun _ _ => rfl)
          · rw [hcmd3 d e]
        · intro s' h; exact q.metaA s' (by simpa [World.getMeta, hmeta3] using h)
        · intro e h; exact q.ready e (by rw [hr3]; exact h)
        · intro t h; exact q.spawn t (by rw [hs3]; exact h)
        · intro d; by_cases e : c = d
          · subst e
            have hn : ((wake f pw w3).cmd c).waker = none := by
              rcases q.waker c with h | h
              · exact h.trans hwk3
              · exact h.1
            refine Or.inr ⟨hn, ?_⟩
            intro etid he
            rw [hwk] at he
            cases he
            rw [wake_root]
            simp
          · rcases q.waker d with h | h
            · exact Or.inl (h.trans (by rw [hcmd3 d e]))
            · exact Or.inr ⟨h.1, fun etid he => h.2 etid (by rw [hcmd3 d e]; exact he)⟩
        · intro d hd
          have qo := q.other d hd
          by_cases e : c = d
          · subst e
            exact ⟨qo.1.trans (hk3 (·.tasks) (fun _ _ => rfl) (fun _ _ => rfl)),
              qo.2.1.trans (hk3 (·.spawnQ) (fun _ _ => rfl) (fun _ _ => rfl)),
              qo.2.2.1.trans (hk3 (·.effects) (fun _ _ => rfl) (fun _ _ => rfl)),
              qo.2.2.2.trans (hk3 (·.events) (fun _ _ => rfl) (fun _ _ => rfl))⟩
          · rw [hcmd3 d e] at qo; exact qo
        · intro d hd; by_cases e : c = d
          · subst e
            rcases q.waker c with h | h
            · exact Or.inr (h.trans hwk3)
            · exact Or.inr h.1
          · rcases q.work d hd with h | h
            · rw [hcmd3 d e] at h; exact Or.inl h
            · exact Or.inr h

theorem World_wake_qs (me : Option Nat) (w : World) (wk : Waker) : QS me w (w.wake wk) := wake_qs me _ wk w

theorem wakeAll_qs (me : Option Nat) (wks : List Waker) : ∀ (w : World), QS me w (w.wakeAll wks) := by
  induction wks with
  | nil => intro w; exact QS.refl me w
  | cons k ks ih =>
    intro w
    simp only [World.wakeAll, List.foldl_cons] at ih ⊢
    exact (World_wake_qs me w k).trans (ih _)

end M.Rt

namespace M.Rt

theorem QS.modLeaf {me : Option Nat} (w : World) (l : Nat) (f : Leaf → Leaf) : QS me w (w.modLeaf l f) :=
  QS.of_fields rfl rfl (fun _ h => h) (fun _ h => h)
theorem QS.newLeaf {me : Option Nat} (w : World) (k : Option Waker) (lg : Bool) : QS me w (w.newLeaf k lg).2 :=
  QS.of_fields rfl rfl (fun _ h => h) (fun _ h => h)
theorem QS.dropReceiver {me : Option Nat} (w : World) (l : Nat) : QS me w (w.dropReceiver l) :=
  QS.of_fields rfl rfl (fun _ h => h) (fun _ h => h)

/-- taking a command's waker and waking it -/
theorem take_wake_qs (me : Option Nat) (w : World) (c : Nat) (wk : Waker) (h : (w.cmd c).waker = some wk) :
    QS me w ((w.modCmd c fun c => { c with waker := none }).wake wk) := by
  -- same argument as the tail of `wake`: go through `wake` of a task waker of a dead slot? simpler: direct
  generalize hw3 : (w.modCmd c fun c => { c with waker := none }) = w3
  have hcmd3 : ∀ d, c ≠ d → w3.cmd d = w.cmd d := by
    intro d hd; subst hw3; exact World.cmd_modCmd_other w c d _ hd
  have hk3 : ∀ {β : Type} (g : CmdSt → β), (∀ x k, g { x with waker := k } = g x) → g (w3.cmd c) = g (w.cmd c) := by
    intro β g hg2; subst hw3
    exact cmd_modCmd_keep g w c _ (fun x => hg2 x _)
  have hwk3 : (w3.cmd c).waker = none := by
    subst hw3; exact cmd_modCmd_const (·.waker) none w c _ (fun _ => rfl) rfl
  have hlen3 : w3.cmds.length = w.cmds.length := by subst hw3; simp [World.modCmd, modifyNth_length]
  have hmeta3 : w3.metas = w.metas := by subst hw3; rfl
  have hr3 : w3.execReady = w.execReady := by subst hw3; rfl
  have hs3 : w3.execSpawn = w.execSpawn := by subst hw3; rfl
  have q := World_wake_qs me w3 wk
  refine ⟨q.len.trans hlen3, ?_, ?_, ?_, ?_, ?_, ?_, ?_, ?_⟩
  · intro d; rw [q.alive d]; by_cases e : c = d
    · subst e; exact hk3 (·.alive) (fun _ _ => rfl)
    · rw [hcmd3 d e]
  · intro d; rw [q.flag d]; by_cases e : c = d
    · subst e; exact hk3 (·.abortFlag) (fun _ _ => rfl)
    · rw [hcmd3 d e]
  · intro s' h; exact q.metaA s' (by simpa [World.getMeta, hmeta3] using h)
  · intro e h; exact q.ready e (by rw [hr3]; exact h)
  · intro t h; exact q.spawn t (by rw [hs3]; exact h)
  · intro d; by_cases e : c = d
    · subst e
      have hn : ((w3.wake wk).cmd c).waker = none := by
        rcases q.waker c with h | h
        · exact h.trans hwk3
        · exact h.1
      refine Or.inr ⟨hn, ?_⟩
      intro etid he
      rw [h] at he
      cases he
      unfold World.wake
      rw [wake_root]
      simp
    · rcases q.waker d with h | h
      · exact Or.inl (h.trans (by rw [hcmd3 d e]))
      · exact Or.inr ⟨h.1, fun etid he => h.2 etid (by rw [hcmd3 d e]; exact he)⟩
  · intro d hd
    have qo := q.other d hd
    by_cases e : c = d
    · subst e
      exact ⟨qo.1.trans (hk3 (·.tasks) (fun _ _ => rfl)), qo.2.1.trans (hk3 (·.spawnQ) (fun _ _ => rfl)),
        qo.2.2.1.trans (hk3 (·.effects) (fun _ _ => rfl)), qo.2.2.2.trans (hk3 (·.events) (fun _ _ => rfl))⟩
    · rw [hcmd3 d e] at qo; exact qo
  · intro d hd; by_cases e : c = d
    · subst e
      rcases q.waker c with h | h
      · exact Or.inr (h.trans hwk3)
      · exact Or.inr h.1
    · rcases q.work d hd with h | h
      · rw [hcmd3 d e] at h; exact Or.inl h
      · exact Or.inr h

theorem abortCmd_qs (me : Option Nat) (w : World) (c : Nat) : QS me w (w.abortCmd c) := by
  unfold World.abortCmd
  simp only
  have q1 : QS me w (w.modMeta (w.cmd c).abortFlag fun m => { m with aborted := true }) := QS.modMeta w _ _ (fun _ _ => rfl)
  split
  · exact q1
  · rename_i wk hwk
    exact q1.trans (take_wake_qs me _ c wk hwk)

theorem dropSender_qs (me : Option Nat) (w : World) (l : Nat) : QS me w (w.dropSender l) := by
  unfold World.dropSender
  simp only
  split
  · exact QS.modLeaf w l _
  · split
    · exact (QS.modLeaf w l _).trans (World_wake_qs me _ _)
    · exact QS.modLeaf w l _

theorem dropEff_qs (me : Option Nat) (w : World) (e : Eff) : QS me w (dropEff w e) := by
  unfold dropEff
  split
  · exact dropSender_qs me w _
  · exact dropSender_qs me w _
  · exact QS.refl me w

theorem resolveReq_qs (me : Option Nat) (r : Resolve) (v : Val) (w : World) : QS me w (resolveReq r v w).2.2 := by
  unfold resolveReq
  split
  · exact QS.refl me w
  · exact QS.refl me w
  · simp only
    split
    · refine QS.trans (w2 := (match (w.leaf _).waker with | some wk => (w.modLeaf _ _).wake wk | none => w.modLeaf _ _)) ?_ (dropSender_qs me _ _)
      split
      · exact (QS.modLeaf w _ _).trans (World_wake_qs me _ _)
      · exact QS.modLeaf w _ _
    · exact dropSender_qs me w _
  · simp only
    split
    · split
      · exact (QS.modLeaf w _ _).trans (World_wake_qs me _ _)
      · exact QS.modLeaf w _ _
    · exact QS.refl me w

theorem dropReq_qs (me : Option Nat) (r : Resolve) (w : World) : QS me w (dropReq r w).2 := by
  unfold dropReq
  split
  · exact dropSender_qs me w _
  · exact dropSender_qs me w _
  · exact QS.refl me w
  · exact QS.refl me w

def meOf : Sink → Option Nat
  | .cmd c => some c
  | .core => none

theorem sinkEffect_qs (w : World) (s : Sink) (e : Eff) : QS (meOf s) w (w.sinkEffect s e) := by
  cases s with
  | cmd c => exact QS.modCmd_me w c _ (fun _ => rfl) (fun _ => rfl) (fun _ => rfl)
  | core => exact QS.of_fields rfl rfl (fun _ h => h) (fun _ h => h)

theorem sinkEvent_qs (w : World) (s : Sink) (e : Ev) : QS (meOf s) w (w.sinkEvent s e) := by
  cases s with
  | cmd c => exact QS.modCmd_me w c _ (fun _ => rfl) (fun _ => rfl) (fun _ => rfl)
  | core => exact QS.of_fields rfl rfl (fun _ h => h) (fun _ h => h)

/-- everything but the leaves -/
def NL (w : World) := (w.cmds, w.metas, w.execReady, w.execSpawn)

mutual
theorem NL_dropBlock (dc : Nat → World → World) : (b : Block) → (w : World) → hostFreeB b = true → NL (dropBlock dc b w) = NL w
  | .mk env cur rest, w, h => by
    simp only [hostFreeB, Bool.and_eq_true] at h
    simp only [dropBlock]
    rw [foldl_hostFree _ (by intro w i hi; cases i <;> simp_all [hostFreeI]) rest _ h.2]
    exact NL_dropPend dc cur w h.1
theorem NL_dropPend (dc : Nat → World → World) : (p : Pend) → (w : World) → hostFreeP p = true → NL (dropPend dc p w) = NL w
  | .idle, w, _ => by simp only [dropPend]
  | .reqDead, w, _ => by simp only [dropPend]
  | .await _, w, _ => by simp only [dropPend]
  | .selfwake _, w, _ => by simp only [dropPend]
  | .req _ l, w, _ => by simp only [dropPend]; rfl
  | .streamWait _ l _ _ _, w, _ => by simp only [dropPend]; rfl
  | .streamBody _ l _ _ _ inner, w, h => by
    simp only [hostFreeP, Bool.and_eq_true] at h
    simp only [dropPend]
    exact (NL_dropBlock dc inner w h.2)
  | .join a b ad bd, w, h => by
    simp only [hostFreeP, Bool.and_eq_true] at h
    simp only [dropPend]
    cases ad <;> cases bd <;> simp only [Bool.false_eq_true, if_false, if_true]
    · rw [NL_dropBlock dc b _ h.2, NL_dropBlock dc a w h.1]
    · exact NL_dropBlock dc a w h.1
    · exact NL_dropBlock dc b w h.2
  | .select a b, w, h => by
    simp only [hostFreeP, Bool.and_eq_true] at h
    simp only [dropPend]
    rw [NL_dropBlock dc b _ h.2, NL_dropBlock dc a w h.1]
  | .host _ _, w, h => by simp [hostFreeP] at h
end

theorem QS.of_NL {me : Option Nat} {w w' : World} (h : NL w' = NL w) : QS me w w' := by
  simp only [NL, Prod.mk.injEq] at h
  exact QS.of_fields h.1 h.2.1 (fun e he => by rw [h.2.2.1]; exact he) (fun t ht => by rw [h.2.2.2]; exact ht)

theorem World_dropBlock_qs (me : Option Nat) (w : World) (b : Block) (h : hostFreeB b = true) : QS me w (w.dropBlock b) :=
  QS.of_NL (NL_dropBlock _ b w h)

end M.Rt
