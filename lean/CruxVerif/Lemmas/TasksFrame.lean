/- A host-free poll never touches any command's task slab (only queues, wakers and flags). -/
import CruxVerif.Lemmas.Refs
namespace M.Rt

/-- `New` = what is known about every task that a step adds to a spawn queue -/
structure TKp (New : Nat → Task → Prop) (w w' : World) : Prop where
  /-- no command's task slab is touched -/
  tasks : ∀ c, (w'.cmd c).tasks = (w.cmd c).tasks
  /-- whatever is new in a spawn queue satisfies `New` -/
  spawn : ∀ c t, t ∈ (w'.cmd c).spawnQ → t ∈ (w.cmd c).spawnQ ∨ New c t

/-- the instance used for ownership: new spawn-queue members are host-free -/
abbrev TK := TKp (fun _ t => hostFreeB t.fut = true)

variable {New : Nat → Task → Prop}

theorem TKp.imp {New' : Nat → Task → Prop} {w w' : World} (h : TKp New w w') (hi : ∀ c t, New c t → New' c t) :
    TKp New' w w' :=
  ⟨h.tasks, fun c t ht => (h.spawn c t ht).imp id (hi c t)⟩

theorem TKp.refl (w : World) : TKp New w w := ⟨fun _ => rfl, fun _ _ h => Or.inl h⟩
theorem TKp.trans {w1 w2 w3 : World} (h12 : TKp New w1 w2) (h23 : TKp New w2 w3) : TKp New w1 w3 :=
  ⟨fun c => (h23.tasks c).trans (h12.tasks c), fun c t h => by
    rcases h23.spawn c t h with h | h
    · exact h12.spawn c t h
    · exact Or.inr h⟩

theorem tk_of_cmds {w w' : World} (hc : w'.cmds = w.cmds) : TKp New w w' := by
  refine ⟨?_, ?_⟩
  · intro c; simp only [World.cmd, hc]
  · intro c t h; left; simpa only [World.cmd, hc] using h

theorem tk_modCmd (w : World) (c : Nat) (f : CmdSt → CmdSt) (hf : ∀ x, (f x).tasks = x.tasks)
    (hs : ∀ x, (f x).spawnQ = x.spawnQ) : TKp New w (w.modCmd c f) := by
  refine ⟨?_, ?_⟩
  · intro c'
    by_cases h : c = c'
    · subst h
      rw [World.cmd_modCmd_self]
      simp only [World.cmd]
      cases w.cmds[c]? <;> simp [hf]
    · rw [World.cmd_modCmd_other w c c' f h]
  · intro c' t ht
    left
    by_cases h : c = c'
    · subst h
      rw [World.cmd_modCmd_spawnQ_keep w c f hs] at ht; exact ht
    · rw [World.cmd_modCmd_other w c c' f h] at ht; exact ht

/-- spawning a host-free task -/
theorem tk_spawn (w : World) (c : Nat) (t0 : Task) (h0 : New c t0) :
    TKp New w (w.modCmd c fun x => { x with spawnQ := x.spawnQ ++ [t0] }) := by
  refine ⟨?_, ?_⟩
  · intro c'
    by_cases h : c = c'
    · subst h
      rw [World.cmd_modCmd_self]
      simp only [World.cmd]
      cases w.cmds[c]? <;> simp
    · rw [World.cmd_modCmd_other w c c' _ h]
  · intro c' t ht
    by_cases h : c = c'
    · subst h
      rw [World.cmd_modCmd_self] at ht
      simp only [World.cmd] at ht ⊢
      cases hc : w.cmds[c]? with
      | none => simp [hc] at ht
      | some x =>
        simp only [hc, List.mem_append, List.mem_singleton, Option.getD_some] at ht ⊢
        rcases ht with ht | rfl
        · exact Or.inl ht
        · exact Or.inr h0
    · rw [World.cmd_modCmd_other w c c' _ h] at ht; exact Or.inl ht

theorem tk_sinkEvent (w : World) (s : Sink) (e : Ev) : TKp New w (w.sinkEvent s e) := by
  cases s with
  | cmd c => exact tk_modCmd w c _ (fun _ => rfl) (fun _ => rfl)
  | core => exact tk_of_cmds rfl

theorem tk_sinkEffect (w : World) (s : Sink) (e : Eff) : TKp New w (w.sinkEffect s e) := by
  cases s with
  | cmd c => exact tk_modCmd w c _ (fun _ => rfl) (fun _ => rfl)
  | core => exact tk_of_cmds rfl

theorem tk_woken (W : World) (l : List Nat) : TKp New W ({ W with woken := l } : World) := tk_of_cmds rfl

theorem tk_wake : ∀ (f : Nat) (wk : Waker) (w : World), TKp New w (wake f wk w) := by
  intro f
  induction f with
  | zero => intro wk w; cases wk <;> exact tk_of_cmds rfl
  | succ f ih =>
    intro wk w
    cases wk with
    | root e => exact tk_of_cmds rfl
    | task cid tid serial =>
      unfold wake
      simp only
      split
      · split
        · refine TKp.trans (tk_modCmd w cid _ ?_ ?_) (tk_woken _ _) <;> (intro _; rfl)
        · exact tk_woken _ _
      · rename_i pw _
        refine TKp.trans ?_ (ih pw _)
        split
        · refine TKp.trans (TKp.trans (tk_modCmd w cid _ ?_ ?_) (tk_woken _ _)) (tk_modCmd _ cid _ ?_ ?_) <;> (intro _; rfl)
        · refine TKp.trans (tk_woken _ _) (tk_modCmd _ cid _ ?_ ?_) <;> (intro _; rfl)

theorem tk_World_wake (w : World) (wk : Waker) : TKp New w (w.wake wk) := tk_wake _ wk w

theorem tk_abortCmd (w : World) (c : Nat) : TKp New w (w.abortCmd c) := by
  unfold World.abortCmd
  simp only
  split
  · exact tk_of_cmds rfl
  · refine TKp.trans ?_ (tk_World_wake _ _)
    refine TKp.trans (w2 := w.modMeta (w.cmd c).abortFlag fun m => { m with aborted := true }) (tk_of_cmds rfl)
      (tk_modCmd _ c _ ?_ ?_) <;> (intro _; rfl)

theorem tk_dropReceiver (w : World) (l : Nat) : TKp New w (w.dropReceiver l) := tk_of_cmds rfl

mutual
theorem tk_dropBlock (dc : Nat → World → World) : (b : Block) → (w : World) → hostFreeB b = true → TKp New w (dropBlock dc b w)
  | .mk env cur rest, w, h => by
    simp only [hostFreeB, Bool.and_eq_true] at h
    simp only [dropBlock]
    have h2 : ∀ (g : World → Instr → World), (∀ w i, hostFreeI i = true → g w i = w) →
        ∀ (is : List Instr) (w : World), hostFreeIs is = true → is.foldl g w = w := by
      intro g hg is
      induction is with
      | nil => intro w _; rfl
      | cons i is ih =>
        intro w hi
        simp only [hostFreeIs, Bool.and_eq_true] at hi
        simp only [List.foldl_cons]
        rw [hg w i hi.1]; exact ih w hi.2
    rw [h2 _ (by intro w i hi; cases i <;> simp_all [hostFreeI]) rest _ h.2]
    exact tk_dropPend dc cur w h.1
theorem tk_dropPend (dc : Nat → World → World) : (p : Pend) → (w : World) → hostFreeP p = true → TKp New w (dropPend dc p w)
  | .idle, w, _ => by simp only [dropPend]; exact TKp.refl w
  | .reqDead, w, _ => by simp only [dropPend]; exact TKp.refl w
  | .await _, w, _ => by simp only [dropPend]; exact TKp.refl w
  | .selfwake _, w, _ => by simp only [dropPend]; exact TKp.refl w
  | .req _ l, w, _ => by simp only [dropPend]; exact tk_dropReceiver w l
  | .streamWait _ l _ _ _, w, _ => by simp only [dropPend]; exact tk_dropReceiver w l
  | .streamBody _ l _ _ _ inner, w, h => by
    simp only [hostFreeP, Bool.and_eq_true] at h
    simp only [dropPend]
    exact (tk_dropBlock dc inner w h.2).trans (tk_dropReceiver _ l)
  | .join a b ad bd, w, h => by
    simp only [hostFreeP, Bool.and_eq_true] at h
    simp only [dropPend]
    cases ad <;> cases bd <;> simp only [Bool.false_eq_true, if_false, if_true]
    · exact (tk_dropBlock dc a w h.1).trans (tk_dropBlock dc b _ h.2)
    · exact tk_dropBlock dc a w h.1
    · exact tk_dropBlock dc b w h.2
    · exact TKp.refl w
  | .select a b, w, h => by
    simp only [hostFreeP, Bool.and_eq_true] at h
    simp only [dropPend]
    exact (tk_dropBlock dc a w h.1).trans (tk_dropBlock dc b _ h.2)
  | .host _ _, w, h => by simp [hostFreeP] at h
end

theorem tk_World_dropBlock (w : World) (b : Block) (h : hostFreeB b = true) : TKp New w (w.dropBlock b) :=
  tk_dropBlock _ b w h

theorem tk_newLeaf_sinkEffect (w : World) (k : Option Waker) (lg : Bool) (s : Sink) (e : Eff) :
    TKp New w ((w.newLeaf k lg).2.sinkEffect s e) :=
  TKp.trans (w2 := (w.newLeaf k lg).2) (tk_of_cmds rfl) (tk_sinkEffect _ s e)

theorem tk_newMeta_spawn (W : World) (c : Nat) (t0 : Task) (h0 : New c t0) :
    TKp New W (W.newMeta.2.modCmd c fun x => { x with spawnQ := x.spawnQ ++ [t0] }) :=
  TKp.trans (w2 := W.newMeta.2) (tk_of_cmds rfl) (tk_spawn _ c t0 h0)

/-- what a spawn into `sink` may add to a command's spawn queue: a host-free task, and only if the sink is that command -/
def SinkNew (New : Nat → Task → Prop) (sink : Sink) : Prop :=
  ∀ c t, sink = .cmd c → hostFreeB t.fut = true → New c t

def TGood (pn : Waker → Nat → World → Option (NextRes × World)) (f : Nat) : Prop :=
  ∀ (New : Nat → Task → Prop) wk sink b w r w', pollBlock pn f wk sink b w = some (r, w') → hostFreeB b = true →
    SinkNew New sink → TKp New w w'

theorem tgood_zero (pn) : TGood pn 0 := by
  intro New wk sink b w r w' h; simp [pollBlock] at h

theorem TGood.via {pn f} (ih : TGood pn f) {New : Nat → Task → Prop} {wk : Waker} {sink : Sink} {b : Block} {w w1 : World}
    {r : PollRes} {w' : World} (hN : SinkNew New sink)
    (h1 : TKp New w w1) (hf : hostFreeB b = true) (h : pollBlock pn f wk sink b w1 = some (r, w')) : TKp New w w' :=
  h1.trans (ih New wk sink b w1 r w' h hf hN)

theorem tgood_succ (pn) (f : Nat) (ih : TGood pn f) : TGood pn (f + 1) := by
  intro New wk sink b w r w' h hf hN
  have hres := (pollBlock_lgood pn (f + 1) wk sink b w r w' h hf).2
  obtain ⟨env, cur, rest⟩ := b
  unfold pollBlock at h
  simp only at h
  simp only [hostFreeB, Bool.and_eq_true] at hf
  obtain ⟨hfc, hfr⟩ := hf
  have hidle : ∀ (e : Env) (is : List Instr), hostFreeIs is = true → hostFreeB (.mk e .idle is) = true := by
    intro e is h; simp [hostFreeB, hostFreeP, h]
  cases cur with
  | idle =>
    cases rest with
    | nil =>
      simp only [Option.some.injEq, Prod.mk.injEq] at h
      obtain ⟨_, rfl⟩ := h
      exact TKp.refl w
    | cons i rest' =>
      simp only [hostFreeIs, Bool.and_eq_true] at hfr
      obtain ⟨hfi, hfr'⟩ := hfr
      cases i with
      | emit tag e => exact ih.via hN (tk_sinkEvent w sink _) (hidle _ _ hfr') h
      | notify n e => exact ih.via hN (tk_sinkEffect w sink _) (hidle _ _ hfr') h
      | req x n e =>
        simp only [Option.some.injEq, Prod.mk.injEq] at h
        obtain ⟨_, rfl⟩ := h
        exact tk_newLeaf_sinkEffect w (some wk) _ sink _
      | stream x n e limit body =>
        simp only [Option.some.injEq, Prod.mk.injEq] at h
        obtain ⟨_, rfl⟩ := h
        exact tk_newLeaf_sinkEffect w (some wk) _ sink _
      | spawn hd body =>
        cases sink with
        | cmd c =>
          simp only at h
          simp only [hostFreeI] at hfi
          refine ih.via hN (w1 := _) ?_ (hidle _ _ hfr') h
          refine tk_newMeta_spawn w c _ (hN c _ rfl ?_)
          simp [hostFreeB, hostFreeP, hfi]
        | core =>
          simp only at h
          refine ih.via hN (w1 := _) ?_ (hidle _ _ hfr') h
          exact tk_of_cmds rfl
      | handoff x n e body =>
        cases sink with
        | cmd c =>
          simp only at h
          simp only [hostFreeI] at hfi
          refine ih.via hN (w1 := _) ?_ (hidle _ _ hfr') h
          refine TKp.trans (tk_newLeaf_sinkEffect w (some wk) false (.cmd c) _) (tk_newMeta_spawn _ c _ (hN c _ rfl ?_))
          simp [hostFreeB, hostFreeP, hfi]
        | core =>
          simp only at h
          refine ih.via hN (w1 := _) ?_ (hidle _ _ hfr') h
          have := tk_newLeaf_sinkEffect (New := New) w (some wk) true .core
            ⟨⟨n, env.eval e⟩, .once (w.newLeaf (some wk) true).1⟩
          exact ⟨fun c' => this.tasks c', fun c' t ht => this.spawn c' t ht⟩
      | await hd =>
        cases hh : env.handle hd with
        | none => simp only [hh] at h; exact ih.via hN (TKp.refl w) (hidle _ _ hfr') h
        | some s => simp only [hh] at h; exact ih.via hN (TKp.refl w) (by simp [hostFreeB, hostFreeP, hfr']) h
      | abortTask hd =>
        cases hh : env.handle hd with
        | none => simp only [hh] at h; exact ih.via hN (TKp.refl w) (hidle _ _ hfr') h
        | some s =>
          simp only [hh] at h
          refine ih.via hN (w1 := _) ?_ (hidle _ _ hfr') h
          exact tk_of_cmds rfl
      | join a b =>
        simp only [hostFreeI, Bool.and_eq_true] at hfi
        exact ih.via hN (TKp.refl w) (by simp [hostFreeB, hostFreeP, hfr', hfi.1, hfi.2]) h
      | select a b =>
        simp only [hostFreeI, Bool.and_eq_true] at hfi
        exact ih.via hN (TKp.refl w) (by simp [hostFreeB, hostFreeP, hfr', hfi.1, hfi.2]) h
      | selfwake k => exact ih.via hN (TKp.refl w) (by simp [hostFreeB, hostFreeP, hfr']) h
      | abortCmd name =>
        simp only at h
        split at h
        · exact ih.via hN (tk_abortCmd w _) (hidle _ _ hfr') h
        · exact ih.via hN (TKp.refl w) (hidle _ _ hfr') h
      | host c m => simp [hostFreeI] at hfi
  | req x l =>
    simp only at h
    split at h
    · exact ih.via hN (tk_dropReceiver w l) (hidle _ _ hfr) h
    · split at h
      · simp only [Option.some.injEq, Prod.mk.injEq] at h
        obtain ⟨_, rfl⟩ := h
        exact tk_dropReceiver w l
      · simp only [Option.some.injEq, Prod.mk.injEq] at h
        obtain ⟨_, rfl⟩ := h
        exact tk_of_cmds rfl
  | reqDead =>
    simp only [Option.some.injEq, Prod.mk.injEq] at h
    obtain ⟨_, rfl⟩ := h
    exact TKp.refl w
  | streamWait x l count limit body =>
    simp only [hostFreeP] at hfc
    simp only at h
    split at h
    · exact ih.via hN (tk_dropReceiver w l) (hidle _ _ hfr) h
    · split at h
      · refine ih.via hN (w1 := _) ?_ (by simp [hostFreeB, hostFreeP, hfr, hfc]) h
        exact tk_of_cmds rfl
      · split at h
        · exact ih.via hN (tk_dropReceiver w l) (hidle _ _ hfr) h
        · simp only [Option.some.injEq, Prod.mk.injEq] at h
          obtain ⟨_, rfl⟩ := h
          exact tk_of_cmds rfl
  | streamBody x l count limit body inner =>
    simp only [hostFreeP, Bool.and_eq_true] at hfc
    simp only at h
    cases hp : pollBlock pn f wk sink inner w with
    | none => simp [hp] at h
    | some res =>
      obtain ⟨ri, w1⟩ := res
      have hi := ih New wk sink inner w ri w1 hp hfc.2 hN
      cases ri with
      | pending inner' =>
        simp only [hp, Option.some.injEq, Prod.mk.injEq] at h
        obtain ⟨_, rfl⟩ := h
        exact hi
      | ready env' =>
        simp only [hp] at h
        exact ih.via hN hi (by simp [hostFreeB, hostFreeP, hfr, hfc.1]) h
  | await s =>
    simp only at h
    split at h
    · exact ih.via hN (TKp.refl w) (hidle _ _ hfr) h
    · split at h
      · simp only [Option.some.injEq, Prod.mk.injEq] at h
        obtain ⟨_, rfl⟩ := h
        exact tk_of_cmds rfl
      · exact ih.via hN (TKp.refl w) (hidle _ _ hfr) h
  | join a b ad bd =>
    simp only [hostFreeP, Bool.and_eq_true] at hfc
    simp only at h
    split at h
    · simp at h
    · rename_i ra w1 hra
      split at h
      · simp at h
      · rename_i rb w2 hrb
        have k1 : TKp New w w1 := by
          cases ad with
          | true =>
            simp only [if_true, Option.some.injEq, Prod.mk.injEq] at hra
            obtain ⟨_, rfl⟩ := hra
            exact TKp.refl w
          | false =>
            simp only [Bool.false_eq_true, if_false] at hra
            exact ih New wk sink a w ra w1 hra hfc.1 hN
        have k2 : TKp New w w2 := by
          cases bd with
          | true =>
            simp only [if_true, Option.some.injEq, Prod.mk.injEq] at hrb
            obtain ⟨_, rfl⟩ := hrb
            exact k1
          | false =>
            simp only [Bool.false_eq_true, if_false] at hrb
            exact ih.via hN k1 hfc.2 hrb
        cases ra <;> cases rb <;>
          simp only [Bool.and_self, Bool.and_false, Bool.false_and, Bool.false_eq_true, if_false, if_true] at h <;>
          first
          | exact ih.via hN k2 (hidle _ _ hfr) h
          | (simp only [Option.some.injEq, Prod.mk.injEq] at h; obtain ⟨_, rfl⟩ := h; exact k2)
  | select a b =>
    simp only [hostFreeP, Bool.and_eq_true] at hfc
    simp only at h
    cases hp : pollBlock pn f wk sink a w with
    | none => simp [hp] at h
    | some res =>
      obtain ⟨ra, w1⟩ := res
      have k1 := ih New wk sink a w ra w1 hp hfc.1 hN
      have hfa := (pollBlock_lgood pn f wk sink a w ra w1 hp hfc.1).2
      cases ra with
      | ready enva =>
        simp only [hp] at h
        exact ih.via hN (k1.trans (tk_World_dropBlock w1 b hfc.2)) (hidle _ _ hfr) h
      | pending a' =>
        simp only [hp] at h
        cases hq : pollBlock pn f wk sink b w1 with
        | none => simp [hq] at h
        | some res2 =>
          obtain ⟨rb, w2⟩ := res2
          have k2 : TKp New w w2 := ih.via hN k1 hfc.2 hq
          cases rb with
          | ready envb =>
            simp only [hq] at h
            exact ih.via hN (k2.trans (tk_World_dropBlock w2 a' hfa)) (hidle _ _ hfr) h
          | pending b' =>
            simp only [hq, Option.some.injEq, Prod.mk.injEq] at h
            obtain ⟨_, rfl⟩ := h
            exact k2
  | selfwake k =>
    simp only at h
    split at h
    · exact ih.via hN (TKp.refl w) (hidle _ _ hfr) h
    · simp only [Option.some.injEq, Prod.mk.injEq] at h
      obtain ⟨_, rfl⟩ := h
      exact tk_World_wake w wk
  | host c m => simp [hostFreeP] at hfc

theorem pollBlock_tgood (pn) : ∀ f, TGood pn f
  | 0 => tgood_zero pn
  | f + 1 => tgood_succ pn f (pollBlock_tgood pn f)

end M.Rt
