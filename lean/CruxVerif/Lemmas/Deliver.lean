/- End-to-end delivery on the model: resolve → exactly the asking task is woken → its next poll binds exactly the value. -/
import CruxVerif.Lemmas.K2Steps
namespace M.Rt

theorem leaf_wake (w : World) (wk : Waker) (l : Nat) : (w.wake wk).leaf l = w.leaf l := by
  simp [World.leaf, World.wake_leaves]

theorem dropSender_leaf_other (w : World) (l l' : Nat) (h : l ≠ l') : (w.dropSender l).leaf l' = w.leaf l' := by
  unfold World.dropSender
  simp only
  split
  · exact leaf_modLeaf_other _ _ _ _ h
  · split
    · rw [leaf_wake]; exact leaf_modLeaf_other _ _ _ _ h
    · exact leaf_modLeaf_other _ _ _ _ h

/-- resolving the request of leaf `l` touches no other request's channel -/
theorem resolve_other_leaves (r : Resolve) (l : Nat) (hr : r = .once l ∨ r = .many l) (v : Val) (w : World) (l' : Nat)
    (h : l ≠ l') : ((resolveReq r v w).2.2.leaf l') = w.leaf l' := by
  rcases hr with rfl | rfl
  · unfold resolveReq
    simp only
    split
    · rw [dropSender_leaf_other _ _ _ h]
      split
      · rw [leaf_wake]; exact leaf_modLeaf_other _ _ _ _ h
      · exact leaf_modLeaf_other _ _ _ _ h
    · exact dropSender_leaf_other _ _ _ h
  · unfold resolveReq
    simp only
    split
    · split
      · rw [leaf_wake]; exact leaf_modLeaf_other _ _ _ _ h
      · exact leaf_modLeaf_other _ _ _ _ h
    · rfl

theorem wokenBy_mono {wk wk' : Waker} {w w' : World} (hm : Mono wk' w w') (h : wokenBy wk w) : wokenBy wk w' := by
  cases wk with
  | root _ => trivial
  | task _ _ s => exact hm.woken s h

theorem wokenBy_dropSender (wk : Waker) (w : World) (l : Nat) (h : wokenBy wk w) : wokenBy wk (w.dropSender l) := by
  unfold World.dropSender
  simp only
  split
  · cases wk <;> exact h
  · split
    · rename_i wk' _
      have h1 : wokenBy wk (w.modLeaf l fun lf => { lf with senderAlive := false, waker := none }) := by cases wk <;> exact h
      exact wokenBy_mono (mono_wake wk' wk' _) h1
    · cases wk <;> exact h

/-- resolving a request whose channel holds the waker `wk` (the asking task, parked there by its last poll — K2) wakes
    exactly that waker: its `woken` flag is set (a task waker) -/
theorem resolve_wakes_asker (r : Resolve) (l : Nat) (hr : r = .once l ∨ r = .many l) (v : Val) (w : World) (wk : Waker)
    (hw : (w.leaf l).waker = some wk) (ha : (w.leaf l).receiverAlive = true) :
    wokenBy wk (resolveReq r v w).2.2 := by
  rcases hr with rfl | rfl
  · unfold resolveReq
    simp only [ha, if_true, hw]
    exact wokenBy_dropSender wk _ l (wokenBy_wake_self wk _)
  · unfold resolveReq
    simp only [ha, if_true, hw]
    exact wokenBy_wake_self wk _

/-- the next poll of a block parked at a one-shot request whose channel holds `v` continues with exactly `v` bound to the
    request's variable (whatever waker polls it) -/
theorem poll_binds_value (pn : Waker → Nat → World → Option (NextRes × World)) (f : Nat) (wk : Waker) (sink : Sink)
    (env : Env) (x l : Nat) (rest : List Instr) (w : World) (v : Val) (q : List Val) (hq : (w.leaf l).queue = v :: q) :
    pollBlock pn (f + 1) wk sink (.mk env (.req x l) rest) w =
      pollBlock pn f wk sink (.mk (env.set x v) .idle rest) (w.dropReceiver l) := by
  conv => lhs; unfold pollBlock
  simp only [hq]

/-- … and of a block parked at a stream: the body runs with exactly the oldest undelivered value, the rest stays queued -/
theorem poll_stream_binds_value (pn : Waker → Nat → World → Option (NextRes × World)) (f : Nat) (wk : Waker) (sink : Sink)
    (env : Env) (x l count limit : Nat) (body rest : List Instr) (w : World) (v : Val) (q : List Val)
    (hq : (w.leaf l).queue = v :: q) (hlim : ¬ (limit > 0 ∧ count ≥ limit)) :
    pollBlock pn (f + 1) wk sink (.mk env (.streamWait x l count limit body) rest) w =
      pollBlock pn f wk sink (.mk env (.streamBody x l count limit body (.mk (env.set x v) .idle body)) rest)
        (w.modLeaf l fun lf => { lf with queue := q }) := by
  conv => lhs; unfold pollBlock
  have : (decide (limit > 0) && decide (count ≥ limit)) = false := by
    simp only [Bool.and_eq_false_imp, decide_eq_true_eq, decide_eq_false_iff_not]
    intro h1 h2; exact hlim ⟨h1, h2⟩
  simp only [this, hq]
  simp

end M.Rt
