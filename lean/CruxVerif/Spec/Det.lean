/-
S.Det — what C11 demands of the observations of engine `det`:
  * every replay of a history (same process, other processes) yields the same serialized effects — for timer
    operations after renaming the freshly allocated ids by rank of first appearance — and the same view;
  * `a == b` on two values built independently is `true` exactly when their contents are equal.
-/
import CruxVerif.Model.Det
namespace S.Det
open M.Http M.Det

/-- header names and values must be ASCII (documented panic otherwise; C14) -/
def hdrDomain (calls : List Call) : Bool :=
  calls.all fun
    | .header n vs => isAscii n && vs.all isAscii
    | _ => true

/-- (a) all replays are byte-identical -/
def okHdr (c : ReqCase) (o : HdrObs) : Bool :=
  if !hdrDomain c.calls then true else
  match o with
  | .same _ => true
  | _ => false

def rejectKeyHdr (_c : ReqCase) (o : HdrObs) : String :=
  match o with
  | .differ _ => "effect-bytes-differ-between-runs"
  | .panic => "request-panics"
  | .same _ => "none"

/-- (b) `==` is equality of contents: over all evaluations the result was always `contentsEqual` -/
def okEq (contentsEqual seenTrue seenFalse : Bool) : Bool :=
  if contentsEqual then seenTrue && !seenFalse else seenFalse && !seenTrue

def rejectKeyEq (isResponse contentsEqual seenTrue seenFalse : Bool) : String :=
  if okEq contentsEqual seenTrue seenFalse then "none"
  else if !seenTrue && !seenFalse then "eq-not-evaluated"
  else if contentsEqual then (if isResponse then "response-eq-rejects-equal" else "derived-eq-rejects-equal")
  else (if isResponse then "response-eq-accepts-different" else "derived-eq-accepts-different")

/-- (c) all replays agree after renaming timer ids by rank -/
def okTid (o : TidObs) : Bool :=
  match o with
  | .same _ _ _ => true
  | .differ _ => false

def rejectKeyTid (o : TidObs) : String :=
  match o with
  | .same _ _ _ => "none"
  | .differ _ => "timer-effects-differ-between-runs"

end S.Det
