/-
S.Mw — what C16 demands of an observation (events seen by the shell and by the marks log, outcome event),
written from the documentation, not from the control flow of the code:

  * a stack is the composition of its middleware, outermost first: client middleware, then per-request
    middleware, then the shell (request_builder.rs:291-300 "Client middleware is run before per-request
    middleware"; middleware.rs `Next`: "the remainder of a middleware chain, including the endpoint");
    here as a right fold of handlers over the endpoint;
  * `Redirect` (redirect.rs:36-63): follows `Location` of 301/302/303/307/308 answers up to `attempts` times,
    each hop resolved against the URL the answer came from (RFC 3986 §5 / RFC 9110 §10.2.2: relative to the
    *current* target URI), probing with body-less copies, then sends the request itself, body included, to the
    URL reached; an unparseable Location is an error. The walk is computed first, as a list of URLs;
  * every API (`.send(ev)`, `.send_async()`, the command API — command.rs:553-580 documents `.middleware`
    with the Redirect example) runs the same stack.
-/
import CruxVerif.Model.Mw
namespace S.Mw
open M.Mw

inductive Hop where
  | to (u : Url)      -- follow to `u`
  | stay              -- redirect status without Location: nothing to follow, ask again
  | done              -- not a redirect: this is the final URL
  | fail (e : Err)
deriving DecidableEq, Repr

/-- what the answer served at `cur` tells the Redirect middleware to do -/
def hop (w : World) (cur : Url) : Hop :=
  match w.srv cur with
  | .err e => .fail e
  | .ok res =>
    if !isRedirect res.status then .done else
    match res.locs.getLast? with
    | none => .stay
    | some loc =>
      match w.parse loc with
      | none => .fail .missing
      | some (.abs v) => .to v
      | some .bad => .fail .url
      | some .rel =>
        match w.join cur loc with        -- relative to the current URL
        | none => .fail .missing
        | some (.ok u) => .to u
        | some .bad => .fail .url

inductive End where
  | final (u : Url)
  | fail (e : Err)
deriving DecidableEq, Repr

/-- the URLs probed with `n` attempts left starting at `cur`, and where the walk ends -/
def walk (w : World) : Nat → Url → List Url × End
  | 0, cur => ([], .final cur)
  | n + 1, cur =>
    match hop w cur with
    | .done => ([cur], .final cur)
    | .fail e => ([cur], .fail e)
    | .stay => let p := walk w n cur; (cur :: p.1, p.2)
    | .to u => let p := walk w n u; (cur :: p.1, p.2)

abbrev Handler := Req → Trace × Res

def probe (req : Req) (u : Url) : Ev := .shell { req with url := u, body := [] }

/-- the Redirect middleware around `next` -/
def redirect (w : World) (a : Nat) (next : Handler) : Handler := fun req =>
  let p := walk w a req.url
  let probes := p.1.map (probe req)
  match p.2 with
  | .fail e => (probes, .err e)
  | .final u => let q := next { req with url := u }; (probes ++ q.1, q.2)

def issuedReq (w : World) (u : Url) : Option Nat → Trace × Res
  | none => endpoint w (getReq u)
  | some a => redirect w a (endpoint w) (getReq u)

/-- the meaning of one middleware of harness/src/bin/mw.rs as a function of the rest of the chain -/
def sem (w : World) : Mw → Handler → Handler
  | .pass k, next => fun req => let p := next req; ([.enter k] ++ p.1 ++ [.exit k], p.2)
  | .tag k, next => fun req => let p := next (req.append "x-mw" (toString k)); ([.enter k] ++ p.1 ++ [.exit k], p.2)
  | .short k s, _ => fun _ => ([.enter k], .ok ⟨s, [], [k]⟩)
  | .fail k, _ => fun _ => ([.enter k], .err (.io ("mw" ++ toString k)))
  | .twice k, next => fun req =>
      let p1 := next req.clone
      let p2 := next req
      ([.enter k] ++ p1.1 ++ [.mid k] ++ p2.1 ++ [.exit k], p2.2)
  | .issue k u att, next => fun req =>
      let i := issuedReq w u att
      match i.2 with
      | .err e => ([.enter k] ++ i.1, .err e)
      | .ok res =>
        let p := next (req.append "x-mw" (toString k ++ "s" ++ toString res.status))
        ([.enter k] ++ i.1 ++ [.mid k] ++ p.1 ++ [.exit k], p.2)
  | .redirect a, next => redirect w a next

/-- client middleware, then per-request middleware, then the shell -/
def chain (w : World) (client reqMw : List Mw) : Handler :=
  client.foldr (sem w) (reqMw.foldr (sem w) (endpoint w))

/-- the observation C16 demands; the same for every API except for the documented shape of the outcome
    (`.send_async()` hands over the response unclassified) -/
def expected (w : World) (api : Api) (client stack : List Mw) (req : Req) : Trace × Outcome :=
  let p := chain w client stack req
  (p.1, match api with | .async => rawOutcome p.2 | _ => classify p.2)

/-- The oracle. -/
def ok (w : World) (api : Api) (client stack : List Mw) (req : Req) (obs : Trace × Outcome) : Bool :=
  obs == expected w api client stack req

/-! ### naming the clause that rejects (diagnostics for KNOWN_FINDINGS keys; not part of `ok`) -/

def firstDiff : Trace → Trace → Option (Option Ev × Option Ev)
  | [], [] => none
  | a :: _, [] => some (some a, none)
  | [], b :: _ => some (none, some b)
  | a :: as, b :: bs => if a = b then firstDiff as bs else some (some a, some b)

/-- `rels`: the `(base, relative Location)` pairs the case knows how to join. The key `redirect-relative-base`
    names exactly: first divergence is a shell request that is right except for its URL, and observed and
    demanded URL are the same relative Location joined to two different bases. -/
def rejectKey (w : World) (rels : List (Url × String)) (api : Api) (client stack : List Mw) (req : Req)
    (obs : Trace × Outcome) : String :=
  let exp := expected w api client stack req
  if obs == exp then "none"
  else if api == .cmd && obs == expected w .cmd [] [] req then "command-api-ignores-middleware"
  else match firstDiff obs.1 exp.1 with
    | none => "outcome-altered"
    | some (some (.shell o), some (.shell e)) =>
      if o == { e with url := o.url } then
        if rels.any (fun (b, loc) => w.parse loc == some .rel && w.join b loc == some (.ok o.url) &&
             rels.any (fun (b', loc') => loc' == loc && b' != b && w.join b' loc == some (.ok e.url)))
        then "redirect-relative-base" else "redirect-target"
      else "request-altered"
    | some (some (.shell _), none) => "extra-request"
    | some (none, some (.shell _)) => "missing-request"
    | some (some (.shell _), some _) => "extra-request"
    | some (some _, some (.shell _)) => "missing-request"
    | some _ => "middleware-order"

end S.Mw

/-! ### vocabulary of the C16 theorems -/
namespace S.Mw
open M.Mw

/-- pass-through middleware: marks on the way in and out, the rest of the chain exactly once -/
def passThrough : Mw → Bool
  | .pass _ | .tag _ => true
  | _ => false

/-- middleware that sends nothing itself (no Redirect, no request-issuing) -/
def isLocal : Mw → Bool
  | .redirect _ | .issue _ _ _ => false
  | _ => true

def ident : Mw → Nat
  | .pass k | .tag k | .short k _ | .fail k | .twice k | .issue k _ _ => k
  | .redirect _ => 0

/-- what a pass-through middleware does to the request on the way in -/
def onReq : Mw → Req → Req
  | .tag k, r => r.append "x-mw" (toString k)
  | _, r => r

def isShell : Ev → Bool
  | .shell _ => true
  | _ => false

/-- number of requests that reached the shell -/
def shells (t : Trace) : Nat := t.countP isShell

/-- how often a stack of local middleware invokes the endpoint: once, zero times below a short-circuit,
    twice as often below a `twice` -/
def mult : List Mw → Nat
  | [] => 1
  | .short _ _ :: _ => 0
  | .fail _ :: _ => 0
  | .twice _ :: rest => 2 * mult rest
  | _ :: rest => mult rest

/-- two requests agree in everything but the URL -/
def SameButUrl (a b : Req) : Prop := a.method = b.method ∧ a.headers = b.headers ∧ a.body = b.body

/-- a probe of `req`: same method and headers, no body -/
def IsProbeOf (req : Req) (e : Ev) : Prop := ∃ u, e = probe req u

/-- the answer served at `u` tells Redirect to go on -/
def redirecting (w : World) (u : Url) : Prop := ∃ res, w.srv u = .ok res ∧ isRedirect res.status = true

/-- "At most one relative hop after each absolute one": no URL obtained by joining a relative Location is itself
    served a redirect whose Location is relative. -/
def NoRelAfterRel (w : World) : Prop :=
  ∀ b loc u, w.join b loc = some (.ok u) →
    ∀ res, w.srv u = .ok res → isRedirect res.status = true →
      ∀ loc', res.locs.getLast? = some loc' → w.parse loc' ≠ some .rel

end S.Mw
