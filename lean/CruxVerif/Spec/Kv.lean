/-
S.Kv — what C17 demands of an observation (ops handed to the shell, result delivered to the app),
stated from the API documentation, not from the code:
  * exactly one operation, of the kind of the call, with the call's arguments;
  * a response of the matching kind is delivered unchanged (absent ≠ empty), an error is passed through;
  * a response of another kind is outside the property (anything is accepted).
-/
import CruxVerif.Model.Kv
namespace S.Kv
open M.Kv

def opMatches : Call → Op → Bool
  | .get k, .get k' => k == k'
  | .set k v, .set k' v' => k == k' && v == v'
  | .delete k, .delete k' => k == k'
  | .exists_ k, .exists_ k' => k == k'
  | .listKeys p c, .listKeys p' c' => p == p' && c == c'
  | _, _ => false

/-- the documented result for a matching response; `none` when the response kind does not match the call -/
def expected : Call → KvResult → Option ApiResult
  | _, .err e => some (.error e)
  | .get _, .ok (.get .none) => some (.data none)
  | .get _, .ok (.get (.bytes b)) => some (.data (some b))
  | .set _ _, .ok (.set .none) => some (.data none)
  | .set _ _, .ok (.set (.bytes b)) => some (.data (some b))
  | .delete _, .ok (.delete .none) => some (.data none)
  | .delete _, .ok (.delete (.bytes b)) => some (.data (some b))
  | .exists_ _, .ok (.exists_ b) => some (.status b)
  | .listKeys _ _, .ok (.listKeys ks n) => some (.list ks n)
  | _, _ => none

def ok (c : Call) (r : KvResult) (ops : List Op) (res : ApiResult) : Bool :=
  (match ops with | [o] => opMatches c o | _ => false) &&
  (match expected c r with | some e => res == e | none => true)

def rejectKey (c : Call) (r : KvResult) (ops : List Op) (res : ApiResult) : String :=
  if !(match ops with | [o] => opMatches c o | _ => false) then "operation-altered"
  else if !(match expected c r with | some e => res == e | none => true) then "result-altered"
  else "none"

end S.Kv
