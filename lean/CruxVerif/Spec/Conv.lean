/-
S.Conv — the specification C19 is checked against, written with exact integer
arithmetic and independently of the control flow of M.Conv.

For a case (function, raw argument fields) and an observed outcome:
  * raw fields that are not a value of the source type    ⇒ outcome must be `skip`
  * value representable in the target type                ⇒ outcome must be `ok` and denote the same quantity
  * value not representable (negative, out of range,
    invalid sub-second part)                              ⇒ outcome must be an explicit rejection (`err` / `panic`)

Representability of nanosecond counts exchanged with chrono is with respect
to chrono's nanosecond interface (`i64`): a count in [2^63, 2^64) is treated
as not representable there (the code rejects it with `InvalidDuration`).
-/
import CruxVerif.Model.Conv
namespace S.Conv
open M.Conv

def validArg (f : Fn) (a b : Int) : Bool :=
  match f with
  | .fromMillis | .fromSecs | .durToStd | .durToTd => isU64 a
  | .stdToDur => isU64 a && 0 ≤ b && b < NPS
  | .instantNew | .instantToSys | .instantToDt => isU64 a && isU32 b
  | .sysToInstant => isI64 a && 0 ≤ b && b < NPS
  | .tdToDur => isTimeDelta a b
  | .dtToInstant => isDateTime a b

/-- Can the target type hold the value the argument denotes? -/
def representable (f : Fn) (a b : Int) : Bool :=
  match f with
  | .fromMillis => a * 1000000 < U64
  | .fromSecs => a * NPS < U64
  | .stdToDur => a * NPS + b < U64
  | .durToStd => true
  | .instantNew => b < NPS
  | .sysToInstant => 0 ≤ a
  | .instantToSys => b < NPS && a < I63
  | .tdToDur => 0 ≤ a * NPS + b && a * NPS + b < I63
  | .durToTd => a < I63
  | .instantToDt => a < I63 && isDateTime a b
  | .dtToInstant => 0 ≤ a

/-- Do the result fields form a value of the target type that denotes exactly what the argument denotes? -/
def exact (f : Fn) (a b : Int) (vs : List Int) : Bool :=
  match f with
  | .fromMillis => match vs with | [v] => isU64 v && v == a * 1000000 | _ => false
  | .fromSecs => match vs with | [v] => isU64 v && v == a * NPS | _ => false
  | .stdToDur => match vs with | [v] => isU64 v && v == a * NPS + b | _ => false
  | .durToStd => match vs with | [s, n] => isU64 s && 0 ≤ n && n < NPS && s * NPS + n == a | _ => false
  | .instantNew => match vs with | [s, n] => s == a && n == b | _ => false
  | .sysToInstant => match vs with
      | [s, n] => isU64 s && 0 ≤ n && n < NPS && s * NPS + n == a * NPS + b | _ => false
  | .instantToSys => match vs with
      | [s, n] => isI64 s && 0 ≤ n && n < NPS && s * NPS + n == a * NPS + b | _ => false
  | .tdToDur => match vs with | [v] => isU64 v && v == a * NPS + b | _ => false
  | .durToTd => match vs with | [s, n] => isTimeDelta s n && s * NPS + n == a | _ => false
  | .instantToDt => match vs with | [t, n] => isDateTime t n && t == a && n == b | _ => false
  | .dtToInstant => match vs with | [s, n] => isU64 s && isU32 n && s == a && n == b | _ => false

/-- The oracle. -/
def ok (f : Fn) (a b : Int) (o : Out) : Bool :=
  if !validArg f a b then o == .skip else
  match o with
  | .skip => false
  | .ok vs => representable f a b && exact f a b vs
  | .err _ | .panic _ => !representable f a b

/-- key naming the clause of the oracle that rejects an observation (for KNOWN_FINDINGS). -/
def rejectKey (f : Fn) (a b : Int) (o : Out) : String :=
  if !validArg f a b then "harness-constructed-invalid-argument" else
  match o with
  | .skip => "skip-on-valid-argument"
  | .ok vs => if !representable f a b then "unrepresentable-accepted" else
              if !exact f a b vs then "inexact" else "none"
  | .err _ | .panic _ => "representable-rejected"

end S.Conv
