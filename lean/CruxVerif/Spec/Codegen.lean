/-
S.Codegen — what C20 demands of a registry, stated on the registry itself and on the description it was derived
from, without reference to how the model (or the CLI) computes it:

  * invariance  : the registry obtained from a transformed description (item ids consistently renumbered, maps
                  re-ordered, dependent crates loaded in another order) is the registry of the original;
  * closed      : every `TypeName` occurring in a container is a key of the registry;
  * indices     : the keys of every enum container are 0,1,…,n-1;
  * declaration : … and the variant names in key order are the serde names of the non-skipped variants of an enum
                  of that name in the description, in declaration order;
  * protocol    : the container of a capability protocol type equals the one traced from its real serde implementation.
-/
import CruxVerif.Model.Codegen
namespace S.Codegen
open M.Codegen

abbrev Reg := List (String × Container)

/-! canonical token form (also the line format of the driver); equality of formats is equality of tokens -/

def Format.toks : Format → List String
  | .typeName n => ["tn", n]
  | .prim n => [n]
  | .option f => "opt" :: toks f
  | .seq f => "seq" :: toks f
  | .map k v => "map" :: (toks k ++ toks v)
  | .tuple fs => "tup" :: toString fs.length :: many fs
  | .arr n f => "arr" :: toString n :: toks f
  | .bad => ["!"]
where
  many : List Format → List String
    | [] => []
    | f :: fs => toks f ++ many fs

def namedToks (fs : List (String × Format)) : List String :=
  toString fs.length :: fs.flatMap fun p => p.1 :: Format.toks p.2

def fmtsToks (fs : List Format) : List String := toString fs.length :: fs.flatMap Format.toks

def VFormat.toks : VFormat → List String
  | .unit => ["u"]
  | .newType f => "n" :: Format.toks f
  | .tuple fs => "t" :: fmtsToks fs
  | .struct fs => "s" :: namedToks fs

def Container.toks : Container → List String
  | .unit => ["U"]
  | .newType f => "N" :: Format.toks f
  | .tuple fs => "T" :: fmtsToks fs
  | .struct fs => "S" :: namedToks fs
  | .enum vs => "E" :: toString vs.length :: vs.flatMap fun v => toString v.1 :: v.2.1 :: VFormat.toks v.2.2

def Reg.toks (r : Reg) : List String := toString r.length :: r.flatMap fun e => e.1 :: Container.toks e.2

/-! type names -/

def Format.typeNames : Format → List String
  | .typeName n => [n]
  | .option f | .seq f | .arr _ f => typeNames f
  | .map k v => typeNames k ++ typeNames v
  | .tuple fs => many fs
  | _ => []
where
  many : List Format → List String
    | [] => []
    | f :: fs => typeNames f ++ many fs

def VFormat.typeNames : VFormat → List String
  | .unit => []
  | .newType f => Format.typeNames f
  | .tuple fs => fs.flatMap Format.typeNames
  | .struct fs => fs.flatMap fun p => Format.typeNames p.2

def Container.typeNames : Container → List String
  | .unit => []
  | .newType f => Format.typeNames f
  | .tuple fs => fs.flatMap Format.typeNames
  | .struct fs => fs.flatMap fun p => Format.typeNames p.2
  | .enum vs => vs.flatMap fun v => VFormat.typeNames v.2.2

def hasKey (r : Reg) (n : String) : Bool := r.any fun e => e.1 == n

/-- type names used by some container that no container defines -/
def unresolved (r : Reg) : List String := (r.flatMap fun e => Container.typeNames e.2).filter fun n => !hasKey r n

def closed (r : Reg) : Bool := (unresolved r).isEmpty

def enumKeysOk : Container → Bool
  | .enum vs => vs.map (·.1) == List.range vs.length
  | _ => true

def gaps (r : Reg) : List String := (r.filter fun e => !enumKeysOk e.2).map (·.1)

def contiguous (r : Reg) : Bool := (gaps r).isEmpty

/-- serde names of the non-skipped variants of enum `e` of crate `c`, in declaration order -/
def declaredVariants (c : Crate) (e : Item) : List String :=
  e.variantIds.filterMap fun id =>
    match c.items.find? fun v => v.id == id with
    | some v => if v.attrs.skip then none else v.name.map fun n => variantName n v.attrs e.attrs
    | none => none

def declOk (avail : List Crate) (name : String) : Container → Bool
  | .enum vs => avail.any fun c => c.items.any fun e =>
      e.isEnum && e.serdeName == some name && declaredVariants c e == vs.map (·.2.1)
  | _ => true

def misordered (avail : List Crate) (r : Reg) : List String := (r.filter fun e => !declOk avail e.1 e.2).map (·.1)

/-! the structural condition under which closedness is proved (Props/C20.lean `closed_partial`), stated on the edge
    relation the formatter is given, before any container is built -/

/-- the name under which a `container` rule fires for source node `x`, by kind and serde name alone -/
def produces (E : Edges) (x : Node) : Option String :=
  match x.item.serdeName with
  | none => none
  | some n =>
    match x.item.kind with
    | .structUnit | .structPlain _ | .structTuple _ => some n
    | .enum _ => if (variantSet E x).isEmpty then none else some n
    | _ => none

def defined (E : Edges) : List String :=
  (E.map (·.1)).filterMap (produces E) ++ (ranges E).map (·.1) ++ ["Request"]

def nodesOf (E : Edges) : List Node := E.flatMap fun e => [e.1, e.2]

def fieldRefs (E : Edges) : List String :=
  (nodesOf E).flatMap fun x => (fieldSet E x).flatMap fun f =>
    match fieldFormat f.item with
    | some fm => Format.typeNames fm
    | none => []

/-- type names some reachable field refers to, those of `Range` arguments, and `Effect` (formatter.rs:321) -/
def referenced (E : Edges) : List String :=
  fieldRefs E ++ (ranges E).flatMap (fun e => Container.typeNames e.2) ++ ["Effect"]

/-- every referenced type name is the name of a reachable struct, of a reachable enum with a reachable variant,
    `Range` (when a range field is reachable) or `Request` -/
def resolvable (E : Edges) : Bool := (referenced E).all fun n => (defined E).contains n

/-- no two containers of different shape compete for one name (compared in canonical token form) -/
def noClash (r : Reg) : Bool := r.all fun a => r.all fun b => a.1 != b.1 || Container.toks a.2 == Container.toks b.2

/-- the side conditions of the theorems of Props/C20.lean that concern the edge relation; `none` = all met -/
def unmetHypothesis (E : Edges) : Option String :=
  if !variantsWF E then some "variantsWF"
  else if !resolvable E then some "resolvable"
  else if !noClash (containers E) then some "noClash"
  else none

/-! cases and observations of the `cli` engine -/

inductive Obs where
  | reg (r : Reg)
  | container (c : Container)
  | missing
  | other (cls : String)      -- err / panic / nondet / stale-description …

inductive Case where
  | reg (fixture : String) (variant : String) (expected : Reg) (avail : List Crate)
  | proto (fixture : String) (ty : String) (traced : Container) (avail : List Crate)
  /-- a synthetic description (outside the quantifier of C20: it may be unclosed, clash, panic, fail to load);
      `expected` is the real CLI's observation on the untransformed description -/
  | syn (fixture : String) (variant : String) (expected : Obs) (avail : List Crate)

def Obs.toks : Obs → List String
  | .reg r => "ok" :: Reg.toks r
  | .container c => "ok" :: Container.toks c
  | .missing => ["missing"]
  | .other cls => [cls]

def variantKey (variant : String) : String :=
  match String.ofList (variant.toList.takeWhile fun ch => ch != ':') with
  | "renum" => "depends-on-numbering"
  | "shuf" => "depends-on-map-order"
  | "order" => "depends-on-crate-order"
  | "mix" => "depends-on-numbering-and-order"
  | _ => "not-reproducible"

/-- `none` = accepted -/
def verdict : Case → Obs → Option String
  | .reg _ variant expected avail, .reg r =>
    if Reg.toks r != Reg.toks expected then some (variantKey variant)
    else match unresolved r with
      | n :: _ => some ("not-closed:" ++ n)
      | [] => match gaps r with
        | n :: _ => some ("variant-index-gap:" ++ n)
        | [] => match misordered avail r with
          | n :: _ => some ("variant-order:" ++ n)
          | [] => none
  | .proto _ ty traced _, .container c =>
    if Container.toks c != Container.toks traced then some ("proto-mismatch:" ++ ty) else none
  | .proto _ ty _ _, .missing => some ("proto-missing:" ++ ty)
  | .syn _ variant expected _, o =>
    if Obs.toks o != Obs.toks expected then some ("syn-" ++ variantKey variant)
    else match o with
      | .reg r => (match gaps r with | n :: _ => some ("syn-variant-index-gap:" ++ n) | [] => none)
      | _ => none
  | _, .other cls => some ("no-registry:" ++ cls)
  | _, _ => some "observation-of-wrong-kind"

def ok (c : Case) (o : Obs) : Bool := (verdict c o).isNone

def rejectKey (c : Case) (o : Obs) : String := (verdict c o).getD "none"

end S.Codegen
