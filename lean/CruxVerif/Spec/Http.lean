/-
S.Http — what C14 and C15 demand of an observation, written from the API documentation of crux_http
(doc comments of `RequestBuilder::{header, content_type, body_string, body_json, body_bytes, body_form, query}`,
`Response`, `HttpError`, `expect_string`, `expect_json`) and from the property statements — not from the code's
control flow: the expected request is computed *backwards* from the list of builder calls ("the last call that
names this header", "the last body"), the expected outcome from the status ranges 1xx-3xx / 4xx-5xx.

Third-party functions that are opaque for the model are opaque here as well (same case fields); the tables shared
with the model are the byte constants and `formEncode` (the application/x-www-form-urlencoded serializer).
-/
import CruxVerif.Model.Http
namespace S.Http
open M.Http

/-! ### C14 — the request the shell must see -/

/-- values observed under header name `n` (names compared ASCII case-insensitively), in order -/
def valuesFor (hs : List (Bytes × Bytes)) (n : Bytes) : List Bytes :=
  (hs.filter (fun p => lower p.1 == n)).map (·.2)

/-- documented content types: `body_string` "text/plain; charset=utf-8", `body_json` "application/json",
    `body_form` "application/x-www-form-urlencoded", `body_bytes` "application/octet-stream" -/
def documentedMime : BodyKind → Bytes
  | .string => ascii "text/plain;charset=utf-8"
  | .json => ascii "application/json"
  | .form => ascii "application/x-www-form-urlencoded"
  | .bytes => ascii "application/octet-stream"

/-- header names and values must be ASCII (documented panic of http-types otherwise): outside, nothing is demanded -/
def inDomain (calls : List Call) : Bool :=
  calls.all fun
    | .header n vs => isAscii n && vs.all isAscii
    | _ => true

/-- the values call `c` explicitly gives header `n` (lower-case), if it names it -/
def explicitFor (n : Bytes) : Call → Option (List Bytes)
  | .header k vs => if lower k == n then some vs else none
  | .contentType d => if ctName == n then some [d] else none
  | _ => none

/-- the last call that explicitly sets header `n` wins, with all its values -/
def lastExplicit (n : Bytes) : List Call → Option (List Bytes)
  | [] => none
  | c :: cs => match lastExplicit n cs with
    | some vs => some vs
    | none => explicitFor n c

def bodyOf : Call → Option (BodyKind × Bytes)
  | .body k b => some (k, b)
  | .bodyForm ps => some (.form, formEncode ps)
  | .bodyReader chunks d => some (.bytes, readerContent chunks d)
  | _ => none

/-- the body that is sent is the last one set -/
def lastBody : List Call → Option (BodyKind × Bytes)
  | [] => none
  | c :: cs => match lastBody cs with
    | some x => some x
    | none => bodyOf c

def firstBody : List Call → Option (BodyKind × Bytes)
  | [] => none
  | c :: cs => match bodyOf c with
    | some x => some x
    | none => firstBody cs

def lastQuery : List Call → Option Bytes
  | [] => none
  | c :: cs => match lastQuery cs with
    | some u => some u
    | none => match c with
      | .query u => some u
      | _ => none

/-- the values header `n` must carry: those of the last explicit setting; otherwise, for `content-type`, the
    documented type of the body that is sent; otherwise none — nothing else is added -/
def expectedValues (calls : List Call) (n : Bytes) : List Bytes :=
  match lastExplicit n calls with
  | some vs => vs
  | none =>
    if n == ctName then
      match lastBody calls with
      | some (k, _) => [documentedMime k]
      | none => []
    else []

def expectedBody (calls : List Call) : Bytes :=
  match lastBody calls with
  | some (_, b) => b
  | none => []

def expectedUrl (c : ReqCase) : Bytes :=
  match lastQuery c.calls with
  | some u => u
  | none => c.url

def callName : Call → Option Bytes
  | .header k _ => some (lower k)
  | _ => none

/-- every name that occurs in the observation or in a call, and `content-type` -/
def namesToCheck (calls : List Call) (hs : List (Bytes × Bytes)) : List Bytes :=
  hs.map (fun p => lower p.1) ++ calls.filterMap callName ++ [ctName]

def headersOk (calls : List Call) (hs : List (Bytes × Bytes)) : Bool :=
  (namesToCheck calls hs).all fun k => valuesFor hs k == expectedValues calls k

/-- C14: exactly one effect; method, URL, body bytes as specified; every header exactly the specified values. -/
def okReq (c : ReqCase) (o : ReqObs) : Bool :=
  if !inDomain c.calls then true else
  match o with
  | .panic _ => false
  | .req n m u hs b =>
    n == 1 && m == upper c.method && u == expectedUrl c && b == expectedBody c.calls && headersOk c.calls hs

/-- Defect region of the pinned tree: no explicit content type, and the body was replaced by one of another kind —
    `set_body` keeps the content type of the *first* body (`copy_content_type_from_body` only fills a gap). -/
def staleContentType (calls : List Call) : Bool :=
  (lastExplicit ctName calls).isNone &&
  (match firstBody calls, lastBody calls with
   | some (k1, _), some (k2, _) => documentedMime k1 != documentedMime k2
   | _, _ => false)

/-- the headers are right except that `content-type` carries the documented type of the first body -/
def headersOkButStale (calls : List Call) (hs : List (Bytes × Bytes)) : Bool :=
  staleContentType calls &&
  (namesToCheck calls hs).all fun k =>
    valuesFor hs k ==
      (if k == ctName then (match firstBody calls with | some (k1, _) => [documentedMime k1] | none => [])
       else expectedValues calls k)

def rejectKeyReq (c : ReqCase) (o : ReqObs) : String :=
  if okReq c o then "none" else
  match o with
  | .panic _ => "request-panics"
  | .req n m u hs b =>
    if n != 1 then "effect-count"
    else if m != upper c.method then "method-altered"
    else if u != expectedUrl c then "url-altered"
    else if b != expectedBody c.calls then "body-altered"
    else if headersOkButStale c.calls hs then "stale-content-type"
    else if (namesToCheck c.calls hs).any (fun k => expectedValues c.calls k == [] && valuesFor hs k != []) then
      "header-added"
    else "header-altered"

/-! ### UTF-8, as the standard defines it: the encoding of a sequence of Unicode scalar values -/

/-- Unicode scalar values: code points up to U+10FFFF except the surrogates U+D800..U+DFFF -/
def isScalar (c : Nat) : Bool := c < 55296 || (57344 ≤ c && c < 1114112)

/-- UTF-8 encoding of one scalar value (Unicode 15 §3.9, table 3-6) -/
def encodeScalar (c : Nat) : Bytes :=
  if c < 128 then [c]
  else if c < 2048 then [192 + c / 64, 128 + c % 64]
  else if c < 65536 then [224 + c / 4096, 128 + c / 64 % 64, 128 + c % 64]
  else [240 + c / 262144, 128 + c / 4096 % 64, 128 + c / 64 % 64, 128 + c % 64]

def encodeUtf8 (cs : List Nat) : Bytes := cs.flatMap encodeScalar

/-! ### C15 — the outcome the app must get -/

def asciiHeaders (hs : List (Bytes × Bytes)) : Bool := hs.all fun p => isAscii p.1 && isAscii p.2

def headerNames (given obs : List (Bytes × Bytes)) : List Bytes :=
  given.map (fun p => lower p.1) ++ obs.map (fun p => lower p.1) ++ [ctName]

/-- the same headers: every name carries exactly the values the shell gave, in order, and nothing else exists -/
def sameHeaders (given obs : List (Bytes × Bytes)) : Bool :=
  (headerNames given obs).all fun n => valuesFor obs n == valuesFor given n

/-- the same headers except for one extra leading `content-type: application/octet-stream` (known defect) -/
def sameHeadersModInjection (given obs : List (Bytes × Bytes)) : Bool :=
  (headerNames given obs).all fun n =>
    valuesFor obs n == (if n == ctName then [ascii "application/octet-stream"] else []) ++ valuesFor given n

/-- what a conforming decoder yields for the body of a successful response:
    `some (some b)` — exactly `b`; `some none` — an error value; `none` — the opaque decoder's result is not known -/
def expectedDecoded (e : Expect) (f : Facts) (body : Bytes) : Option (Option Bytes) :=
  match e with
  | .bytes => some (some body)
  | .string =>
    if f.enc == .unknown then some none                            -- unsupported charset label: an error value
    else if f.enc == .utf8 && !bom16 body then utf8                -- UTF-8 (label or default): `String::from_utf8`
    else dec f.sd                                                  -- any other decoder: what encoding_rs' `decode` yields
  | .json => dec f.jd
where
  /-- UTF-8 as `String::from_utf8`: the same bytes (a UTF-8 byte order mark is kept) or an error -/
  utf8 : Option (Option Bytes) := if validUtf8 body then some (some body) else some none
  dec : Dec → Option (Option Bytes)
    | .ok s => some (some s)
    | .fail _ => some none
    | .na => none

/-- C15 with the header comparison as a parameter -/
def okRespWith (hdrs : List (Bytes × Bytes) → List (Bytes × Bytes) → Bool)
    (res : HttpResult) (e : Expect) (f : Facts) (o : Outcome) : Bool :=
  match res with
  | .err err => o == .error err                                    -- passed through unchanged
  | .ok r =>
    if 400 ≤ r.status && r.status < 600 then                       -- 4xx/5xx: HTTP error with status and body
      match o with
      | .error (.http code _ (some b)) => code == r.status && b == r.body
      | _ => false
    else if 100 ≤ r.status && r.status < 400 then                  -- 1xx-3xx: success, same status/headers/body
      match o, expectedDecoded e f r.body with
      | .panic _, _ => false
      | .success s hs b, some (some x) => s == r.status && hdrs r.headers hs && b == x
      | .success s hs _, none => s == r.status && hdrs r.headers hs
      | .success _ _ _, some none => false
      | .error _, some (some _) => false
      | .error _, _ => true
    else                                                           -- not an HTTP status class: one outcome, no panic
      match o with
      | .panic _ => false
      | _ => true

def okResp := okRespWith sameHeaders

/-- accepted modulo the injected content type -/
def okRespModInjection := okRespWith sameHeadersModInjection

def rejectKeyResp (res : HttpResult) (e : Expect) (f : Facts) (o : Outcome) : String :=
  if okResp res e f o then "none" else
  match o, res with
  | .panic .status, .ok r => if !isValidStatus r.status then "invalid-status-panics" else "unexpected-panic"
  | .panic .header, .ok r => if !asciiHeaders r.headers then "non-ascii-header-panics" else "unexpected-panic"
  | .panic _, _ => "unexpected-panic"
  | _, .err _ => "error-not-passed-through"
  | o, .ok r =>
    if okRespModInjection res e f o then "content-type-injected"
    else if 400 ≤ r.status && r.status < 600 then "error-response-altered"
    else match o with
      | .success s hs b =>
        if s != r.status then "status-altered"
        else if !(sameHeaders r.headers hs || sameHeadersModInjection r.headers hs) then "headers-altered"
        else if e == .string && f.enc == .other && bom8 r.body && b == r.body then "utf8-bom-kept-under-other-label"
        else "body-altered"
      | _ => "success-response-misclassified"

end S.Http
