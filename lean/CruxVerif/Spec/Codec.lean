/-
S.Codec — which universal values are values *of* a format under a registry (`wt R f v`, a `Bool`).
Written from the meaning of the serde-reflection schema (format.rs doc comments), by recursion on the value —
independently of the decoder's control flow (no fuel, no bytes):

  bool ↦ `bool _`; an integer format ↦ `num` of the same type within its range (floats: any bit pattern);
  char ↦ a Unicode scalar value; str ↦ well-formed UTF-8; Option ↦ `none` / `some v`;
  seq ↦ `seq` of values of the element format; map ↦ `seq` of 2-tuples (key, value);
  unit ↦ `tuple []`; tuple ↦ `tuple` of matching arity; `[T; n]` ↦ `tuple` of exactly `n`;
  a named struct ↦ `tuple` of its fields; a named enum ↦ `variant i (tuple fields)` for a variant index `i` the
  enum has. Lengths fit a u64 and a variant index fits a u32 (what the wire format can carry).
-/
import CruxVerif.Model.Bincode
namespace S.Codec
open M.Schema M.Bincode

def numInRange (t : NumTy) (n : Int) : Bool :=
  if t.signed then decide (-(t.modulus : Int) ≤ 2 * n ∧ 2 * n < (t.modulus : Int))
  else decide (0 ≤ n ∧ n < (t.modulus : Int))

scoped notation "U64" => (18446744073709551616 : Nat)
scoped notation "U32" => (4294967296 : Nat)

mutual
def wt (R : Registry) : Format → Value → Bool
  | .bool, .bool _ => true
  | .num t, .num t' n => decide (t = t') && numInRange t n
  | .char, .char c => isScalar c
  | .str, .str s => validUtf8 s && decide (s.length < U64)
  | .bytes, .bytes b => decide (b.length < U64)
  | .option _, .none => true
  | .option f, .some v => wt R f v
  | .seq f, .seq vs => decide (vs.length < U64) && wtAll R f vs
  | .map k v, .seq vs => decide (vs.length < U64) && wtPairs R k v vs
  | .unit, .tuple vs => vs.isEmpty
  | .tuple fs, .tuple vs => wtT R fs vs
  | .tupleArray f n, .tuple vs => decide (vs.length = n) && wtAll R f vs
  | .typeName n, .tuple vs =>
    match lookup n R with
    | some c => match structFields c with
      | some fs => wtT R fs vs
      | none => false
    | none => false
  | .typeName n, .variant i (.tuple vs) =>
    match lookup n R with
    | some (.enum variants) =>
      decide (i < U32) &&
      match lookupVariant i variants with
      | some vf => wtT R vf.value.fields vs
      | none => false
    | _ => false
  | _, _ => false
/-- every element has format `f` -/
def wtAll (R : Registry) : Format → List Value → Bool
  | _, [] => true
  | f, v :: vs => wt R f v && wtAll R f vs
/-- fields against formats, same arity -/
def wtT (R : Registry) : List Format → List Value → Bool
  | [], [] => true
  | f :: fs, v :: vs => wt R f v && wtT R fs vs
  | _, _ => false
/-- map entries -/
def wtPairs (R : Registry) : Format → Format → List Value → Bool
  | _, _, [] => true
  | k, v, .tuple [a, b] :: vs => wt R k a && wt R v b && wtPairs R k v vs
  | _, _, _ => false
end

/-! ### the oracle of engine `codec`

What C10 demands of one observation of the real code, stated with `wt`, `enc` and `dec` only:

  `val`     the Rust value is a value of its traced schema; Rust writes exactly `enc v`; reading those bytes back
            gives `v` again, nothing left over;
  `strict`  the bytes (emitted by the core, or built from the schema as a generated shell would) decode under the
            schema with nothing left over; Rust accepts them as that same value; Rust re-writes the same bytes;
  `any`     if the schema accepts a prefix of the bytes as `v`, so does Rust, and Rust writes that prefix for `v`
            (bytes the schema rejects are C12's business: anything goes here). -/

def ok (c : Case) (o : Obs) : Bool :=
  match c.kind with
  | .val =>
    match c.v with
    | none => (match o with | .notInSchema => true | _ => false)
    | some v =>
      if wt c.R c.f v then
        match o with
        | .wrote bs (some v') => decide (bs = enc v) && v'.beq v
        | _ => false
      else (match o with | .notInSchema => true | _ => false)
  | .strict =>
    match dec (fuelFor c.R c.bytes) c.R c.f c.bytes with
    | some (v, []) =>
      (match o with
       | .accepted v' re trail => v'.beq v && decide (re = c.bytes) && !trail
       | _ => false)
    | _ => false
  | .any =>
    match dec (fuelFor c.R c.bytes) c.R c.f c.bytes with
    | some (v, rest) =>
      (match o with
       | .accepted v' re trail => v'.beq v && decide (re ++ rest = c.bytes) && (trail == !rest.isEmpty)
       | _ => false)
    | none => true

/-- `typegen` cases: an app holding an enum the tracer may have seen incompletely. Either the generator refuses
    explicitly, or the schema it hands out is complete for that enum (it was registered on its own, or has at most one
    variant). A schema that silently lacks variants the core can emit is what C10 forbids. -/
def typegenOk (variants : Nat) (registeredAlone : Bool) (refused : Bool) : Bool :=
  refused || registeredAlone || decide (variants ≤ 1)

/-! #### keys: where written bytes stop being the schema encoding of the value

`diff` walks the value and the bytes together. A variant number other than the schema's is reported as
`<enum>-skip-index` (the derived `Serialize` and the traced schema can only disagree on a variant's number when
`#[serde(skip)]` variants precede it, see `M.Bincode.deIndex`); anything else as `<container>-bytes-differ`,
`<container>` being the innermost enclosing named container, lower-cased. -/

def lower (s : String) : String := s.map Char.toLower

def leaf (ctx : String) (v : Value) (bs : Bytes) : Sum String Bytes :=
  let e := enc v
  if bs.take e.length = e then .inr (bs.drop e.length) else .inl (lower ctx ++ "-bytes-differ")

mutual
def diff (R : Registry) (ctx : String) : Format → Value → Bytes → Sum String Bytes
  | .typeName n, .variant i (.tuple vs), bs =>
    match decNat 4 bs with
    | some (j, r) =>
      if j = i then
        match lookup n R with
        | some (.enum variants) =>
          match lookupVariant i variants with
          | some vf => diffT R n vf.value.fields vs r
          | none => .inl (lower n ++ "-bytes-differ")
        | _ => .inl (lower n ++ "-bytes-differ")
      else .inl (lower n ++ "-skip-index")
    | none => .inl (lower n ++ "-bytes-differ")
  | .typeName n, .tuple vs, bs =>
    match lookup n R with
    | some c =>
      match structFields c with
      | some fs => diffT R n fs vs bs
      | none => .inl (lower n ++ "-bytes-differ")
    | none => .inl (lower n ++ "-bytes-differ")
  | .option f, .some v, bs =>
    match bs with
    | b :: r => if b = 1 then diff R ctx f v r else .inl (lower ctx ++ "-bytes-differ")
    | [] => .inl (lower ctx ++ "-bytes-differ")
  | .seq f, .seq vs, bs =>
    match decNat 8 bs with
    | some (n, r) => if n = vs.length then diffAll R ctx f vs r else .inl (lower ctx ++ "-bytes-differ")
    | none => .inl (lower ctx ++ "-bytes-differ")
  | .map k f, .seq vs, bs =>
    match decNat 8 bs with
    | some (n, r) => if n = vs.length then diffPairs R ctx k f vs r else .inl (lower ctx ++ "-bytes-differ")
    | none => .inl (lower ctx ++ "-bytes-differ")
  | .tuple fs, .tuple vs, bs => diffT R ctx fs vs bs
  | .tupleArray f _, .tuple vs, bs => diffAll R ctx f vs bs
  | _, v, bs => leaf ctx v bs
def diffAll (R : Registry) (ctx : String) : Format → List Value → Bytes → Sum String Bytes
  | _, [], bs => .inr bs
  | f, v :: vs, bs =>
    match diff R ctx f v bs with
    | .inr r => diffAll R ctx f vs r
    | .inl k => .inl k
def diffT (R : Registry) (ctx : String) : List Format → List Value → Bytes → Sum String Bytes
  | f :: fs, v :: vs, bs =>
    match diff R ctx f v bs with
    | .inr r => diffT R ctx fs vs r
    | .inl k => .inl k
  | _, _, bs => .inr bs
def diffPairs (R : Registry) (ctx : String) : Format → Format → List Value → Bytes → Sum String Bytes
  | k, f, .tuple [a, b] :: vs, bs =>
    match diff R ctx k a bs with
    | .inr r =>
      match diff R ctx f b r with
      | .inr r' => diffPairs R ctx k f vs r'
      | .inl key => .inl key
    | .inl key => .inl key
  | _, _, _, bs => .inr bs
end

def diffKey (c : Case) (v : Value) (written : Bytes) : String :=
  match diff c.R c.root c.f v written with
  | .inl k => k
  | .inr _ => lower c.root ++ "-bytes-differ"

def rejectKey (c : Case) (o : Obs) : String :=
  let root := lower c.root
  match c.kind with
  | .val =>
    match c.v with
    | none => root ++ "-value-not-in-schema"
    | some v =>
      if wt c.R c.f v then
        match o with
        | .wrote bs back =>
          if bs ≠ enc v then diffKey c v bs
          else match back with
            | some _ => root ++ "-read-back-differs"
            | none => root ++ "-own-bytes-rejected"
        | .serError => root ++ "-serialize-failed"
        | _ => root ++ "-unexpected-observation"
      else root ++ "-value-not-in-schema"
  | _ =>
    match dec (fuelFor c.R c.bytes) c.R c.f c.bytes with
    | some (v, rest) =>
      if c.kind = .strict ∧ rest ≠ [] then root ++ "-bytes-not-schema-valid"
      else
        match o with
        | .accepted v' re _ =>
          if !(v'.beq v) then root ++ "-accepted-as-other-value"
          else if re ++ rest ≠ c.bytes then diffKey c v re
          else root ++ "-trailing-bytes-misreported"
        | .rejected => root ++ "-valid-encoding-rejected"
        | _ => root ++ "-unexpected-observation"
    | none => root ++ "-bytes-not-schema-valid"

end S.Codec
