/-
S.Codec — which universal values are values *of* a format under a registry (`wt R f v`, a `Bool`).
Written from the meaning of the serde-reflection schema (format.rs doc comments), by recursion on the value —
independently of the decoder's control flow (no fuel, no bytes):

  bool ↦ `bool _`; an integer format ↦ `num` of the same type within its range (floats: any bit pattern);
  char ↦ a Unicode scalar value; str ↦ well-formed UTF-8; Option ↦ `none` / `some v`;
  seq ↦ `seq` of values of the element format; map ↦ `seq` of 2-tuples (key, value);
  unit ↦ `tuple []`; tuple ↦ `tuple` of matching arity; `[T; n]` ↦ `tuple` of exactly `n`;
  a named struct ↦ `tuple` of its fields; a named enum ↦ `variant i (tuple fields)` for a variant index `i` the
  enum has. Lengths fit a u64 and a variant index fits a u32 (what the wire format can carry).
-/
import CruxVerif.Model.Bincode
namespace S.Codec
open M.Schema M.Bincode

def numInRange (t : NumTy) (n : Int) : Bool :=
  if t.signed then decide (-(t.modulus : Int) ≤ 2 * n ∧ 2 * n < (t.modulus : Int))
  else decide (0 ≤ n ∧ n < (t.modulus : Int))

scoped notation "U64" => (18446744073709551616 : Nat)
scoped notation "U32" => (4294967296 : Nat)

mutual
def wt (R : Registry) : Format → Value → Bool
  | .bool, .bool _ => true
  | .num t, .num t' n => decide (t = t') && numInRange t n
  | .char, .char c => isScalar c
  | .str, .str s => validUtf8 s && decide (s.length < U64)
  | .bytes, .bytes b => decide (b.length < U64)
  | .option _, .none => true
  | .option f, .some v => wt R f v
  | .seq f, .seq vs => decide (vs.length < U64) && wtAll R f vs
  | .map k v, .seq vs => decide (vs.length < U64) && wtPairs R k v vs
  | .unit, .tuple vs => vs.isEmpty
  | .tuple fs, .tuple vs => wtT R fs vs
  | .tupleArray f n, .tuple vs => decide (vs.length = n) && wtAll R f vs
  | .typeName n, .tuple vs =>
    match lookup n R with
    | some c => match structFields c with
      | some fs => wtT R fs vs
      | none => false
    | none => false
  | .typeName n, .variant i (.tuple vs) =>
    match lookup n R with
    | some (.enum variants) =>
      decide (i < U32) &&
      match lookupVariant i variants with
      | some vf => wtT R vf.value.fields vs
      | none => false
    | _ => false
  | _, _ => false
/-- every element has format `f` -/
def wtAll (R : Registry) : Format → List Value → Bool
  | _, [] => true
  | f, v :: vs => wt R f v && wtAll R f vs
/-- fields against formats, same arity -/
def wtT (R : Registry) : List Format → List Value → Bool
  | [], [] => true
  | f :: fs, v :: vs => wt R f v && wtT R fs vs
  | _, _ => false
/-- map entries -/
def wtPairs (R : Registry) : Format → Format → List Value → Bool
  | _, _, [] => true
  | k, v, .tuple [a, b] :: vs => wt R k a && wt R v b && wtPairs R k v vs
  | _, _, _ => false
end

end S.Codec
