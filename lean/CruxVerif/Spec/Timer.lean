/-
S.Timer — what C18 demands of an observation, written from the property text as a trace monitor over what one
timer was subjected to and what it was seen to do; it knows nothing of tasks, wakers, channels or control states.

  "Every timer an app starts gets an id no other timer in the process has,                          (ids, foreign-id)
   and reports at most one outcome:                                                                 (oneOutcome)
   completed only if the shell answered its request,                                                (completedOnlyIfAnswered)
   cleared only if the app cleared it.                                                              (clearedOnlyIfCleared)
   A timer cleared before it was ever requested sends nothing to the shell;                         (earlyClearSilent)
   a timer cleared while its request is pending sends exactly one clear request for its id          (clearOnlyIfAppCleared,
                                                                                                     oneClear, clearSentWhenDue)
   and reports cleared once that is answered                                                        (clearedReported)
   - unless the shell's answer was already waiting when the timer next ran, in which case it
   reports completed and sends no clear.                                                            (answerWins)
   Dropping the handle never cancels the timer,                                       (clearOnlyIfAppCleared, answerWins)
   and clears or answers arriving after the outcome are ignored."                                   (lateIgnored)

An entry is one step of one timer: what was done to it (`act`, with the result class `res` the caller saw), whether
its command was then run (`ran`), and which effects / events of this timer became visible in that step.
A response of the wrong kind or with a foreign id makes the real task panic; the property says nothing about such
shells, so from the moment such a response is delivered where it can still matter the monitor accepts everything
(`poisoned`); a panic without that is rejected.
-/
import CruxVerif.Model.Timer
namespace S.Timer
open M.Timer

structure Entry where
  act : Act
  ran : Bool
  res : Res
  effects : List Eff
  events : List Ev
deriving DecidableEq, Repr

/-- the response that answers timer `(k, id)`'s request -/
def goodResp (k : Kind) (id : Nat) : Resp :=
  match k with
  | .after => .elapsed id
  | .at => .arrived id

/-- summary of the history of one timer, computed from entries only -/
structure Mon where
  requested : Bool := false           -- its request has been sent to the shell
  appCleared : Bool := false          -- the app called `clear` on its handle
  clearedEarly : Bool := false        -- … before the request was ever sent
  answered : Bool := false            -- the shell answered the request with the matching response
  answeredAny : Bool := false         -- the shell answered the request with something
  clearSent : Bool := false           -- a Clear request has been sent
  outcome : Bool := false             -- an outcome has been reported
  answerWaiting : Bool := false       -- the matching answer is waiting (delivered before any Clear was sent / outcome reported)
  clearAnswerWaiting : Bool := false  -- the answer to the Clear request is waiting
  poisoned : Bool := false            -- a wrong response was delivered where the code will look at it
deriving DecidableEq, Repr

/-- the history after the action part of an entry (before the command runs) -/
def Mon.mid (m : Mon) (k : Kind) (id : Nat) (a : Act) (res : Res) : Mon :=
  -- a step that delivers a response and then runs the command shows `panic` instead of `ok` when the task panics
  match a, (if res == .panic then .ok else res) with
  | .resolveReq v, .ok =>
    let matters := !m.outcome && !m.clearSent
    { m with answeredAny := true, answered := v == goodResp k id,
             answerWaiting := matters && v == goodResp k id,
             poisoned := m.poisoned || (matters && v != goodResp k id) }
  | .clear, .unit => { m with appCleared := true, clearedEarly := !m.requested }
  | .resolveClr v, .ok =>
    { m with clearAnswerWaiting := !m.outcome && v == .cleared id,
             poisoned := m.poisoned || (!m.outcome && v != .cleared id) }
  | _, _ => m

/-- the history after the whole entry -/
def Mon.after (md : Mon) (k : Kind) (id : Nat) (e : Entry) : Mon :=
  if md.poisoned then md else
  { md with requested := md.requested || e.effects.contains (.notify k id),
            clearSent := md.clearSent || e.effects.contains (.clear id),
            outcome := md.outcome || !e.events.isEmpty,
            answerWaiting := md.answerWaiting && e.events.isEmpty,
            clearAnswerWaiting := md.clearAnswerWaiting && e.events.isEmpty }

/-! ### the clauses (`m`: history before the entry, `md`: after its action part) -/
section clauses
variable (k : Kind) (id : Nat) (m md : Mon) (e : Entry)

/-- the task panics only after a wrong response -/
def noPanic : Bool := !(e.res == .panic || e.res == .dead)

/-- everything the timer sends carries its own id (and its own kind), a completed handle carries its id -/
def ownIds : Bool :=
  e.effects.all (fun x => x == .notify k id || x == .clear id) &&
  e.events.all (fun x => x == .completed id || x == .cleared)

/-- nothing becomes visible unless the command ran -/
def quietUnlessRan : Bool := e.ran || (e.effects.isEmpty && e.events.isEmpty)

/-- at most one outcome -/
def oneOutcome : Bool := e.events.length ≤ 1 && (!m.outcome || e.events.isEmpty)

/-- completed only if the shell answered its request -/
def completedOnlyIfAnswered : Bool := !e.events.contains (.completed id) || md.answered

/-- cleared only if the app cleared it -/
def clearedOnlyIfCleared : Bool := !e.events.contains .cleared || md.appCleared

/-- cleared before it was ever requested: nothing is sent, ever -/
def earlyClearSilent : Bool := !md.clearedEarly || e.effects.isEmpty

/-- a Clear request only if the app cleared the timer (dropping the handle does not cancel) -/
def clearOnlyIfAppCleared : Bool := !e.effects.contains (.clear id) || md.appCleared

/-- at most one Clear request, and the timer request at most once -/
def oneClear : Bool :=
  (!e.effects.contains (.clear id) || (!m.clearSent && e.effects.count (.clear id) ≤ 1)) &&
  (!e.effects.contains (.notify k id) || (!m.requested && e.effects.count (.notify k id) ≤ 1))

/-- the first run sends the request (unless the app cleared the timer before) -/
def requestSentWhenDue : Bool :=
  !(e.ran && !m.requested && !md.appCleared && !md.outcome) || e.effects == [.notify k id]

/-- cleared while pending, no answer waiting: the next run sends exactly the Clear request -/
def clearSentWhenDue : Bool :=
  !(e.ran && md.appCleared && md.requested && !md.clearSent && !md.answeredAny && !md.outcome) ||
    (e.effects == [.clear id] && e.events.isEmpty)

/-- the answer was waiting when the timer next ran: completed, and no Clear (whatever happened to the handle) -/
def answerWins : Bool :=
  !md.answerWaiting || ((!e.ran && e.effects.isEmpty) || (e.events == [.completed id] && e.effects.isEmpty))

/-- the Clear request was answered: cleared is reported at the next run -/
def clearedReported : Bool :=
  !(e.ran && md.clearAnswerWaiting) || (e.events == [.cleared] && e.effects.isEmpty)

/-- after the outcome nothing is sent or reported any more -/
def lateIgnored : Bool := !m.outcome || (e.effects.isEmpty && e.events.isEmpty)

end clauses

/-- the clauses with their keys, in the order they are tried -/
def clauses (k : Kind) (id : Nat) : List (String × (Mon → Mon → Entry → Bool)) :=
  [ ("unexpected-panic", fun _ _ e => noPanic e),
    ("foreign-id", fun _ _ e => ownIds k id e),
    ("output-without-run", fun _ _ e => quietUnlessRan e),
    ("output-after-outcome", fun m _ e => lateIgnored m e),
    ("second-outcome", fun m _ e => oneOutcome m e),
    ("completed-unanswered", fun _ md e => completedOnlyIfAnswered id md e),
    ("cleared-without-clear", fun _ md e => clearedOnlyIfCleared md e),
    ("early-clear-not-silent", fun _ md e => earlyClearSilent md e),
    ("clear-without-app-clear", fun _ md e => clearOnlyIfAppCleared id md e),
    ("request-or-clear-twice", fun m _ e => oneClear k id m e),
    ("answer-waiting-not-reported", fun _ md e => answerWins id md e),
    ("cleared-not-reported", fun _ md e => clearedReported md e),
    ("clear-not-sent", fun _ md e => clearSentWhenDue id md e),
    ("request-not-sent", fun m md e => requestSentWhenDue k id m md e) ]

/-- key of the first clause an entry violates -/
def check (k : Kind) (id : Nat) (m : Mon) (e : Entry) : Option String :=
  let md := m.mid k id e.act e.res
  if md.poisoned then none
  else ((clauses k id).find? fun c => !c.2 m md e).map (·.1)

/-- run the monitor along the entries of one timer -/
def verdict1 (k : Kind) (id : Nat) : Mon → List Entry → Option String
  | _, [] => none
  | m, e :: rest =>
    match check k id m e with
    | some key => some key
    | none => verdict1 k id ((m.mid k id e.act e.res).after k id e) rest

/-- one clause along the entries of one timer (what the named theorems of Props/C18 are about) -/
def holdsAlong (K : Mon → Mon → Entry → Bool) (k : Kind) (id : Nat) : Mon → List Entry → Bool
  | _, [] => true
  | m, e :: rest =>
    let md := m.mid k id e.act e.res
    (md.poisoned || K m md e) && holdsAlong K k id (md.after k id e) rest

/-! ### several timers: attributing a case's records to its timers -/

/-- what a case step means for a timer (restated from the harness documentation): `cmd` — `poll` runs the addressed
    command and nothing else runs; `core` — the first `poll` launches the command, a launched command runs at the end
    of every step -/
def entryOf (host : Host) (launched addressed : Bool) (c : CAct) : Act × Bool :=
  match c with
  | .poll => if addressed then (.tick, true) else (.tick, host == .core && launched)
  | .act a => if addressed then (a, host == .core && launched) else (.tick, host == .core && launched)

/-- entries of timer `j`: per step, what was done to it and what it showed (`outs[j]`) -/
def project (host : Host) (j : Nat) : Bool → List ((CAct × Nat) × List Out) → List Entry
  | _, [] => []
  | launched, ((c, i), outs) :: rest =>
    let addressed := i == j
    let ar := entryOf host launched addressed c
    let o := outs.getD j {}
    { act := ar.1, ran := ar.2, res := o.res, effects := o.effects, events := o.events }
    :: project host j (launched || (addressed && c == .poll)) rest

def increasing : List Nat → Bool
  | a :: b :: rest => a < b && increasing (b :: rest)
  | _ => true

/-- The oracle for the command API: `none` = accepted, `some key` = rejected. `timers` = (kind, id) in creation order;
    `outs` = per step, per timer, what that timer showed. -/
def verdict (host : Host) (timers : List (Kind × Nat)) (steps : List (CAct × Nat)) (idsOk : Bool)
    (outs : List (List Out)) : Option String :=
  if !idsOk then some "id-not-unique"
  else if outs.length != steps.length || !(outs.all (·.length == timers.length)) then some "malformed-observation"
  else (List.range timers.length).findSome? fun j =>
    match timers[j]? with
    | none => none
    | some (k, id) => verdict1 k id {} (project host j false (steps.zip outs))

/-! ### legacy capability API -/

structure LEntry where
  act : LAct
  res : Res
  effects : List Eff
  events : List Ev
deriving DecidableEq, Repr

structure LMon where
  requested : Bool := false       -- the request has been sent
  appCleared : Bool := false      -- the app called clear(id) while no outcome had been reported
  answered : Option Resp := none  -- what the shell answered
  clearSent : Bool := false
  outcome : Bool := false
deriving DecidableEq, Repr

/-- key of the first clause a legacy entry violates; `id = none`: the timer has no id (never started).
    `strict = false` leaves out exactly the clause "a clear of a timer that is not pending (never requested, outcome
    already reported, already cleared) sends nothing" (used for the partial theorem only; the oracle is strict). -/
def lcheck (strict : Bool) (k : Kind) (id : Option Nat) (m : LMon) (e : LEntry) : Option String :=
  match id with
  | none => if e.effects.isEmpty && e.events.isEmpty then none else some "foreign-id"
  | some id =>
    let pending := m.requested && !m.outcome
    let answeredNow : Option Resp := match e.act, e.res with
      | .resolveReq s, .ok => some (respOf k id s)
      | _, _ => m.answered
    let clearedNow := m.appCleared || ((e.act == .clear || e.act == .startClear) && e.res == .unit && !m.outcome)
    if !(e.effects.all (fun x => x == .notify k id || x == .clear id)) then some "foreign-id"
    else if e.events.length > 1 || (m.outcome && !e.events.isEmpty) then some "second-outcome"
    else if e.events.any (fun x => x == .got (.cleared id)) && !clearedNow then some "cleared-without-clear"
    else if e.events.any (fun x => x != .got (.cleared id)) &&
        (answeredNow.isNone || (answeredNow == some (respOf k id .good) && e.events != [.got (respOf k id .good)])) then
      some "completed-unanswered"
    else match e.act, e.res with
      | .start, .unit =>
        if e.effects == [.notify k id] && e.events.isEmpty then none else some "request-not-sent"
      | .startClear, .unit =>
        -- cleared before it was ever requested: nothing is sent
        if e.effects.contains (.notify k id) then some "early-clear-not-silent"
        else if strict && !e.effects.isEmpty then some "legacy-clear-always-notifies"
        else none
      | .clear, .unit =>
        if pending && !m.clearSent then
          (if e.effects == [.clear id] && e.events.isEmpty then none else some "clear-not-sent")
        -- not pending (never requested / outcome reported) or already cleared: the clear is to be ignored
        else if strict && !e.effects.isEmpty then some "legacy-clear-always-notifies"
        else if !e.events.isEmpty then some "output-after-outcome"
        else none
      | .resolveReq s, .ok =>
        if !e.effects.isEmpty then some "output-without-run"
        else if m.outcome then none
        else if m.appCleared then (if e.events == [.got (.cleared id)] then none else some "cleared-not-reported")
        else if s == .good then (if e.events == [.got (respOf k id .good)] then none else some "answer-waiting-not-reported")
        else none
      | .tick, _ =>
        -- A step that is not about this timer. `clear` wakes nobody, so a timer cleared while pending reports Cleared
        -- whenever its task is next polled — normally when the shell answers, but the executor may poll it spuriously
        -- (a stale waker reaching its slot); that is legal, so Cleared may show up here. Nothing else may.
        if !e.effects.isEmpty then some "output-without-run"
        else if e.events.isEmpty || (m.appCleared && !m.outcome && e.events == [.got (.cleared id)]) then none
        else some "output-without-run"
      | _, _ => if e.effects.isEmpty && e.events.isEmpty then none else some "output-without-run"

def LMon.after (m : LMon) (k : Kind) (id : Option Nat) (e : LEntry) : LMon :=
  match id with
  | none => m
  | some id =>
    { requested := m.requested || e.effects.contains (.notify k id),
      appCleared := m.appCleared || ((e.act == .clear || e.act == .startClear) && e.res == .unit && !m.outcome),
      answered := match e.act, e.res with | .resolveReq s, .ok => some (respOf k id s) | _, _ => m.answered
      clearSent := m.clearSent || e.effects.contains (.clear id),
      outcome := m.outcome || !e.events.isEmpty }

def lverdict1 (strict : Bool) (k : Kind) (id : Option Nat) : LMon → List LEntry → Option String
  | _, [] => none
  | m, e :: rest =>
    match lcheck strict k id m e with
    | some key => some key
    | none => lverdict1 strict k id (m.after k id e) rest

/-- entries of legacy timer `j`: the steps addressed to it -/
def lproject (j : Nat) (steps : List ((LAct × Nat) × Out)) : List LEntry :=
  (steps.filter fun s => s.1.2 == j).map fun s =>
    { act := s.1.1, res := s.2.res, effects := s.2.effects, events := s.2.events }

/-- The oracle for the legacy API. `ids[j]` = id of timer `j` if it was ever started; `outs` = per step, what the
    addressed timer showed. -/
def lverdict (strict : Bool) (kinds : List Kind) (ids : List (Option Nat)) (steps : List (LAct × Nat)) (idsOk : Bool)
    (outs : List Out) : Option String :=
  if !idsOk then some "id-not-unique"
  else if outs.length != steps.length then some "malformed-observation"
  else if !((steps.zip outs).all fun s => s.1.2 < kinds.length || (s.2.effects.isEmpty && s.2.events.isEmpty)) then
    some "foreign-id"
  else (List.range kinds.length).findSome? fun j =>
    match kinds[j]?, ids[j]? with
    | some k, some id => lverdict1 strict k id {} (lproject j (steps.zip outs))
    | _, _ => none

/-! ### both APIs in one app (host `mixed`) -/

/-- Entries of the command-API timer at position `j` of a mixed case; `k`, `id`: its constructor and the id it gets.
    Before its start action it is a timer nobody runs (anything it shows is rejected by `quietUnlessRan`); its start
    action creates it in `update` (`startClear`: and clears it there) and returns its command, so from then on it is run
    at the end of every step. -/
def mprojectCmd (k : Kind) (id : Nat) (j : Nat) : Bool → List ((MAct × Nat) × List Out) → List Entry
  | _, [] => []
  | created, ((a, i), outs) :: rest =>
    let o := outs.getD j {}
    if created then
      { act := if i == j then toAct { kind := k, id := id } a else .tick, ran := true, res := o.res,
        effects := o.effects, events := o.events } :: mprojectCmd k id j true rest
    else if i == j && (a == .start || a == .startClear) then
      { act := if a == .startClear then .clear else .tick, ran := true, res := o.res,
        effects := o.effects, events := o.events } :: mprojectCmd k id j true rest
    else
      { act := .tick, ran := false, res := .unit, effects := o.effects, events := o.events }
        :: mprojectCmd k id j false rest

/-- entries of the legacy timer at position `j` of a mixed case: the steps addressed to it, and (as `tick`) any other
    step in which it reported something -/
def mprojectLeg (j : Nat) (steps : List ((MAct × Nat) × List Out)) : List LEntry :=
  (steps.filter fun s => s.1.2 == j || !(s.2.getD j {}).events.isEmpty).map fun s =>
    let o := s.2.getD j {}
    { act := if s.1.2 == j then toLAct s.1.1 else .tick, res := o.res, effects := o.effects, events := o.events }

/-- a legacy timer sends nothing in steps not addressed to it -/
def mquietLeg (j : Nat) (steps : List ((MAct × Nat) × List Out)) : Bool :=
  steps.all fun s => s.1.2 == j || (s.2.getD j {}).effects.isEmpty

/-- The oracle for mixed cases. `kinds[j]` = (legacy?, constructor); `ids[j]` = the id of timer `j` if it ever got one;
    `idsOk`: all raw ids handed out in the case — by either API — were pairwise distinct (and increasing in creation order). -/
def mverdict (strict : Bool) (kinds : List (Bool × Kind)) (ids : List (Option Nat)) (steps : List (MAct × Nat))
    (idsOk : Bool) (outs : List (List Out)) : Option String :=
  if !idsOk then some "id-not-unique"
  else if outs.length != steps.length || !(outs.all (·.length == kinds.length)) then some "malformed-observation"
  else (List.range kinds.length).findSome? fun j =>
    match kinds[j]? with
    | none => none
    | some (true, k) =>
      if !mquietLeg j (steps.zip outs) then some "output-without-run"
      else lverdict1 strict k ((ids.getD j none)) {} (mprojectLeg j (steps.zip outs))
    | some (false, k) => verdict1 k ((ids.getD j none).getD 0) {} (mprojectCmd k ((ids.getD j none).getD 0) j false (steps.zip outs))

/-! ### C13, the cleared-timer set: resource use is bounded by outstanding work -/

/-- `cleared`: the case's timers whose id is in CLEARED_TIMER_IDS; `outstanding`: the timers that were started and whose
    future has not completed. The set may only hold ids of outstanding timers (so its size is bounded by the outstanding
    work, whatever the length of the history). -/
def setBounded (cleared outstanding : List Nat) : Bool := cleared.all outstanding.contains

end S.Timer
