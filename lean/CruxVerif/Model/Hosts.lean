/-
M.Hosts — the shell's side of an interaction with each host of a command:
  direct  : a test holding the `Command` (effects(), events(), is_done())
  core    : `Core::process_event` / `Core::resolve`, each followed by a no-op probe event
  bridge  : `Bridge::process_event` / `handle_response` by effect id (bincode or JSON payloads)
Each `step` returns a structured observation; the driver prints it raw or in canonical projection.
Requests are addressed by their index K in the order the shell received them (canonical mode:
each step's new effects are first stably sorted by (n, v, kind)).
-/
import CruxVerif.Model.Bridge
namespace M.Hosts
open M.Rt M.Bridge

/-- what an independent decoder makes of raw bytes: `model` = use the model's bincode decoder -/
inductive Dec (α : Type) where
  | model | err | val (a : α)

inductive Action where
  | res (k : Nat) (v : Val) | drop (k : Nat) | abort (n : Nat) | poll | ev (tag : Nat) (v : Val)
  | rawRes (k : Nat) (bytes : List Nat) (dec : Dec Val)
  | rawEv (bytes : List Nat) (dec : Dec Ev)

def kindChar : Resolve → Char
  | .never => 'n' | .once _ => 'o' | .many _ => 'm' | .gone => 'g'

structure EffView where
  n : Nat
  v : Val
  kind : Char
  id : Option Nat := none
deriving DecidableEq, Repr

def viewOf (e : Eff) (id : Option Nat := none) : EffView := ⟨e.op.n, e.op.v, kindChar e.res, id⟩

structure Obs where
  res : String
  effs : List EffView := []
  probe : Option (List EffView) := none
  events : List Ev := []
  done : Option Bool := none
  tail : String := ""

def keyLe (a b : EffView) : Bool :=
  a.n < b.n || (a.n == b.n && (a.v < b.v || (a.v == b.v && a.kind.toNat ≤ b.kind.toNat)))

/-- stable insertion sort by (n, v, kind) -/
def insertBy {α : Type} (le : α → α → Bool) (x : α) : List α → List α
  | [] => [x]
  | y :: ys => if le y x then y :: insertBy le x ys else x :: y :: ys

def sortBy {α : Type} (le : α → α → Bool) (l : List α) : List α := l.foldl (fun acc x => insertBy le x acc) []

def canonOrder {α : Type} (canon : Bool) (view : α → EffView) (l : List α) : List α :=
  if canon then sortBy (fun a b => keyLe (view a) (view b)) l else l

def probeTag : Nat := 999

def doAbort (n : Nat) (w : World) : World :=
  match w.aborts.find? (·.1 == n) with
  | some (_, cid) => w.abortCmd cid
  | none => w

def setNth {α : Type} (l : List α) (i : Nat) (a : α) : List α := modifyNth l i fun _ => a

def showRes : ResolveResult → String
  | .ok => "ok" | .never => "never" | .finished => "finished" | .gone => "gone"

/-- `request.resolve(v)` on the K-th request held by the shell -/
def shellResolve (reqs : List Eff) (k : Nat) (v : Val) (w : World) : Option (List Eff × ResolveResult × World) :=
  match reqs[k]? with
  | none => none
  | some e =>
    let (r, res, w) := resolveReq e.res v w
    some (setNth reqs k { e with res := r }, res, w)

def shellDrop (reqs : List Eff) (k : Nat) (w : World) : Option (List Eff × World) :=
  match reqs[k]? with
  | none => none
  | some e =>
    let (r, w) := dropReq e.res w
    some (setNth reqs k { e with res := r }, w)

/-! ### direct host -/

structure Direct where
  w : World
  cid : Nat
  reqs : List Eff := []
  canon : Bool := false

def Direct.new (c : Cmd) (canon : Bool) : Direct :=
  let (cid, w) := instantiate {} c {}
  { w := w, cid := cid, canon := canon }

/-- effects(), events(), is_done(), verif_live_tasks() -/
def Direct.observe (res : String) (d : Direct) : Option (Obs × Direct) := do
  let (effs, w) ← takeEffects d.cid d.w
  let (evs, w) ← takeEvents d.cid w
  let (dn, w) ← isDone d.cid w
  let live := (w.cmd d.cid).tasks.len
  let effs := canonOrder d.canon (viewOf ·) effs
  pure ({ res := res, effs := effs.map (viewOf ·), events := evs, done := some dn,
          tail := s!"d{if dn then 1 else 0} t{live}" },
        { d with w := w, reqs := d.reqs ++ effs })

def Direct.step (d : Direct) : Action → Option (Obs × Direct)
  | .res k v =>
      match shellResolve d.reqs k v d.w with
      | none => d.observe "noreq"
      | some (reqs, res, w) => Direct.observe (showRes res) { d with w := w, reqs := reqs }
  | .drop k =>
      match shellDrop d.reqs k d.w with
      | none => d.observe "-"
      | some (reqs, w) => Direct.observe "-" { d with w := w, reqs := reqs }
  | .abort n => Direct.observe "-" { d with w := doAbort n d.w }
  | .poll => d.observe "-"
  | _ => none

/-! ### Core host -/

structure CoreHost where
  k : Core
  reqs : List Eff := []
  canon : Bool := false

def statsCore (k : Core) : String :=
  s!"s{k.execTasks.len} q{k.w.execReady.length}.{k.w.execSpawn.length}.{k.w.coreEffects.length}.{k.w.coreEvents.length}"

/-- events applied during a step: new log entries without the probe and without the shell's own event -/
def stepEvents (log : List Ev) (oldLen : Nat) (trigger : Option Ev) : List Ev :=
  let out := (log.drop oldLen).filter (·.tag != probeTag)
  match trigger, out with
  | some t, e :: rest => if e == t then rest else out
  | _, _ => out

def CoreHost.record (h : CoreHost) (effs : List Eff) : List EffView × CoreHost :=
  let effs := canonOrder h.canon (viewOf ·) effs
  (effs.map (viewOf ·), { h with reqs := h.reqs ++ effs })

/-- after a call: the no-op probe event, then stats -/
def CoreHost.afterCall (res : String) (effs : List Eff) (oldLen : Nat) (trigger : Option Ev) (h : CoreHost) :
    Option (Obs × CoreHost) := do
  let (views, h) := h.record effs
  let (peffs, k) ← processEvent ⟨probeTag, 0⟩ h.k
  let (pviews, h) := ({ h with k := k }).record peffs
  pure ({ res := res, effs := views, probe := some pviews, events := stepEvents k.log oldLen trigger,
          tail := s!"l{k.log.length} {statsCore k}" }, h)

def CoreHost.step (h : CoreHost) (a : Action) : Option (Obs × CoreHost) :=
  let oldLen := h.k.log.length
  match a with
  | .ev tag v => do
      let (effs, k) ← processEvent ⟨tag, v⟩ h.k
      CoreHost.afterCall "ok" effs oldLen (some ⟨tag, v⟩) { h with k := k }
  | .res kk v =>
      match shellResolve h.reqs kk v h.k.w with
      | none => h.afterCall "noreq" [] oldLen none
      | some (reqs, res, w) =>
        let h := { h with reqs := reqs, k := { h.k with w := w } }
        if res == .ok then
          match process h.k with
          | none => none
          | some (effs, k) => CoreHost.afterCall "ok" effs oldLen none { h with k := k }
        else h.afterCall (showRes res) [] oldLen none
  | .drop kk =>
      match shellDrop h.reqs kk h.k.w with
      | none => h.afterCall "~" [] oldLen none
      | some (reqs, w) => CoreHost.afterCall "~" [] oldLen none { h with reqs := reqs, k := { h.k with w := w } }
  | .abort n => CoreHost.afterCall "~" [] oldLen none { h with k := { h.k with w := doAbort n h.k.w } }
  | .poll => h.afterCall "~" [] oldLen none
  | _ => none

/-! ### Bridge hosts -/

structure BridgeHost where
  b : Bridge
  ids : List Nat := []                 -- K ↦ id
  latest : List (Nat × Nat) := []      -- id ↦ latest K issued under it
  canon : Bool := false

def BridgeHost.record (h : BridgeHost) (reqs : List (Nat × Eff)) : List EffView × BridgeHost :=
  let reqs := canonOrder h.canon (fun (r : Nat × Eff) => viewOf r.2) reqs
  (reqs.map fun (id, e) => viewOf e (some id),
   reqs.foldl (fun h (id, _) =>
    { h with latest := (id, h.ids.length) :: h.latest.filter (·.1 != id), ids := h.ids ++ [id] }) h)

def showBErr : BridgeError → String
  | .deserializeEvent => "err:deser-event" | .deserializeOutput => "err:deser-output"
  | .never => "err:never" | .finished => "err:finished"

def BridgeHost.afterCall (res : String) (reqs : List (Nat × Eff)) (oldLen : Nat) (trigger : Option Ev) (h : BridgeHost) :
    Option (Obs × BridgeHost) := do
  let (views, h) := h.record reqs
  let (r, b) ← M.Bridge.processEvent h.b (some ⟨probeTag, 0⟩)
  let preqs := match r with | .ok rs => rs | .error _ => []
  let (pviews, h) := ({ h with b := b }).record preqs
  let reg := String.intercalate "," (b.registry.toList.map fun (id, r) => s!"{id}:{kindChar r}")
  pure ({ res := res, effs := views, probe := some pviews, events := stepEvents b.core.log oldLen trigger,
          tail := s!"l{b.core.log.length} {statsCore b.core} R[{reg}]" }, h)

def BridgeHost.respond (h : BridgeHost) (k : Nat) (decoded : Option Val) (oldLen : Nat) : Option (Obs × BridgeHost) :=
  match h.ids[k]? with
  | none => h.afterCall "noreq" [] oldLen none
  | some id =>
    let live := (h.latest.find? (·.1 == id)).map (·.2) == some k && (h.b.registry.get? id).isSome
    if !live then h.afterCall "stale" [] oldLen none else
    match handleResponse h.b id decoded with
    | none => none
    | some (.ok reqs, b) => BridgeHost.afterCall "ok" reqs oldLen none { h with b := b }
    | some (.err e, b) => BridgeHost.afterCall (showBErr e) [] oldLen none { h with b := b }
    | some (.panic, b) => BridgeHost.afterCall "panic" [] oldLen none { h with b := b }

def BridgeHost.event (h : BridgeHost) (decoded : Option Ev) (oldLen : Nat) (trigger : Option Ev) :
    Option (Obs × BridgeHost) := do
  let (r, b) ← M.Bridge.processEvent h.b decoded
  match r with
  | .ok reqs => BridgeHost.afterCall "ok" reqs oldLen trigger { h with b := b }
  | .error e => BridgeHost.afterCall (showBErr e) [] oldLen none { h with b := b }

def BridgeHost.step (h : BridgeHost) (a : Action) : Option (Obs × BridgeHost) :=
  let oldLen := h.b.core.log.length
  match a with
  | .ev tag v => h.event (some ⟨tag, v⟩) oldLen (some ⟨tag, v⟩)
  | .rawEv bytes dec =>
      h.event (match dec with | .model => decodeEv bytes | .err => none | .val e => some e) oldLen none
  | .res k v => h.respond k (some v) oldLen
  | .rawRes k bytes dec =>
      h.respond k (match dec with | .model => decodeVal bytes | .err => none | .val v => some v) oldLen
  | .drop _ => h.afterCall "~" [] oldLen none
  | .abort n =>
      BridgeHost.afterCall "~" [] oldLen none
        { h with b := { h.b with core := { h.b.core with w := doAbort n h.b.core.w } } }
  | .poll => h.afterCall "~" [] oldLen none

/-! ### a whole interaction -/

def runSteps {σ : Type} (step : σ → Action → Option (Obs × σ)) : σ → List Action → Option (List Obs × σ)
  | s, [] => some ([], s)
  | s, a :: rest =>
    match step s a with
    | none => none
    | some (o, s) =>
      match runSteps step s rest with
      | none => none
      | some (os, s) => some (o :: os, s)

def runDirect (c : Cmd) (canon : Bool) (acts : List Action) : Option (List Obs × Direct) := do
  let (o, d) ← (Direct.new c canon).observe "-"
  let (os, d) ← runSteps Direct.step d acts
  pure (o :: os, d)

abbrev Prog := List (Nat × Cmd × List (List Instr))

def runCore (prog : Prog) (canon : Bool) (acts : List Action) : Option (List Obs × CoreHost) :=
  runSteps CoreHost.step { k := { prog := prog }, canon := canon } acts

def runBridge (prog : Prog) (canon : Bool) (acts : List Action) : Option (List Obs × BridgeHost) :=
  runSteps BridgeHost.step { b := { core := { prog := prog } }, canon := canon } acts

/-- wrappers that must not change a command's behaviour (C04 laws / C05 nesting) -/
def wrap : String → Cmd → Option Cmd
  | "done-then", c => some (.thenC .done c)
  | "then-done", c => some (.thenC c .done)
  | "done-and", c => some (.andC .done c)
  | "and-done", c => some (.andC c .done)
  | "all1", c => some (.all [c])
  | "mapev0", c => some (.mapEv 0 c)
  | "mapef0", c => some (.mapEf 0 c)
  | "into", c => some (.mapEv 0 (.mapEf 0 c))
  | _, _ => none

end M.Hosts
