/-
M.Det — the places where crux consults something outside its inputs, each made an explicit parameter (C11):

  * the iteration order of `http_types::Headers` (a `HashMap` with a per-map `RandomState`)
      – in `into_protocol_request` (crux_http/src/protocol.rs:196-229): parameter = the list of entries *in the order the
        map yields them*; any permutation of the entries is a possible order;
      – in the hand-written `PartialEq for Response` (crux_http/src/response/response.rs:343-362), which zips the two
        iterations;
  * the start value `k` of the process-wide timer counter (crux_time/src/lib.rs:26-29 `get_timer_id`).

Everything else of the runtime is a function of the history (models `M.Rt`, `M.Hosts`; engine `rt`).
-/
import CruxVerif.Model.Http
namespace M.Det
open M.Http

/-! ### bincode 1.3.3, default options (fixed-width little-endian integers, `u64` lengths) -/

def leBytes : Nat → Nat → Bytes
  | 0, _ => []
  | w + 1, n => (n % 256) :: leBytes w (n / 256)

def le64 (n : Nat) : Bytes := leBytes 8 n
def le32 (n : Nat) : Bytes := leBytes 4 n

/-- `String`, `Vec<u8>` with `serde_bytes`: length, then the bytes -/
def bstr (b : Bytes) : Bytes := le64 b.length ++ b

/-- `HttpRequest { method, url, headers: Vec<HttpHeader { name, value }>, body }` (protocol.rs:24-32) -/
def encodeRequest (method url : Bytes) (headers : List (Bytes × Bytes)) (body : Bytes) : Bytes :=
  bstr method ++ bstr url ++ le64 headers.length ++ headers.flatMap (fun p => bstr p.1 ++ bstr p.2) ++ bstr body

/-! ### (a) the serialized HTTP effect, for a given iteration order of the header map -/

/-- The bytes of the `HttpRequest` operation when the header map yields its entries in the order `iter`.
    `sorted = true`: the code as it is (after /repo cda2127, pairs sorted by name);
    `sorted = false`: the pinned tree (pairs in iteration order). -/
def protocolBytes (sorted : Bool) (method url : Bytes) (iter : Headers) (body : Bytes) : Bytes :=
  encodeRequest method url (if sorted then emitHeaders iter else emitHeadersUnsorted iter) body

inductive HdrObs where
  /-- all replays produced these bytes -/
  | same (bytes : Bytes)
  /-- the replays produced `k` different byte strings -/
  | differ (k : Nat)
  | panic
deriving DecidableEq, Repr

/-- prediction for a request case (same case grammar as C14): the request of `M.Http.buildRequest`, serialized -/
def hdrObs (c : ReqCase) : HdrObs :=
  match buildRequest c with
  | .req _ m u hs b => .same (encodeRequest m u hs b)
  | .panic _ => .panic

/-! ### (b) `Response == Response` -/

/-- `crux_http::Response<Vec<u8>>` as far as `==` looks at it; `headers` = the entries in iteration order -/
structure Resp where
  version : Option Nat
  status : Nat
  headers : Headers
  body : Option Bytes
deriving DecidableEq, Repr

/-- `lhs_values.iter().zip(rhs_values.iter()).all(|(lhs, rhs)| lhs == rhs)` -/
def valuesEq (a b : List Bytes) : Bool := (a.zip b).all (fun p => p.1 == p.2)

/-- `self.headers.iter().zip(other.headers.iter()).all(|((ln, lv), (rn, rv))| ln == rn && …)` -/
def headersEq (a b : Headers) : Bool := (a.zip b).all (fun p => p.1.1 == p.2.1 && valuesEq p.1.2 p.2.2)

/-- response.rs:343-362 -/
def respEq (a b : Resp) : Bool :=
  a.version == b.version && a.status == b.status && headersEq a.headers b.headers && a.body == b.body

/-- `ResponseBuilder::with_status(s).header(n₁, vs₁)….body(b).build()` (testing/response_builder.rs): `insert_header`
    per call; the resulting entries (in *some* order) -/
def buildResp (status : Nat) (calls : List (Bytes × List Bytes)) (body : Option Bytes) : Resp :=
  { version := none, status := status,
    headers := calls.foldl (fun h c => h.insert (lower c.1) c.2) [], body := body }

/-- all orders a list can be iterated in -/
def insertions {α : Type} (x : α) : List α → List (List α)
  | [] => [[x]]
  | y :: t => (x :: y :: t) :: (insertions x t).map (y :: ·)

def perms {α : Type} : List α → List (List α)
  | [] => [[]]
  | x :: t => (perms t).flatMap (insertions x)

/-- (can be `true`, can be `false`) over all iteration orders of the two header maps -/
def eqOutcomes (a b : Resp) : Bool × Bool :=
  let rs := (perms a.headers).flatMap fun ha => (perms b.headers).map fun hb =>
    respEq { a with headers := ha } { b with headers := hb }
  (rs.any id, rs.any (!·))

/-- same contents: same version, status, body, and the same entries (the names of a map are distinct) -/
def sameContents (a b : Resp) : Bool :=
  a.version == b.version && a.status == b.status && a.body == b.body &&
  a.headers.length == b.headers.length && a.headers.all (fun e => b.headers.any (fun e' => e' == e))

/-! ### (c) timer ids -/

/-- one operation of the history -/
inductive TOp where
  | now | after (nanos : Nat) | at_ (secs nanos : Nat)
deriving DecidableEq, Repr

/-- `TimeRequest` (crux_time/src/protocol/mod.rs:14-19) -/
inductive TReq where
  | now | notifyAt (id secs nanos : Nat) | notifyAfter (id nanos : Nat) | clear (id : Nat)
deriving DecidableEq, Repr

/-- The requests a history of timer operations emits when the process-wide counter stands at `k`:
    every `notify_after` / `notify_at` takes the next id (`fetch_add(1)`), `now` takes none; requests leave in the
    order of the operations. -/
def runTimers (k : Nat) : List TOp → List TReq
  | [] => []
  | .now :: r => .now :: runTimers k r
  | .after n :: r => .notifyAfter k n :: runTimers (k + 1) r
  | .at_ s n :: r => .notifyAt k s n :: runTimers (k + 1) r

def TReq.rename (ρ : Nat → Nat) : TReq → TReq
  | .now => .now
  | .notifyAt i s n => .notifyAt (ρ i) s n
  | .notifyAfter i n => .notifyAfter (ρ i) n
  | .clear i => .clear (ρ i)

def TReq.id? : TReq → Option Nat
  | .now => none
  | .notifyAt i _ _ => some i
  | .notifyAfter i _ => some i
  | .clear i => some i

/-- position of `i` in `seen`, or `seen.length` when new -/
def rankIn (seen : List Nat) (i : Nat) : Nat :=
  match seen with
  | [] => 0
  | j :: t => if j == i then 0 else 1 + rankIn t i

/-- renaming of timer ids by rank of first appearance (what the harness does before comparing replays) -/
def rankRenameFrom (seen : List Nat) : List TReq → List TReq
  | [] => []
  | r :: rest =>
    match r.id? with
    | none => r :: rankRenameFrom seen rest
    | some i =>
      let seen' := if seen.contains i then seen else seen ++ [i]
      r.rename (fun _ => rankIn seen' i) :: rankRenameFrom seen' rest

def rankRename (rs : List TReq) : List TReq := rankRenameFrom [] rs

/-- bincode of `TimeRequest`: `u32` variant index, `usize` as `u64`, `Instant { seconds: u64, nanos: u32 }`,
    `Duration { nanos: u64 }` -/
def encodeTReq : TReq → Bytes
  | .now => le32 0
  | .notifyAt i s n => le32 1 ++ le64 i ++ le64 s ++ le32 n
  | .notifyAfter i n => le32 2 ++ le64 i ++ le64 n
  | .clear i => le32 3 ++ le64 i

/-- the event each resolved request produces in the harness app (`n`ow, `e`lapsed, `a`rrived) -/
def TOp.viewChar : TOp → Char
  | .now => 'n' | .after _ => 'e' | .at_ _ _ => 'a'

def isTimer : TOp → Bool
  | .now => false | _ => true

inductive TidObs where
  /-- all replays agree after renaming: (raw ids differed between in-process replays, renamed effect bytes, view) -/
  | same (rawDiffer : Bool) (bytes : Bytes) (view : String)
  | differ (k : Nat)
deriving DecidableEq, Repr

/-- prediction: replays of one process start at different counter values as soon as a timer is created -/
def tidObs (ops : List TOp) : TidObs :=
  .same (ops.any isTimer) ((rankRename (runTimers 1 ops)).flatMap encodeTReq) (String.ofList (ops.map TOp.viewChar))

end M.Det
