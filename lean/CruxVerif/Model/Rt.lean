/-
M.Rt — executable model of the crux_core runtime:
  command/{mod,executor,stream,context,builder}.rs   (Command executor, wakers, eviction, hosting, combinators, builders)
  capability/{executor,mod}.rs, core/mod.rs          (QueuingExecutor, CommandSpawner, Core::process)
  core/resolve.rs                                    (Resolve::{Never,Once,Many})
over a first-order task-program DSL that the Rust harness interprets with real async code
calling the real API.  Everything that Rust shares through Arcs / channel halves lives in one
flat `World` (commands, leaf channels, join-handle states), addressed by index.

Recursion is organised as *open recursion*: each layer takes the layer below as a function
argument (`pollBlock pollNext`, `pollNextF runUntilSettled`, `runUntilSettledF runTask`,
`runTaskF poll`) and the knot is tied by `pollAt : Nat → …` on a nesting-depth fuel; loops inside
a layer take their own loop fuel.  All functions return `Option` (`none` = fuel exhausted).
-/
import CruxVerif.Model.Slab
namespace M.Rt

abbrev Val := Int

structure Op where
  n : Nat
  v : Val
deriving DecidableEq, Repr, Inhabited

/-- identity of a `Waker` handed to a poll: the executor-level `TaskWaker`, or a `CommandWaker`
    (one fresh `Arc` per `run_task`, identified by `serial`). -/
inductive Waker where
  | root (etid : Nat)
  | task (cid tid serial : Nat)
deriving DecidableEq, Repr, Inhabited

/-- core/resolve.rs; `gone` = the shell dropped the request -/
inductive Resolve where
  | never | once (leaf : Nat) | many (leaf : Nat) | gone
deriving DecidableEq, Repr, Inhabited

structure Eff where
  op : Op
  res : Resolve
deriving DecidableEq, Repr, Inhabited

structure Ev where
  tag : Nat
  v : Val
deriving DecidableEq, Repr, Inhabited

inductive Output where
  | effect (e : Eff)
  | event (e : Ev)
deriving Repr, Inhabited

/-! ## The task-program DSL -/

inductive Expr where
  | lit (k : Val)
  | var (x : Nat)
  | add (e : Expr) (k : Val)
deriving Repr, Inhabited

/-- `map_effect` / `map_event` functions: add `k` to the operation argument / event value -/
inductive Mapper where
  | id | ef (k : Val) | ev (k : Val)
deriving Repr, Inhabited

inductive Instr where
  | emit (tag : Nat) (e : Expr)                                   -- ctx.send_event
  | notify (n : Nat) (e : Expr)                                   -- ctx.notify_shell
  | req (x n : Nat) (e : Expr)                                    -- let x = ctx.request_from_shell(op).await
  | stream (x n : Nat) (e : Expr) (limit : Nat) (body : List Instr) -- while let Some(x) = s.next().await { body } (≤ limit items if limit>0)
  | spawn (h : Nat) (body : List Instr)                            -- let h = ctx.spawn(|ctx| body)
  | await (h : Nat)                                                -- h.clone().await
  | abortTask (h : Nat)                                            -- h.abort()
  | join (a b : List Instr)                                        -- futures::join!
  | select (a b : List Instr)                                      -- select_biased!
  | selfwake (k : Nat)                                             -- a future that wakes itself k times
  | abortCmd (name : Nat)                                          -- the task aborts a named command through its AbortHandle
  | handoff (x n : Nat) (e : Expr) (body : List Instr)             -- let mut f = ctx.request_from_shell(op); poll!(&mut f); spawn(async { x = f.await; body })
  | host (cid : Nat) (m : Mapper)                                  -- (combinators only) cmd.map(m).host(ctx.effects, ctx.events).await
deriving Repr, Inhabited

inductive Stage where
  | thenReq (n : Nat) | thenStream (n : Nat) | map (k : Val)
deriving Repr, Inhabited

inductive Cmd where
  | done
  | event (tag : Nat) (e : Expr)
  | notify (n : Nat) (e : Expr)
  | req (n : Nat) (e : Expr) (tag : Nat)          -- request_from_shell(op).then_send(tag)
  | stream (n : Nat) (e : Expr) (tag : Nat)       -- stream_from_shell(op).then_send(tag)
  | chain (isStream : Bool) (n : Nat) (e : Expr) (stages : List Stage) (tag : Nat)
  | thenC (a b : Cmd)
  | andC (a b : Cmd)
  | all (cs : List Cmd)
  | mapEf (k : Val) (c : Cmd)
  | mapEv (k : Val) (c : Cmd)
  | task (is : List Instr)
  | abortable (name : Nat) (c : Cmd)
deriving Repr, Inhabited

structure Env where
  vars : List (Nat × Val) := []
  handles : List (Nat × Nat) := []
deriving Repr, Inhabited

def Env.get (env : Env) (x : Nat) : Val :=
  match env.vars.find? (·.1 == x) with
  | some (_, v) => v
  | none => 0

def Env.set (env : Env) (x : Nat) (v : Val) : Env :=
  { env with vars := (x, v) :: env.vars.filter (·.1 != x) }

def Env.handle (env : Env) (h : Nat) : Option Nat :=
  (env.handles.find? (·.1 == h)).map (·.2)

def Env.setHandle (env : Env) (h s : Nat) : Env :=
  { env with handles := (h, s) :: env.handles.filter (·.1 != h) }

def Env.eval (env : Env) : Expr → Val
  | .lit k => k
  | .var x => env.get x
  | .add e k => env.eval e + k

/-! ## Future states -/

mutual
/-- a running async block: environment, the await point it is suspended at, remaining instructions -/
inductive Block where
  | mk (env : Env) (cur : Pend) (rest : List Instr)
/-- state of the awaited sub-future -/
inductive Pend where
  | idle
  | req (x leaf : Nat)                       -- ShellRequest, effect sent, waiting
  | reqDead                                   -- ShellRequest whose channel closed: pending forever (fused)
  | streamWait (x leaf count limit : Nat) (body : List Instr)
  | streamBody (x leaf count limit : Nat) (body : List Instr) (inner : Block)
  | await (serial : Nat)
  | join (a b : Block) (aDone bDone : Bool)
  | select (a b : Block)
  | selfwake (k : Nat)
  | host (cid : Nat) (m : Mapper)
end

instance : Inhabited Block := ⟨.mk {} .idle []⟩

/-! ## The world -/

/-- an mpsc channel between a resolve closure (sender) and a ShellRequest/ShellStream (receiver) -/
structure Leaf where
  queue : List Val := []
  senderAlive : Bool := true
  receiverAlive : Bool := true
  waker : Option Waker := none
  /-- legacy capability API (capability/shell_request.rs, shell_stream.rs): result slot + waker under one mutex,
      the resolve closure holds a weak reference; dropping either side wakes nobody -/
  legacy : Bool := false
deriving Repr, Inhabited

/-- what a task shares with its `JoinHandle`s (and, for a command's first task, with its `AbortHandle`) -/
structure Meta where
  finished : Bool := false
  aborted : Bool := false
  joinWakers : List Waker := []
  taskAlive : Bool := true
deriving Repr, Inhabited

structure Task where
  serial : Nat
  fut : Block
deriving Inhabited

structure CmdSt where
  effects : List Eff := []
  events : List Ev := []
  ready : List Nat := []
  spawnQ : List Task := []
  tasks : Slab Task := {}
  waker : Option Waker := none
  abortFlag : Nat := 0          -- serial of the first task: Command.aborted is that task's `aborted` Arc
  alive : Bool := true
deriving Inhabited

/-- a task of the QueuingExecutor: a command hosted by the CommandSpawner, or a legacy capability task -/
inductive ExecTask where
  | cmd (cid : Nat)
  | legacy (b : Block)
deriving Inhabited

/-- where a block's outputs and spawned tasks go: its command's channels, or (legacy API) the core's -/
inductive Sink where
  | cmd (cid : Nat)
  | core
deriving Inhabited

structure World where
  cmds : List CmdSt := []
  leaves : List Leaf := []
  metas : List Meta := []
  nextSerial : Nat := 0
  woken : List Nat := []        -- serials of CommandWakers whose `woken` flag is set
  execReady : List Nat := []    -- QueuingExecutor.ready_queue (root wakers push here)
  execSpawn : List ExecTask := []  -- QueuingExecutor.spawn_queue
  coreEffects : List Eff := []  -- Core.requests channel
  coreEvents : List Ev := []    -- Core.capability_events channel
  aborts : List (Nat × Nat) := []  -- abort-handle name ↦ command id, kept by the harness
  anomalies : List String := []
deriving Inhabited

def modifyNth {α : Type} (l : List α) (i : Nat) (f : α → α) : List α :=
  match l, i with
  | [], _ => []
  | a :: as, 0 => f a :: as
  | a :: as, i + 1 => a :: modifyNth as i f

namespace World

def cmd (w : World) (cid : Nat) : CmdSt := w.cmds[cid]?.getD {}
def leaf (w : World) (l : Nat) : Leaf := w.leaves[l]?.getD {}
def getMeta (w : World) (s : Nat) : Meta := w.metas[s]?.getD {}

def modCmd (w : World) (cid : Nat) (f : CmdSt → CmdSt) : World := { w with cmds := modifyNth w.cmds cid f }
def modLeaf (w : World) (l : Nat) (f : Leaf → Leaf) : World := { w with leaves := modifyNth w.leaves l f }
def modMeta (w : World) (s : Nat) (f : Meta → Meta) : World := { w with metas := modifyNth w.metas s f }

def newLeaf (w : World) (wk : Option Waker) (legacy : Bool := false) : Nat × World :=
  (w.leaves.length, { w with leaves := w.leaves ++ [{ waker := wk, legacy := legacy }] })

def newMeta (w : World) : Nat × World :=
  (w.metas.length, { w with metas := w.metas ++ [{}] })

def pushEffect (w : World) (cid : Nat) (e : Eff) : World := w.modCmd cid fun c => { c with effects := c.effects ++ [e] }
def pushEvent (w : World) (cid : Nat) (e : Ev) : World := w.modCmd cid fun c => { c with events := c.events ++ [e] }

def sinkEffect (w : World) : Sink → Eff → World
  | .cmd cid, e => w.pushEffect cid e
  | .core, e => { w with coreEffects := w.coreEffects ++ [e] }
def sinkEvent (w : World) : Sink → Ev → World
  | .cmd cid, e => w.pushEvent cid e
  | .core, e => { w with coreEvents := w.coreEvents ++ [e] }

def anomaly (w : World) (s : String) : World := { w with anomalies := w.anomalies ++ [s] }

/-- Command::was_aborted -/
def aborted (w : World) (cid : Nat) : Bool := (w.getMeta (w.cmd cid).abortFlag).aborted

end World

/-- `Waker::wake`: CommandWaker::wake_by_ref (executor.rs:62-78) = send the task id (ignored if the command
    is gone), set `woken`, take and wake the parent's AtomicWaker; TaskWaker (capability/executor.rs:68-86)
    = send the executor task id. `fuel` bounds the length of the parent chain. -/
def wake : Nat → Waker → World → World
  | _, .root etid, w => { w with execReady := w.execReady ++ [etid] }
  | 0, .task _ _ _, w => w.anomaly "wake: parent chain longer than fuel"
  | f + 1, .task cid tid serial, w =>
    let c := w.cmd cid
    let w := if c.alive then w.modCmd cid fun c => { c with ready := c.ready ++ [tid] } else w
    let w := { w with woken := serial :: w.woken }
    match c.waker with
    | none => w
    | some pw => wake f pw (w.modCmd cid fun c => { c with waker := none })

def World.wake (w : World) (wk : Waker) : World := M.Rt.wake (w.cmds.length + 1) wk w

def World.wakeAll (w : World) (wks : List Waker) : World := wks.foldl World.wake w

def isSerial (s : Nat) : Option Waker → Bool
  | some (.task _ _ s') => s == s'
  | _ => false

/-- number of live clones of the CommandWaker with this serial (`Arc::strong_count - 1`):
    receiver waker slots of leaf channels, join-handle waker queues, AtomicWakers of hosted commands -/
def World.holders (w : World) (serial : Nat) : Nat :=
  (w.leaves.filter fun l => isSerial serial l.waker).length
  + (w.metas.map fun m => (m.joinWakers.filter fun k => isSerial serial (some k)).length).sum
  + (w.cmds.filter fun c => isSerial serial c.waker).length

/-! ## Dropping futures and commands (Rust drop glue) -/

/-- dropping the receiving half of a leaf: the channel is closed for the sender, queued messages are discarded;
    nobody is woken -/
def World.dropReceiver (w : World) (l : Nat) : World :=
  w.modLeaf l fun lf => { lf with receiverAlive := false, queue := [] }

mutual
def dropBlock (dropCmd : Nat → World → World) : Block → World → World
  | .mk _ cur rest, w =>
    let w := dropPend dropCmd cur w
    rest.foldl (fun w i => match i with | .host c _ => dropCmd c w | _ => w) w
def dropPend (dropCmd : Nat → World → World) : Pend → World → World
  | .idle, w | .reqDead, w | .await _, w | .selfwake _, w => w
  | .req _ l, w => w.dropReceiver l
  | .streamWait _ l _ _ _, w => w.dropReceiver l
  | .streamBody _ l _ _ _ inner, w => (dropBlock dropCmd inner w).dropReceiver l
  | .join a b ad bd, w =>
    let w := if ad then w else dropBlock dropCmd a w
    if bd then w else dropBlock dropCmd b w
  | .select a b, w => dropBlock dropCmd b (dropBlock dropCmd a w)
  | .host c _, w => dropCmd c w
end

/-- dropping a `Task`: its join-waker receiver goes (queued wakers are discarded, later `JoinHandle` polls
    report ready), its future is dropped -/
def dropTask (dropCmd : Nat → World → World) (t : Task) (w : World) : World :=
  let w := w.modMeta t.serial fun m => { m with taskAlive := false, joinWakers := [] }
  dropBlock dropCmd t.fut w

/-- dropping a sender half (resolve closure consumed or request dropped): `close_channel` closes the channel and
    wakes whatever waker is registered in `recv_task` — also a *stale* one left behind by a receiver that was
    dropped while pending (futures-channel does not clear `recv_task` when the receiver goes) -/
def World.dropSender (w : World) (l : Nat) : World :=
  let lf := w.leaf l
  if lf.legacy then w.modLeaf l fun lf => { lf with senderAlive := false } else
  let w := w.modLeaf l fun lf => { lf with senderAlive := false, waker := none }
  match lf.waker with
  | some wk => w.wake wk
  | none => w

def dropEff (w : World) (e : Eff) : World :=
  match e.res with
  | .once l | .many l => w.dropSender l
  | _ => w

/-- dropping a `Command` (fields in declaration order: queued effects, events, spawn queue, tasks) -/
def dropCmdAt : Nat → Nat → World → World
  | 0, _, w => w.anomaly "dropCmd: nesting deeper than fuel"
  | f + 1, cid, w =>
    let c := w.cmd cid
    if !c.alive then w else
    let w := w.modCmd cid fun c => { c with alive := false, effects := [], events := [], spawnQ := [], tasks := {}, ready := [] }
    let w := if c.effects.isEmpty then w else (c.effects.foldl dropEff w).anomaly "command dropped with queued effects"
    let w := c.spawnQ.foldl (fun w t => dropTask (dropCmdAt f) t w) w
    c.tasks.values.foldl (fun w t => dropTask (dropCmdAt f) t w) w

def World.dropCmd (w : World) (cid : Nat) : World := dropCmdAt (w.cmds.length + 1) cid w
def World.dropBlock (w : World) (b : Block) : World := M.Rt.dropBlock (fun c w => w.dropCmd c) b w
def World.dropTask (w : World) (t : Task) : World := M.Rt.dropTask (fun c w => w.dropCmd c) t w

/-- `AbortHandle::abort` (executor.rs:86-101): set the command's aborted flag, then take and wake the
    AtomicWaker its host registered (no-op when the command is not hosted) -/
def World.abortCmd (w : World) (cid : Nat) : World :=
  let c := w.cmd cid
  let w := w.modMeta c.abortFlag fun m => { m with aborted := true }
  match c.waker with
  | none => w
  | some wk => (w.modCmd cid fun c => { c with waker := none }).wake wk

/-! ## Polling a block (the DSL interpreter = what rustc + futures-util generate) -/

inductive PollRes where
  | pending (b : Block)
  | ready (env : Env)

inductive NextRes where
  | item (o : Output)
  | finished
  | pending

def applyMapper : Mapper → Output → Output
  | .id, o => o
  | .ef k, .effect e => .effect { e with op := { e.op with v := e.op.v + k } }
  | .ef _, o => o
  | .ev k, .event e => .event { e with v := e.v + k }
  | .ev _, o => o

def World.forward (w : World) (cid : Nat) : Output → World
  | .effect e => w.pushEffect cid e
  | .event e => w.pushEvent cid e

/-- `stream.map(Ok).forward(sink)` (stream.rs:107-125): pull items until pending / finished -/
def hostLoop (pollNext : Waker → Nat → World → Option (NextRes × World)) :
    Nat → Waker → Nat → Nat → Mapper → World → Option (Bool × World)
  | 0, _, _, _, _, _ => none
  | f + 1, wk, cid, c, m, w =>
    match pollNext wk c w with
    | none => none
    | some (.item o, w) => hostLoop pollNext f wk cid c m (w.forward cid (applyMapper m o))
    | some (.finished, w) => some (true, w)
    | some (.pending, w) => some (false, w)

/-- one poll of a block by the task `wk` of command `cid` -/
def pollBlock (pollNext : Waker → Nat → World → Option (NextRes × World)) :
    Nat → Waker → Sink → Block → World → Option (PollRes × World)
  | 0, _, _, _, _ => none
  | f + 1, wk, cid, .mk env cur rest, w =>
    let legacy := match cid with | .core => true | .cmd _ => false
    let continue_ (env : Env) (rest : List Instr) (w : World) := pollBlock pollNext f wk cid (.mk env .idle rest) w
    let poll_ (cur : Pend) (w : World) := pollBlock pollNext f wk cid (.mk env cur rest) w
    match cur with
    | .idle =>
      match rest with
      | [] => some (.ready env, w)
      | i :: rest' =>
        match i with
        | .emit tag e => continue_ env rest' (w.sinkEvent cid ⟨tag, env.eval e⟩)
        | .notify n e => continue_ env rest' (w.sinkEffect cid ⟨⟨n, env.eval e⟩, .never⟩)
        | .req x n e =>
          -- first poll of ShellRequest: the receiver registers the waker, then the effect is sent (context.rs:180-190)
          let (l, w) := w.newLeaf (some wk) legacy
          let w := w.sinkEffect cid ⟨⟨n, env.eval e⟩, .once l⟩
          some (.pending (.mk env (.req x l) rest'), w)
        | .stream x n e limit body =>
          let (l, w) := w.newLeaf (some wk) legacy
          let w := w.sinkEffect cid ⟨⟨n, env.eval e⟩, .many l⟩
          some (.pending (.mk env (.streamWait x l 0 limit body) rest'), w)
        | .spawn h body =>
          match cid with
          | .cmd c =>
            let (s, w) := w.newMeta
            let w := w.modCmd c fun c => { c with spawnQ := c.spawnQ ++ [⟨s, .mk env .idle body⟩] }
            continue_ (env.setHandle h s) rest' w
          | .core =>
            -- legacy `ctx.spawn`: straight onto the executor's spawn queue, no join handle
            continue_ env rest' { w with execSpawn := w.execSpawn ++ [.legacy (.mk env .idle body)] }
        | .await h =>
          match env.handle h with
          | none => continue_ env rest' w
          | some s => pollBlock pollNext f wk cid (.mk env (.await s) rest') w
        | .abortTask h =>
          match env.handle h with
          | none => continue_ env rest' w
          | some s => continue_ env rest' (w.modMeta s fun m => { m with aborted := true })
        | .join a b => pollBlock pollNext f wk cid (.mk env (.join (.mk env .idle a) (.mk env .idle b) false false) rest') w
        | .select a b => pollBlock pollNext f wk cid (.mk env (.select (.mk env .idle a) (.mk env .idle b)) rest') w
        | .selfwake k => pollBlock pollNext f wk cid (.mk env (.selfwake k) rest') w
        | .handoff x n e body =>
          -- the request future is polled once by this task (the request is sent, THIS task's waker is registered), then
          -- moved into a new task that awaits it: the next poll, by the new task, must replace the registered waker
          let (l, w) := w.newLeaf (some wk) legacy
          let w := w.sinkEffect cid ⟨⟨n, env.eval e⟩, .once l⟩
          match cid with
          | .cmd c =>
            let (s, w) := w.newMeta
            let w := w.modCmd c fun c => { c with spawnQ := c.spawnQ ++ [⟨s, .mk env (.req x l) body⟩] }
            continue_ env rest' w
          | .core => continue_ env rest' { w with execSpawn := w.execSpawn ++ [.legacy (.mk env (.req x l) body)] }
        | .abortCmd name =>
          match w.aborts.find? (·.1 == name) with
          | some (_, c) => continue_ env rest' (w.abortCmd c)
          | none => continue_ env rest' w
        | .host c m => pollBlock pollNext f wk cid (.mk env (.host c m) rest') w
    | .req x l =>
      let lf := w.leaf l
      match lf.queue with
      | v :: _ => continue_ (env.set x v) rest (w.dropReceiver l)
      | [] =>
        if !lf.senderAlive && !lf.legacy then some (.pending (.mk env .reqDead rest), w.dropReceiver l)
        else some (.pending (.mk env cur rest), w.modLeaf l fun lf => { lf with waker := some wk })
    | .reqDead => some (.pending (.mk env cur rest), w)
    | .streamWait x l count limit body =>
      if limit > 0 && count ≥ limit then continue_ env rest (w.dropReceiver l) else
      let lf := w.leaf l
      match lf.queue with
      | v :: q =>
        poll_ (.streamBody x l count limit body (.mk (env.set x v) .idle body)) (w.modLeaf l fun lf => { lf with queue := q })
      | [] =>
        if !lf.senderAlive then continue_ env rest (w.dropReceiver l)
        else some (.pending (.mk env cur rest), w.modLeaf l fun lf => { lf with waker := some wk })
    | .streamBody x l count limit body inner =>
      match pollBlock pollNext f wk cid inner w with
      | none => none
      | some (.pending inner', w) => some (.pending (.mk env (.streamBody x l count limit body inner') rest), w)
      | some (.ready env', w) => pollBlock pollNext f wk cid (.mk env' (.streamWait x l (count + 1) limit body) rest) w
    | .await s =>
      let m := w.getMeta s
      if m.finished then continue_ env rest w
      else if m.taskAlive then
        some (.pending (.mk env cur rest), w.modMeta s fun m => { m with joinWakers := m.joinWakers ++ [wk] })
      else continue_ env rest w
    | .join a b ad bd =>
      let ra := if ad then some (PollRes.ready env, w) else pollBlock pollNext f wk cid a w
      match ra with
      | none => none
      | some (ra, w) =>
        let (a', ad') := match ra with | .pending a' => (a', false) | .ready _ => (a, true)
        let rb := if bd then some (PollRes.ready env, w) else pollBlock pollNext f wk cid b w
        match rb with
        | none => none
        | some (rb, w) =>
          let (b', bd') := match rb with | .pending b' => (b', false) | .ready _ => (b, true)
          if ad' && bd' then continue_ env rest w
          else some (.pending (.mk env (.join a' b' ad' bd') rest), w)
    | .select a b =>
      match pollBlock pollNext f wk cid a w with
      | none => none
      | some (.ready _, w) => continue_ env rest (w.dropBlock b)
      | some (.pending a', w) =>
        match pollBlock pollNext f wk cid b w with
        | none => none
        | some (.ready _, w) => continue_ env rest (w.dropBlock a')
        | some (.pending b', w) => some (.pending (.mk env (.select a' b') rest), w)
    | .selfwake k =>
      match k with
      | 0 => continue_ env rest w
      | k + 1 => some (.pending (.mk env (.selfwake k) rest), w.wake wk)
    | .host c m =>
      match cid with
      | .core => none   -- hosting happens inside commands only
      | .cmd me =>
        match hostLoop pollNext f wk me c m w with
        | none => none
        | some (true, w) => continue_ env rest (w.dropCmd c)
        | some (false, w) => some (.pending (.mk env cur rest), w)

/-! ## The command executor (command/executor.rs) -/

inductive TaskState where
  | missing | suspended | completed | cancelled
deriving DecidableEq, Repr

/-- `Command::run_task` (executor.rs:187-229) -/
def runTaskF (poll : Waker → Sink → Block → World → Option (PollRes × World))
    (cid tid : Nat) (w : World) : Option (TaskState × World) :=
  match (w.cmd cid).tasks.get? tid with
  | none => some (.missing, w)
  | some t =>
    if (w.getMeta t.serial).aborted then some (.completed, w) else
    let serial := w.nextSerial
    let w := { w with nextSerial := serial + 1 }
    match poll (.task cid tid serial) (.cmd cid) t.fut w with
    | none => none
    | some (.ready _, w) => some (.completed, w)
    | some (.pending b, w) =>
      let w := w.modCmd cid fun c => { c with tasks := c.tasks.set tid { t with fut := b } }
      let woken := w.woken.contains serial
      let w := { w with woken := w.woken.filter (· != serial) }
      if !woken && w.holders serial == 0 then some (.cancelled, w) else some (.suspended, w)

/-- `spawn_new_tasks` (executor.rs:231-239) -/
def spawnNewTasks (cid : Nat) (w : World) : World :=
  (w.cmd cid).spawnQ.foldl (fun w t =>
    w.modCmd cid fun c =>
      let (tid, tasks) := c.tasks.insert t
      { c with tasks := tasks, ready := c.ready ++ [tid] })
    (w.modCmd cid fun c => { c with spawnQ := [] })

/-- a task that completed or was cancelled: remove, mark finished, wake join handles, drop (executor.rs:173-181) -/
def finishTask (cid tid : Nat) (w : World) : World :=
  let c := w.cmd cid
  match c.tasks.remove tid with
  | (none, _) => w
  | (some t, tasks) =>
    let w := w.modCmd cid fun c => { c with tasks := tasks }
    let wakers := (w.getMeta t.serial).joinWakers
    let w := w.modMeta t.serial fun m => { m with finished := true, joinWakers := [] }
    let w := w.wakeAll wakers
    w.dropTask t

/-- inner `while let Ok(task_id) = self.ready_queue.try_recv()` -/
def drainReady (runTask : Nat → Nat → World → Option (TaskState × World)) :
    Nat → Nat → World → Option World
  | 0, _, _ => none
  | f + 1, cid, w =>
    match (w.cmd cid).ready with
    | [] => some w
    | tid :: rest =>
      let w := w.modCmd cid fun c => { c with ready := rest }
      match runTask cid tid w with
      | none => none
      | some (.missing, w) | some (.suspended, w) => drainReady runTask f cid w
      | some (.completed, w) | some (.cancelled, w) => drainReady runTask f cid (finishTask cid tid w)

/-- outer `loop` of run_until_settled -/
def settleLoop (runTask : Nat → Nat → World → Option (TaskState × World)) :
    Nat → Nat → World → Option World
  | 0, _, _ => none
  | f + 1, cid, w =>
    let w := spawnNewTasks cid w
    if (w.cmd cid).ready.isEmpty then some w else
    match drainReady runTask (f + 1) cid w with
    | none => none
    | some w => settleLoop runTask f cid w

def loopFuel : Nat := 100000

/-- `Command::run_until_settled` (executor.rs:149-185) -/
def runUntilSettledF (runTask : Nat → Nat → World → Option (TaskState × World)) (cid : Nat) (w : World) : Option World :=
  if w.aborted cid then
    -- self.tasks.clear()
    let ts := (w.cmd cid).tasks.values
    let w := ts.foldl (fun w t => w.dropTask t) w
    some (w.modCmd cid fun c => { c with tasks := {} })
  else settleLoop runTask loopFuel cid w

/-- `Command::is_done` after settling -/
def World.isDoneNow (w : World) (cid : Nat) : Bool :=
  let c := w.cmd cid
  c.effects.isEmpty && c.events.isEmpty && c.tasks.isEmpty

/-- `Stream::poll_next` for Command (stream.rs:23-52) -/
def pollNextF (settle : Nat → World → Option World) (wk : Waker) (cid : Nat) (w : World) : Option (NextRes × World) :=
  let w := w.modCmd cid fun c => { c with waker := some wk }
  match settle cid w with
  | none => none
  | some w =>
    let c := w.cmd cid
    match c.events with
    | e :: es => some (.item (.event e), w.modCmd cid fun c => { c with events := es })
    | [] =>
      match c.effects with
      | e :: es => some (.item (.effect e), w.modCmd cid fun c => { c with effects := es })
      | [] =>
        match settle cid w with   -- is_done() settles again
        | none => none
        | some w => if w.isDoneNow cid then some (.finished, w) else some (.pending, w)

/-- tying the knot on the nesting depth -/
def pollAt : Nat → Waker → Sink → Block → World → Option (PollRes × World)
  | 0 => fun _ _ _ _ => none
  | d + 1 => pollBlock (pollNextF (runUntilSettledF (runTaskF (pollAt d)))) loopFuel

def depthFuel : Nat := 64

def runTask := runTaskF (pollAt depthFuel)
def runUntilSettled := runUntilSettledF runTask
def pollNext := pollNextF runUntilSettled

/-! ## Building commands (command/mod.rs, builder.rs) -/

/-- `Command::new`: four channels, one task (id 0) already on the ready queue, the command's aborted flag
    is the first task's -/
def newCmd (env : Env) (is : List Instr) (w : World) : Nat × World :=
  let (s, w) := w.newMeta
  let (_, tasks) := (Slab.empty : Slab Task).insert ⟨s, .mk env .idle is⟩
  (w.cmds.length, { w with cmds := w.cmds ++ [{ tasks := tasks, ready := [0], abortFlag := s }] })

/-- `Command::spawn` from outside (`and`, `all`) -/
def spawnOn (cid : Nat) (env : Env) (is : List Instr) (w : World) : World :=
  let (s, w) := w.newMeta
  w.modCmd cid fun c => { c with spawnQ := c.spawnQ ++ [⟨s, .mk env .idle is⟩] }

/-- builder chains as sequential code: `cur` is the expression holding the current stage's output -/
def chainInstrs (tag : Nat) : Nat → Expr → List Stage → List Instr
  | _, cur, [] => [.emit tag cur]
  | x, cur, .map k :: ss => chainInstrs tag x (.add cur k) ss
  | x, cur, .thenReq n :: ss => .req (x + 1) n cur :: chainInstrs tag (x + 1) (.var (x + 1)) ss
  | x, cur, .thenStream n :: ss => [.stream (x + 1) n cur 0 (chainInstrs tag (x + 1) (.var (x + 1)) ss)]

def chainStart (isStream : Bool) (n : Nat) (e : Expr) (stages : List Stage) (tag : Nat) : List Instr :=
  if isStream then [.stream 1 n e 0 (chainInstrs tag 1 (.var 1) stages)]
  else .req 1 n e :: chainInstrs tag 1 (.var 1) stages

mutual
def instantiate (env : Env) : Cmd → World → Nat × World
  | .done, w => newCmd env [] w
  | .event tag e, w => newCmd env [.emit tag e] w
  | .notify n e, w => newCmd env [.notify n e] w
  | .req n e tag, w => newCmd env [.req 1 n e, .emit tag (.var 1)] w
  | .stream n e tag, w => newCmd env [.stream 1 n e 0 [.emit tag (.var 1)]] w
  | .chain isStream n e stages tag, w => newCmd env (chainStart isStream n e stages tag) w
  | .thenC a b, w =>
    let (ca, w) := instantiate env a w
    let (cb, w) := instantiate env b w
    newCmd env [.host ca .id, .host cb .id] w
  | .andC a b, w =>
    -- `b` is built FIRST, so that a hosted command's index is always below its host's (the hosting forest is then
    -- well-founded by index — Lemmas/HostLt*); command indices are not observable, abort handles are: they stay
    -- registered in source order (a's before b's; `abort NAME` takes the first match)
    let n0 := w.aborts.length
    let (cb, w) := instantiate env b w
    let n1 := w.aborts.length
    let (ca, w) := instantiate env a w
    let w := { w with aborts := w.aborts.take n0 ++ w.aborts.drop n1 ++ (w.aborts.drop n0).take (n1 - n0) }
    (ca, spawnOn ca env [.host cb .id] w)
  | .all cs, w =>
    let (cids, w) := instantiateAll env cs w
    let (c, w) := newCmd env [] w
    (c, cids.foldl (fun w ci => spawnOn c env [.host ci .id] w) w)
  | .mapEf k c, w =>
    let (cc, w) := instantiate env c w
    newCmd env [.host cc (.ef k)] w
  | .mapEv k c, w =>
    let (cc, w) := instantiate env c w
    newCmd env [.host cc (.ev k)] w
  | .task is, w => newCmd env is w
  | .abortable name c, w =>
    let (cc, w) := instantiate env c w
    (cc, { w with aborts := w.aborts ++ [(name, cc)] })
def instantiateAll (env : Env) : List Cmd → World → List Nat × World
  | [], w => ([], w)
  | c :: cs, w =>
    let (ci, w) := instantiate env c w
    let (rest, w) := instantiateAll env cs w
    (ci :: rest, w)
end

/-! ## The shell side: resolving and dropping requests (core/resolve.rs, context.rs:57-91) -/

inductive ResolveResult where
  | ok | never | finished | gone
deriving DecidableEq, Repr

/-- `Request::resolve(v)`: returns the new resolve state of the request, the result, the world -/
def resolveReq (r : Resolve) (v : Val) (w : World) : Resolve × ResolveResult × World :=
  match r with
  | .never => (.never, .never, w)
  | .gone => (.gone, .gone, w)
  | .once l =>
    -- swapped for Never, closure called: send (ignored if closed), then the sender is dropped
    let lf := w.leaf l
    if lf.receiverAlive then
      let w := w.modLeaf l fun lf => { lf with queue := lf.queue ++ [v], waker := none }
      let w := match lf.waker with | some wk => w.wake wk | none => w
      (.never, .ok, w.dropSender l)
    else (.never, .ok, w.dropSender l)
  | .many l =>
    let lf := w.leaf l
    if lf.receiverAlive then
      let w := w.modLeaf l fun lf => { lf with queue := lf.queue ++ [v], waker := none }
      let w := match lf.waker with | some wk => w.wake wk | none => w
      (.many l, .ok, w)
    else (.many l, .finished, w)

/-- dropping the `Request` -/
def dropReq (r : Resolve) (w : World) : Resolve × World :=
  match r with
  | .once l | .many l => (.gone, w.dropSender l)
  | .never | .gone => (.gone, w)

/-! ## Direct host: a test holding the command (`effects()`, `events()`, `is_done()`) -/

def takeEffects (cid : Nat) (w : World) : Option (List Eff × World) :=
  match runUntilSettled cid w with
  | none => none
  | some w => some ((w.cmd cid).effects, w.modCmd cid fun c => { c with effects := [] })

def takeEvents (cid : Nat) (w : World) : Option (List Ev × World) :=
  match runUntilSettled cid w with
  | none => none
  | some w => some ((w.cmd cid).events, w.modCmd cid fun c => { c with events := [] })

def isDone (cid : Nat) (w : World) : Option (Bool × World) :=
  match runUntilSettled cid w with
  | none => none
  | some w => some (w.isDoneNow cid, w)

/-! ## Core host (capability/executor.rs, capability/mod.rs:461-479, core/mod.rs) -/

structure Core where
  w : World := {}
  /-- the DSL app: event tag ↦ command returned by `update` + legacy capability tasks it spawns -/
  prog : List (Nat × Cmd × List (List Instr)) := []
  execTasks : Slab ExecTask := {}       -- live executor tasks
  log : List Ev := []                   -- the app's model: every event update has applied
deriving Inhabited

inductive RunTask where
  | missing | suspended | completed
deriving DecidableEq, Repr

/-- the CommandSpawner task: `while let Some(output) = command.next().await { forward }` -/
def spawnerLoop : Nat → Nat → Nat → World → Option (Bool × World)
  | 0, _, _, _ => none
  | f + 1, etid, cid, w =>
    match pollNext (.root etid) cid w with
    | none => none
    | some (.item (.effect e), w) => spawnerLoop f etid cid (w.sinkEffect .core e)
    | some (.item (.event e), w) => spawnerLoop f etid cid (w.sinkEvent .core e)
    | some (.finished, w) => some (true, w.dropCmd cid)
    | some (.pending, w) => some (false, w)

/-- `QueuingExecutor::run_task` (single caller: the slot is never `Unavailable`) -/
def execRunTask (etid : Nat) (k : Core) : Option (RunTask × Core) :=
  match k.execTasks.get? etid with
  | none => some (.missing, k)
  | some (.cmd cid) =>
    match spawnerLoop loopFuel etid cid k.w with
    | none => none
    | some (true, w) => some (.completed, { k with w := w, execTasks := (k.execTasks.remove etid).2 })
    | some (false, w) => some (.suspended, { k with w := w })
  | some (.legacy b) =>
    match pollAt depthFuel (.root etid) .core b k.w with
    | none => none
    | some (.ready _, w) => some (.completed, { k with w := w, execTasks := (k.execTasks.remove etid).2 })
    | some (.pending b', w) => some (.suspended, { k with w := w, execTasks := k.execTasks.set etid (.legacy b') })

def execDrainSpawn : Nat → Core → Bool → Option (Core × Bool)
  | 0, _, _ => none
  | f + 1, k, did =>
    match k.w.execSpawn with
    | [] => some (k, did)
    | t :: rest =>
      let (etid, tasks) := k.execTasks.insert t
      match execRunTask etid { k with w := { k.w with execSpawn := rest }, execTasks := tasks } with
      | none => none
      | some (_, k) => execDrainSpawn f k true

def execDrainReady : Nat → Core → Bool → Option (Core × Bool)
  | 0, _, _ => none
  | f + 1, k, did =>
    match k.w.execReady with
    | [] => some (k, did)
    | etid :: rest =>
      match execRunTask etid { k with w := { k.w with execReady := rest } } with
      | none => none
      | some (.missing, k) => execDrainReady f k did
      | some (_, k) => execDrainReady f k true

/-- `QueuingExecutor::run_all` (capability/executor.rs:92-132) -/
def runAll : Nat → Core → Option Core
  | 0, _ => none
  | f + 1, k =>
    match execDrainSpawn loopFuel k false with
    | none => none
    | some (k, d1) =>
      match execDrainReady loopFuel k false with
      | none => none
      | some (k, d2) => if d1 || d2 then runAll f k else some k

/-- `app.update` of the DSL app + `command_spawner.spawn(command)` -/
def update (ev : Ev) (k : Core) : Core :=
  let (cmd, legacy) := match k.prog.find? (·.1 == ev.tag) with
    | some (_, c, ls) => (c, ls)
    | none => (Cmd.done, [])
  let env : Env := { vars := [(0, ev.v)] }
  -- legacy capability calls spawn inside `update`; the returned command is spawned after it
  let w := { k.w with execSpawn := k.w.execSpawn ++ legacy.map fun is => ExecTask.legacy (.mk env .idle is) }
  let (cid, w) := instantiate env cmd w
  { k with w := { w with execSpawn := w.execSpawn ++ [.cmd cid] }, log := k.log ++ [ev] }

def processLoop : Nat → Core → Option Core
  | 0, _ => none
  | f + 1, k =>
    match k.w.coreEvents with
    | [] => some k
    | ev :: rest =>
      match runAll loopFuel (update ev { k with w := { k.w with coreEvents := rest } }) with
      | none => none
      | some k => processLoop f k

/-- `Core::process` (core/mod.rs:127-143) -/
def process (k : Core) : Option (List Eff × Core) :=
  match runAll loopFuel k with
  | none => none
  | some k =>
    match processLoop loopFuel k with
    | none => none
    | some k => some (k.w.coreEffects, { k with w := { k.w with coreEffects := [] } })

/-- `Core::process_event` -/
def processEvent (ev : Ev) (k : Core) : Option (List Eff × Core) := process (update ev k)

end M.Rt
