/-
M.Codegen — model of crux_cli/src/codegen/{mod,filter,formatter,node,item,serde/case}.rs: the type registry the CLI
derives from rustdoc descriptions of a crate and the crates it depends on.

Input: the *abstract description* (`Crate`): the items `Filter::process` keeps (`is_relevant`, item.rs:6-13) with id,
name, the four serde attribute patterns the code looks for, kind with ordered child ids, type expressions; the
summaries (`paths`) and external crates.  The harness regenerates it from the bundled rustdoc JSON on every run.

Rendering choices (each is exercised by the correspondence check, none is assumed by a theorem without being named):
  * ascent relations are finite sets evaluated to a least fixpoint; they are lists here (duplicates allowed, order
    never observed except where stated).  Every predicate of node.rs compares crate names before anything else
    (node.rs:137,181,204,217,222,244), so no rule relates items of different crates; `Filter::process` replaces the
    fact vectors but ascent keeps the indices of earlier runs, so facts accumulate over the crates loaded; the
    model therefore evaluates the filter rules per crate (`crateEdges`) and takes the union over the loaded crates.
  * `run` (mod.rs:74-101) loads whatever crate `next.pop()` yields; the model loads the first pending crate of the
    list it is given (`load`).  That the result does not depend on this choice is part of C20.
  * Formatter aggregates (`collect` + sort by `Indexed::index`, formatter.rs:244-262) are rendered as maps over the
    declaration-ordered child list (`orderedFields`, `orderedVariants`); equal when child id lists have no
    duplicates (rustdoc child lists never have).
  * `todo!()` / `panic!` on unsupported type expressions (formatter.rs:337-425) is the marker `Format.bad`.
-/
namespace M.Codegen

/-! ## description -/

inductive ArgKind where
  | none    -- `args: None`
  | angle   -- `<A, B>`; a lifetime / const / infer argument is `Ty.nonType`
  | paren   -- `Fn(A, B) -> C`: the inputs
  | rtn     -- `(..)`
deriving DecidableEq, Repr

/-- rustdoc_types::Type as far as codegen looks into it -/
inductive Ty where
  | path (p : String) (id : Nat) (k : ArgKind) (as : List Ty)
  | qpath (name : String) (self : Ty) (k : ArgKind) (as : List Ty)
  | prim (n : String)
  | tuple (ts : List Ty)
  | slice (t : Ty)
  | array (t : Ty)
  | other   -- dyn, generic, fn pointer, impl, infer, raw pointer, reference, pattern
  | nonType -- a generic argument that is not a type (lifetime, const, infer); only inside `as`
deriving Repr

structure Attrs where
  skip : Bool                 -- some attr matches `[serde(skip)]` (node.rs:155-160)
  renames : List String       -- captures of `[serde(rename = "…")]`, one per matching attr, in attr order
  renameAll : Option String   -- first capture of `[serde(rename_all = "…")]`
  with_ : Option String       -- first capture of `[serde(with = "…")]`
deriving Repr

inductive Kind where
  | structUnit
  | structPlain (fields : List Nat)
  | structTuple (fields : List (Option Nat))
  | enum (variants : List Nat)
  | variantPlain
  | variantTuple (fields : List (Option Nat))
  | variantStruct (fields : List Nat)
  | field (ty : Ty)
  | assocType (target : Option Nat)                         -- `some id` iff `type_ = Some(ResolvedPath{id,..})`
  | impl (trait : String) (for_ : Option Nat) (items : List Nat)   -- `for_ = some id` iff `for_` is a ResolvedPath
deriving Repr

structure Item where
  id : Nat
  name : Option String
  attrs : Attrs
  kind : Kind
deriving Repr

structure Summary where
  id : Nat
  crateId : Nat
  path : List String
deriving Repr

structure Crate where
  name : String
  items : List Item
  summaries : List Summary
  ext : List (Nat × String)
deriving Repr

/-! ## registry (crux_cli/src/codegen/serde_generate/format.rs) -/

inductive Format where
  | typeName (n : String)
  | prim (n : String)          -- unit bool i8 … u128 f32 f64 char str bytes
  | option (f : Format)
  | seq (f : Format)
  | map (k v : Format)
  | tuple (fs : List Format)
  | arr (n : Nat) (f : Format)
  | bad                        -- the conversion panics (`todo!()`, unknown primitive, missing generic argument)
deriving Repr

inductive VFormat where
  | unit
  | newType (f : Format)
  | tuple (fs : List Format)
  | struct (fs : List (String × Format))
deriving Repr

inductive Container where
  | unit
  | newType (f : Format)
  | tuple (fs : List Format)
  | struct (fs : List (String × Format))
  | enum (vs : List (Nat × String × VFormat))
deriving Repr

/-! ## item.rs / node.rs predicates -/

def Item.isStruct (i : Item) : Bool :=
  match i.kind with | .structUnit | .structPlain _ | .structTuple _ => true | _ => false

def Item.isEnum (i : Item) : Bool := match i.kind with | .enum _ => true | _ => false

def Item.isStructUnit (i : Item) : Bool := match i.kind with | .structUnit => true | _ => false

/-- item.rs:87-117 `field_ids` -/
def Item.fieldIds (i : Item) : List Nat :=
  match i.kind with
  | .structPlain fs | .variantStruct fs => fs
  | .structTuple fs | .variantTuple fs => fs.filterMap fun o => o
  | _ => []

/-- item.rs:161-169 `variant_ids` -/
def Item.variantIds (i : Item) : List Nat := match i.kind with | .enum vs => vs | _ => []

/-- node.rs:120-135 `ItemNode::name`: the last `rename` wins, else the item's name -/
def Item.serdeName (i : Item) : Option String :=
  match i.attrs.renames.getLast? with
  | some n => some n
  | none => i.name

/-- node.rs:174-183 `has_field` (the crate comparison is implicit: both items are of one crate) -/
def hasField (x f : Item) : Bool :=
  !f.attrs.skip && !(f.serdeName == some "__private_field") && x.fieldIds.contains f.id

/-- node.rs:198-204 `has_variant` -/
def hasVariant (e v : Item) : Bool := !v.attrs.skip && e.variantIds.contains v.id

def remoteSkipped : List String := ["Option", "String", "Vec", "std::ops::Range"]

/-- node.rs:228-275 `check_type` / `check_path` / `check_args`: does item id `pid` occur in the type?
    (`ReturnTypeNotation` is `todo!()` there; it cannot occur in a field type and is `false` here) -/
def Ty.mentions (pid : Nat) (remote : Bool) : Ty → Bool
  | .path p id k as =>
    if remote && remoteSkipped.contains p then false
    else id == pid || (match k with | .angle | .paren => anyM as | _ => false)
  | .qpath _ self k as => self.mentions pid remote || (match k with | .angle | .paren => anyM as | _ => false)
  | .prim _ => false
  | .tuple ts => anyM ts
  | .slice t => t.mentions pid remote
  | .array t => t.mentions pid remote
  | .other => false
  | .nonType => false
where
  anyM : List Ty → Bool
    | [] => false
    | t :: ts => t.mentions pid remote || anyM ts

/-- node.rs:214-236 `is_of_type` -/
def isOfType (f : Item) (tid : Nat) (remote : Bool) : Bool :=
  match f.kind with
  | .field t => t.mentions tid remote
  | .assocType (some target) => target == tid
  | _ => false

/-- item.rs:221-233 `is_impl_for` -/
def isImplFor (imp for_ : Item) (tr : String) : Bool :=
  match imp.kind with
  | .impl t (some fid) _ => t == tr && fid == for_.id
  | _ => false

/-- item.rs:245-256 `has_associated_item` (compares the item's own name, not the serde name) -/
def hasAssoc (imp a : Item) (nm : String) : Bool :=
  match imp.kind with
  | .impl _ _ items => a.name == some nm && items.contains a.id
  | _ => false

/-- node.rs:84-94 `in_same_module_as` -/
def sameModulePath (p q : List String) : Bool := p.length == q.length && p.dropLast == q.dropLast

/-! ## filter.rs, per crate -/

/-- `variant(x, v)` (filter.rs:29-30) -/
def variantP (x v : Item) : Bool := x.isEnum && hasVariant x v

/-- `local_type_of(f, t)` (filter.rs:36-37) -/
def localTypeP (f t : Item) : Bool := isOfType f t.id false

namespace Crate
variable (c : Crate)

/-- `variant(e, v)` for some `e` (filter.rs:29-30) -/
def isVariantMember (v : Item) : Bool := c.items.any fun e => e.isEnum && hasVariant e v

/-- `field(x, f)` (filter.rs:32-34) -/
def fieldP (x f : Item) : Bool := hasField x f && (x.isStruct || c.isVariantMember x)

/-- `app(imp, app)` (filter.rs:43-47) -/
def apps : List (Item × Item) :=
  (c.items.filter Item.isStruct).flatMap fun app => (c.items.filter fun imp => isImplFor imp app "App").map (·, app)

def isApp (x : Item) : Bool := c.apps.any fun p => p.2.id == x.id

/-- `parent(p, child)` (filter.rs:50-55) -/
def parentP (p child : Item) : Bool :=
  c.isApp p && c.isApp child && c.items.any fun f => c.fieldP p f && localTypeP f child

/-- `root_app(imp, app)` (filter.rs:57-60) -/
def rootApps : List (Item × Item) := c.apps.filter fun p => !(c.items.any fun q => c.parentP q p.2)

/-- types of the associated item `nm` of impl `imp` -/
def assocTypes (imp : Item) (nm : String) : List Item :=
  (c.items.filter fun a => hasAssoc imp a nm).flatMap fun a => c.items.filter fun t => localTypeP a t

/-- `has_summary(a, sa), has_summary(b, sb), sa.in_same_module_as(sb)` (filter.rs:84-86) -/
def sameModule (a b : Item) : Bool :=
  c.summaries.any fun sa => sa.id == a.id && c.summaries.any fun sb => sb.id == b.id && sameModulePath sa.path sb.path

/-- `view_model` and `event` (filter.rs:62-75) -/
def viewModels : List Item := c.rootApps.flatMap fun p => c.assocTypes p.1 "ViewModel"
def events : List Item := c.rootApps.flatMap fun p => c.assocTypes p.1 "Event"

/-- `effect(app, ffi)` (filter.rs:79-90) -/
def effects : List Item :=
  c.rootApps.flatMap fun p =>
    (c.items.filter Item.isEnum).flatMap fun eff =>
      if c.sameModule p.2 eff then
        (c.items.filter fun effImpl => isImplFor effImpl eff "Effect").flatMap fun effImpl => c.assocTypes effImpl "Ffi"
      else []

/-- `operation(op_impl, op)` (filter.rs:93-101) -/
def operations : List (Item × Item) :=
  (c.items.filter fun op => op.isStruct || op.isEnum).flatMap fun op =>
    (c.items.filter fun imp => isImplFor imp op "Operation").map (·, op)

/-- `output(out)` (filter.rs:104-108) -/
def outputs : List Item := c.operations.flatMap fun p => c.assocTypes p.1 "Output"

/-- `root(x)` (filter.rs:110-115) -/
def roots : List Item := c.viewModels ++ c.events ++ c.effects ++ c.operations.map (·.2) ++ c.outputs

/-- the items an edge leads to from `x`: fields, variants, local types (filter.rs:130-141) -/
def succ (x : Item) : List Item :=
  let member := x.isStruct || c.isVariantMember x
  c.items.filter fun y => (member && hasField x y) || variantP x y || localTypeP x y

def seenIn (seen : List Item) (y : Item) : Bool := seen.any fun s => s.id == y.id

/-- keep the first occurrence of every id -/
def dedup : List Item → List Item → List Item
  | _, [] => []
  | seen, y :: ys => if seenIn seen y then dedup seen ys else y :: dedup (y :: seen) ys

/-- closure of `frontier ⊆ seen` under `succ`; at most `fuel` rounds (one new item per round at least) -/
def reach : Nat → List Item → List Item → List Item
  | 0, _, seen => seen
  | fuel + 1, frontier, seen =>
    let new := dedup seen (frontier.flatMap c.succ)
    if new.isEmpty then seen else reach fuel new (seen ++ new)

/-- every item that is a root or the target of an edge -/
def reachable : List Item :=
  let r := dedup [] c.roots
  c.reach c.items.length r r

/-- `edge(a, b)` (filter.rs:118-141) -/
def edges : List (Item × Item) :=
  ((c.roots.filter Item.isStructUnit).map fun r => (r, r)) ++ c.reachable.flatMap fun x => (c.succ x).map (x, ·)

/-- `crates(n)` (filter.rs:143-149), for the edges of this crate -/
def wanted : List String :=
  c.edges.flatMap fun e =>
    (c.summaries.filter fun s => isOfType e.2 s.id true).flatMap fun s => (c.ext.filter fun x => x.1 == s.crateId).map (·.2)

end Crate

/-! ## mod.rs `run`: which crates get loaded -/

/-- `none`: a pending crate cannot be loaded (`load(&crate_name)?` fails) — or the fuel ran out, which it cannot when
    it is the number of available crates plus one and their names are distinct (every round loads a new one) -/
def load (avail : List Crate) : Nat → List Crate → Option (List Crate)
  | 0, _ => none
  | fuel + 1, loaded =>
    let pending := (loaded.flatMap Crate.wanted).filter fun n => !(loaded.any fun l => l.name == n)
    match pending with
    | [] => some loaded
    | n :: _ =>
      match avail.find? fun a => a.name == n with
      | none => none
      | some a => load avail fuel (loaded ++ [a])

/-! ## formatter.rs -/

structure Node where
  krate : String
  item : Item
deriving Repr

abbrev Edges := List (Node × Node)

def Node.same (a b : Node) : Bool := a.krate == b.krate && a.item.id == b.item.id

def nodeEdges (c : Crate) : Edges := c.edges.map fun e => (⟨c.name, e.1⟩, ⟨c.name, e.2⟩)

/-- the reversed characters after the last `::` (scanning the reversed string for its first `::`) -/
def lastSegRev : List Char → List Char → List Char
  | [], acc => acc.reverse
  | ':' :: ':' :: _, acc => acc.reverse
  | ch :: rest, acc => lastSegRev rest (ch :: acc)

/-- formatter.rs:428-434 `path_to_string`: what follows the last `::` -/
def pathName (p : String) : String := String.ofList (lastSegRev p.toList.reverse []).reverse

def primFormat : String → Format
  | "bool" => .prim "bool" | "char" => .prim "char"
  | "isize" => .prim "i64" | "i8" => .prim "i8" | "i16" => .prim "i16" | "i32" => .prim "i32"
  | "i64" => .prim "i64" | "i128" => .prim "i128"
  | "usize" => .prim "u64" | "u8" => .prim "u8" | "u16" => .prim "u16" | "u32" => .prim "u32"
  | "u64" => .prim "u64" | "u128" => .prim "u128"
  | _ => .bad

/-- formatter.rs:337-425 `impl From<&Type> for Format` -/
def Ty.format : Ty → Format
  | .path p _ k as =>
    match k with
    | .none => .typeName (pathName p)
    | .angle =>
      if pathName p == "Option" then .option (first as)
      else if pathName p == "String" then .prim "str"
      else if pathName p == "Vec" then .seq (first as)
      else .typeName (pathName p)
    | _ => .bad
  | .qpath name _ _ _ => .typeName name
  | .prim n => primFormat n
  | .tuple ts => .tuple (all ts)
  | _ => .bad
where
  first : List Ty → Format
    | [] => .bad
    | t :: _ => t.format
  all : List Ty → List Format
    | [] => []
    | t :: ts => t.format :: all ts

def Format.isBad : Format → Bool
  | .bad => true
  | .option f | .seq f | .arr _ f => f.isBad
  | .map k v => k.isBad || v.isBad
  | .tuple fs => anyBad fs
  | _ => false
where
  anyBad : List Format → Bool
    | [] => false
    | f :: fs => f.isBad || anyBad fs

/-- formatter.rs:126-147 `make_format`, the value: `none` when the item is not a struct field -/
def fieldFormat (f : Item) : Option Format :=
  match f.kind with
  | .field t =>
    match f.attrs.with_ with
    | some w => if w == "serde_bytes" then some (.prim "bytes") else some .bad
    | none => some t.format
  | _ => none

/-! serde/case.rs -/

def capFirst (f : Char → Char) : List Char → List Char
  | [] => []
  | ch :: cs => f ch :: cs

def snakeVariant (cs : List Char) : List Char :=
  (cs.zipIdx.flatMap fun p => if p.2 > 0 && p.1.isUpper then ['_', p.1.toLower] else [p.1.toLower])

def replaceChar (a b : Char) (cs : List Char) : List Char := cs.map fun ch => if ch == a then b else ch

/-- case.rs:57-80 `apply_to_variant` (an unknown rule is `None`, formatter.rs:455-457) -/
def renameVariant (rule : String) (name : String) : String :=
  let cs := name.toList
  match rule with
  | "lowercase" => String.ofList (cs.map Char.toLower)
  | "UPPERCASE" => String.ofList (cs.map Char.toUpper)
  | "camelCase" => String.ofList (capFirst Char.toLower cs)
  | "snake_case" => String.ofList (snakeVariant cs)
  | "SCREAMING_SNAKE_CASE" => String.ofList ((snakeVariant cs).map Char.toUpper)
  | "kebab-case" => String.ofList (replaceChar '_' '-' (snakeVariant cs))
  | "SCREAMING-KEBAB-CASE" => String.ofList (replaceChar '_' '-' ((snakeVariant cs).map Char.toUpper))
  | _ => name

def pascalField : Bool → List Char → List Char
  | _, [] => []
  | cap, ch :: cs =>
    if ch == '_' then pascalField true cs
    else if cap then ch.toUpper :: pascalField false cs
    else ch :: pascalField false cs

/-- case.rs:83-113 `apply_to_field` -/
def renameField (rule : String) (name : String) : String :=
  let cs := name.toList
  match rule with
  | "UPPERCASE" | "SCREAMING_SNAKE_CASE" => String.ofList (cs.map Char.toUpper)
  | "PascalCase" => String.ofList (pascalField true cs)
  | "camelCase" => String.ofList (capFirst Char.toLower (pascalField true cs))
  | "kebab-case" => String.ofList (replaceChar '_' '-' cs)
  | "SCREAMING-KEBAB-CASE" => String.ofList (replaceChar '_' '-' (cs.map Char.toUpper))
  | _ => name

/-- formatter.rs:436-458 `variant_name`: the first `rename` of the variant, else the enum's `rename_all` -/
def variantName (name : String) (v e : Attrs) : String :=
  match v.renames.head? with
  | some r => r
  | none => match e.renameAll with | some rule => renameVariant rule name | none => name

/-- formatter.rs:460-482 `field_name` -/
def fieldName (name : String) (f s : Attrs) : String :=
  match f.renames.head? with
  | some r => r
  | none => match s.renameAll with | some rule => renameField rule name | none => name

def nHasField (x f : Node) : Bool := x.krate == f.krate && hasField x.item f.item
def nHasVariant (e v : Node) : Bool := e.krate == v.krate && hasVariant e.item v.item

/-- `field(x, ·)` (formatter.rs:33-34) -/
def fieldSet (E : Edges) (x : Node) : List Node := (E.filter fun e => e.1.same x && nHasField x e.2).map (·.2)

/-- `fields(x, ·)`: node.rs:162-172 `ItemNode::fields` — declaration order, first match per id -/
def orderedFields (E : Edges) (x : Node) : List Node :=
  x.item.fieldIds.filterMap fun id => (fieldSet E x).find? fun f => !f.item.attrs.skip && f.item.id == id

/-- `variant(e, ·)` (formatter.rs:42-43) -/
def variantSet (E : Edges) (e : Node) : List Node := (E.filter fun p => p.1.same e && nHasVariant e p.2).map (·.2)

/-- `variants(e, ·)`: node.rs:185-196 `ItemNode::variants` -/
def orderedVariants (E : Edges) (e : Node) : List Node :=
  e.item.variantIds.filterMap fun id => (variantSet E e).find? fun v => !v.item.attrs.skip && v.item.id == id

/-- `format(x, ·)` sorted by index (formatter.rs:63-67, 126-147) -/
def fmtList (E : Edges) (x : Node) : List Format := (orderedFields E x).filterMap fun f => fieldFormat f.item

/-- `format_named(x, ·)` sorted by index (formatter.rs:69-73, 149-168) -/
def namedList (E : Edges) (x : Node) : List (String × Format) :=
  (orderedFields E x).filterMap fun f =>
    match f.item.serdeName, fieldFormat f.item with
    | some n, some fm => some (fieldName n f.item.attrs x.item.attrs, fm)
    | _, _ => none

def tupleVariant : List Format → VFormat
  | [] => .unit
  | [f] => .newType f
  | fs => .tuple fs

/-- formatter.rs:170-242 `make_{plain,tuple,struct}_variant_format`, without the index -/
def variantFormat (E : Edges) (e v : Node) : Option (String × VFormat) :=
  match v.item.name with
  | none => none
  | some nm =>
    let n := variantName nm v.item.attrs e.item.attrs
    match v.item.kind with
    | .variantPlain => some (n, .unit)
    | .variantTuple _ => some (n, tupleVariant (fmtList E v))
    | .variantStruct _ => some (n, .struct (namedList E v))
    | _ => none

/-- `make_enum` over `format_variant(e, ·)` (formatter.rs:264-270): index = position among `variants(e, ·)` -/
def enumMap (E : Edges) (e : Node) : List (Nat × String × VFormat) :=
  (orderedVariants E e).zipIdx.filterMap fun p => (variantFormat E e p.1).map fun nv => (p.2, nv)

/-- formatter.rs:248-255 `make_struct_plain` -/
def mkStructPlain : List (String × Format) → Container
  | [] => .unit
  | fs => .struct fs

/-- formatter.rs:257-266 `make_struct_tuple` -/
def mkStructTuple : List Format → Container
  | [] => .unit
  | [f] => .newType f
  | fs => .tuple fs

/-- the `container` rules for structs and enums (formatter.rs:98-117) -/
def containerOf (E : Edges) (x : Node) : Option (String × Container) :=
  match x.item.serdeName with
  | none => none
  | some name =>
    match x.item.kind with
    | .structUnit => some (name, .unit)
    | .structPlain _ => some (name, mkStructPlain (namedList E x))
    | .structTuple _ => some (name, mkStructTuple (fmtList E x))
    | .enum _ => if (variantSet E x).isEmpty then none else some (name, .enum (enumMap E x))
    | _ => none

/-- node.rs:143-153 `is_range` -/
def isRange (f : Item) : Bool :=
  match f.kind with
  | .field (.path p _ _ _) => p == "std::ops::Range"
  | _ => false

def Ty.isNonType : Ty → Bool | .nonType => true | _ => false

/-- formatter.rs:272-311 `make_range`: `None` unless the first generic argument is a type -/
def mkRange (f : Item) : Option Container :=
  match f.kind with
  | .field (.path _ _ .angle (t :: _)) =>
    if t.isNonType then none else some (.struct [("start", t.format), ("end", t.format)])
  | _ => none

/-- formatter.rs:118-120 -/
def ranges (E : Edges) : List (String × Container) :=
  E.filterMap fun e => if nHasField e.1 e.2 && isRange e.2.item then (mkRange e.2.item).map fun c => ("Range", c) else none

/-- formatter.rs:313-324 `make_request` -/
def request : Container := .struct [("id", .prim "u32"), ("effect", .typeName "Effect")]

/-- the `container` relation, in some order -/
def containers (E : Edges) : List (String × Container) :=
  (E.map (·.1)).filterMap (containerOf E) ++ ranges E ++ [("Request", request)]

/-- `BTreeMap::from_iter` (mod.rs:111): a later entry replaces an earlier one with the same name -/
def lookup (r : List (String × Container)) (n : String) : Option Container :=
  (r.reverse.find? fun e => e.1 == n).map (·.2)

/-- some reachable field has a type the formatter panics on (`make_format` runs for every `field(x, f)`) -/
def panics (E : Edges) : Bool :=
  E.any fun e => nHasField e.1 e.2 && (match fieldFormat e.2.item with | some f => f.isBad | none => false)

/-! ## decidable side conditions of the theorems (Props/C20.lean); the driver evaluates them on every case -/

def Item.isVariant (i : Item) : Bool :=
  match i.kind with | .variantPlain | .variantTuple _ | .variantStruct _ => true | _ => false

/-- whatever the variant list of a reachable enum resolves to is a named variant item -/
def variantsWF (E : Edges) : Bool :=
  E.all fun e => (variantSet E e.1).all fun v => v.item.name.isSome && v.item.isVariant

def nodupNat : List Nat → Bool
  | [] => true
  | a :: l => !l.contains a && nodupNat l

def nodupStr : List String → Bool
  | [] => true
  | a :: l => !l.contains a && nodupStr l

/-- ids are unique per crate (rustdoc's `index` is a map) and crate names are distinct -/
def Crate.idsUnique (c : Crate) : Bool := nodupNat (c.items.map (·.id))

def cratesWF (cs : List Crate) : Bool := cs.all Crate.idsUnique && nodupStr (cs.map (·.name))

/-! ## the whole run -/

inductive Outcome where
  | ok (containers : List (String × Container))
  | errLoad
  | panic
deriving Repr

/-- the `edge` relation `run` hands to `format` (mod.rs:100): `none` when loading fails -/
def loadedEdges (avail : List Crate) (root : String) : Option Edges :=
  match avail.find? fun a => a.name == root with
  | none => none
  | some r => (load avail (avail.length + 1) [r]).map fun loaded => loaded.flatMap nodeEdges

/-- `run(root, load)` for the crates `avail` a loader can produce -/
def registry (avail : List Crate) (root : String) : Outcome :=
  match loadedEdges avail root with
  | none => .errLoad
  | some E => if panics E then .panic else .ok (containers E)

end M.Codegen
