/-
M.Timer — model of the timer protocol of crux_time (C18), as driven through crux_core's Command runtime.

Anchors (all under /repo):
  crux_time/src/command.rs:48-187    `notify_at` / `notify_after`: `receiver.try_recv()` (early clear), then
                                     `select_biased!` over the shell request (first arm) and the handle's oneshot
                                     (second arm), then the follow-up `Clear` request
  crux_time/src/command.rs:193-208   `TimerHandle::clear` (sends the id, consumes the handle) / dropping the handle
  crux_time/src/lib.rs:26-29         process-wide id counter (`fetch_add(1)`)
  crux_time/src/lib.rs:93-225        legacy capability API: `notify_at/notify_after`, `clear`, `TimerFuture`, `CLEARED_TIMER_IDS`
  crux_core/src/command/executor.rs:149-228   `run_until_settled` (only woken tasks are polled), `run_task` (a pending task
                                     none of whose futures kept this poll's waker is evicted)
  crux_core/src/command/context.rs:52-75,199-226  `request_from_shell` / `ShellRequest` (effect sent on first poll; value
                                     delivered through an mpsc channel; a dropped `Request` closes the channel and wakes
                                     the task; the closed channel makes the future pend forever without a waker)
  crux_core/src/core/resolve.rs:89-104   `Resolve::Once` → `Never`: the first `resolve` is `Ok`, every later one `Err`
  crux_core/src/capability/shell_request.rs:44-122  legacy `ShellRequest` (a dropped `Request` wakes nobody)

One timer is a small explicit state machine: the control state of the async block (`Ctl`), the state of the
handle's oneshot (`HandleSt`), whether the command's task sits in the ready queue (`woken`), and for each of the
two requests the timer can send (the timer request, the `Clear` request) where the `Request` object is and what
was delivered through it.
-/
namespace M.Timer

inductive Kind where
  | after | at
deriving DecidableEq, Repr

/-- `TimeResponse` (protocol/mod.rs:24-31) without `Now`. -/
inductive Resp where
  | elapsed (id : Nat) | arrived (id : Nat) | cleared (id : Nat)
deriving DecidableEq, Repr

/-- `TimeRequest` (protocol/mod.rs:12-19) without `Now`. -/
inductive Eff where
  | notify (k : Kind) (id : Nat) | clear (id : Nat)
deriving DecidableEq, Repr

/-- What the app is told: `TimerOutcome::{Completed(handle with id), Cleared}` (command API),
    the raw `TimeResponse` (legacy API). -/
inductive Ev where
  | completed (id : Nat) | cleared | got (r : Resp)
deriving DecidableEq, Repr

/-- result class of one action: performed / `resolve` returned Ok / Err / nothing to act on / the call panicked /
    the timer's command panicked earlier -/
inductive Res where
  | unit | ok | err | na | panic | dead
deriving DecidableEq, Repr

/-- the oneshot between `TimerHandle` and the task: sender alive / id sent (`clear`, sender consumed) / sender
    dropped without sending -/
inductive HandleSt where
  | alive | cleared | dropped
deriving DecidableEq, Repr

/-- where the `Request` object of an effect is: not emitted yet / held by the shell / dropped by the shell -/
inductive Shell where
  | absent | held | gone
deriving DecidableEq, Repr

/-- One request. `answer` is what the first `resolve` delivered (the object stays with the shell afterwards, spent).
    The task's future sees: a value (`answer = some v`), a closed channel (`shell = gone ∧ answer = none`), or nothing. -/
structure Req where
  shell : Shell := .absent
  answer : Option Resp := none
deriving DecidableEq, Repr

/-- control state of the timer's task (`then_send` around the async block of command.rs:68-114 / 137-184) -/
inductive Ctl where
  | notStarted      -- never polled
  | waiting         -- inside `select_biased!`
  | clearPending    -- awaiting the answer to `TimeRequest::Clear`
  | completed       -- `TimerOutcome::Completed` sent, task finished
  | cleared         -- `TimerOutcome::Cleared` sent, task finished
  | evicted         -- task pending with no waker left: removed by `run_task` (executor.rs:223-225), no outcome ever
  | panicked        -- a response of the wrong kind / with the wrong id reached the task
deriving DecidableEq, Repr

structure Timer where
  kind : Kind
  id : Nat
  ctl : Ctl := .notStarted
  handle : HandleSt := .alive
  /-- the task is in the command's ready queue (it is from creation: `Command::new`, mod.rs:325-327) -/
  woken : Bool := true
  req : Req := {}
  clr : Req := {}
deriving DecidableEq, Repr

/-- the response the code accepts for this timer's request (command.rs:83-89 / 151-157) -/
def Timer.good (t : Timer) : Resp :=
  match t.kind with
  | .after => .elapsed t.id
  | .at => .arrived t.id

/-- the task exists and is suspended -/
def Timer.live (t : Timer) : Bool :=
  t.ctl == .waiting || t.ctl == .clearPending

/-- the command has nothing left (`is_done()` once effects and events are drained) -/
def Timer.terminal (t : Timer) : Bool :=
  t.ctl == .completed || t.ctl == .cleared || t.ctl == .evicted

structure Polled where
  effects : List Eff := []
  events : List Ev := []
  panicked : Bool := false
deriving DecidableEq, Repr

/-- One poll of the task's future (executor.rs:187-228). -/
def runTask (t : Timer) : Timer × Polled :=
  match t.ctl with
  | .notStarted =>
    match t.handle with
    -- `try_recv` = Ok(Some(id)): return Cleared, nothing is sent (command.rs:70-74 / 138-142)
    | .cleared => ({ t with ctl := .cleared }, { events := [.cleared] })
    -- Ok(None) (alive) or Err(Canceled) (dropped): enter the select; first arm sends the request; a dropped
    -- sender makes the receiver `is_terminated`, the second arm is skipped (command.rs:93-98)
    | _ => ({ t with ctl := .waiting, req := { t.req with shell := .held } }, { effects := [.notify t.kind t.id] })
  | .waiting =>
    match t.req.answer with
    -- biased: the shell's answer is looked at first (command.rs:77-92 / 145-160)
    | some v =>
      if v = t.good then ({ t with ctl := .completed }, { events := [.completed t.id] })
      else ({ t with ctl := .panicked }, { panicked := true })
    | none =>
      match t.handle with
      | .cleared => ({ t with ctl := .clearPending, clr := { t.clr with shell := .held } }, { effects := [.clear t.id] })
      | .alive => (t, {})
      -- receiver terminated; if the request's channel is closed too, no future kept the waker: evicted
      | .dropped => if t.req.shell = .gone then ({ t with ctl := .evicted }, {}) else (t, {})
  | .clearPending =>
    match t.clr.answer with
    | some v =>
      if v = .cleared t.id then ({ t with ctl := .cleared }, { events := [.cleared] })
      else ({ t with ctl := .panicked }, { panicked := true })
    | none => if t.clr.shell = .gone then ({ t with ctl := .evicted }, {}) else (t, {})
  | _ => (t, {})

/-- `Request::resolve` (request.rs:60-62, resolve.rs:89-104) -/
def Req.resolve (r : Req) (v : Resp) : Req × Res :=
  match r.shell, r.answer with
  | .held, none => ({ r with answer := some v }, .ok)
  | .held, some _ => (r, .err)
  | _, _ => (r, .na)

/-- dropping the `Request` -/
def Req.drop (r : Req) : Req × Res :=
  match r.shell with
  | .held => ({ r with shell := .gone }, .unit)
  | _ => (r, .na)

/-- does dropping it close a channel somebody may listen on (unresolved request)? -/
def Req.open (r : Req) : Bool := r.shell == .held && r.answer.isNone

/-- everything that can happen to one timer from outside, except letting its command run -/
inductive Act where
  | tick                      -- nothing
  | resolveReq (v : Resp)     -- the shell resolves the timer request (fire / wrong / duplicate / late)
  | dropReq                   -- the shell drops the timer request
  | clear                     -- `handle.clear()`
  | dropHandle                -- `drop(handle)`
  | resolveClr (v : Resp)     -- the shell resolves the `Clear` request
  | dropClr                   -- the shell drops the `Clear` request
deriving DecidableEq, Repr

def act (t : Timer) : Act → Timer × Res
  | .tick => (t, .unit)
  | .resolveReq v =>
    let (r, res) := t.req.resolve v
    -- `unbounded_send` wakes the receiver's task (context.rs:59-62)
    ({ t with req := r, woken := t.woken || (res == .ok && t.live) }, res)
  | .dropReq =>
    let (r, res) := t.req.drop
    -- dropping the last sender closes the channel and wakes the receiver's task
    ({ t with req := r, woken := t.woken || (t.req.open && t.live) }, res)
  | .clear =>
    match t.handle with
    -- `Sender::send` stores the id, dropping the sender wakes the receiver's task if it was polled (command.rs:205-207)
    | .alive => ({ t with handle := .cleared, woken := t.woken || t.ctl == .waiting }, .unit)
    | _ => (t, .na)
  | .dropHandle =>
    match t.handle with
    | .alive => ({ t with handle := .dropped, woken := t.woken || t.ctl == .waiting }, .unit)
    | _ => (t, .na)
  | .resolveClr v =>
    let (r, res) := t.clr.resolve v
    ({ t with clr := r, woken := t.woken || (res == .ok && t.live) }, res)
  | .dropClr =>
    let (r, res) := t.clr.drop
    ({ t with clr := r, woken := t.woken || (t.clr.open && t.live) }, res)

/-- observation of one step of one timer -/
structure Out where
  res : Res := .unit
  effects : List Eff := []
  events : List Ev := []
  done : Bool := false
deriving DecidableEq, Repr

/-- One step of one timer: something happens to it (`a`), then — if `ran` — its command is run until settled
    (`Command::effects()/events()/is_done()`, mod.rs:436-454: only a woken task is polled). -/
def step (t : Timer) (a : Act) (ran : Bool) : Timer × Out :=
  if t.ctl = .panicked then (t, { res := .dead }) else
  let (t1, res) := act t a
  if ran && t1.woken then
    let (t2, p) := runTask { t1 with woken := false }
    if p.panicked then (t2, { res := .panic })
    else (t2, { res := res, effects := p.effects, events := p.events, done := t2.terminal })
  else (t1, { res := res, done := t1.terminal })

/-- a run of one timer over any list of (action, ran?) pairs -/
def trace : Timer → List (Act × Bool) → List (Act × Bool × Out)
  | _, [] => []
  | t, (a, ran) :: rest => let (t', o) := step t a ran; (a, ran, o) :: trace t' rest

def final : Timer → List (Act × Bool) → Timer
  | t, [] => t
  | t, (a, ran) :: rest => final (step t a ran).1 rest

/-! ### ids -/

/-- 2^64 -/ scoped notation "USIZE" => (18446744073709551616 : Nat)

/-- `get_timer_id` (lib.rs:26-29): `COUNTER.fetch_add(1)` on an `AtomicUsize` starting at 1; `fetch_add` wraps. -/
def allocId (counter : Nat) : Nat × Nat := (counter % USIZE, (counter + 1) % USIZE)

/-- the ids of `n` timers created one after the other, in creation order -/
def allocIds : Nat → Nat → List Nat
  | _, 0 => []
  | c, n + 1 => (allocId c).1 :: allocIds (allocId c).2 n

/-- The ids handed out for any sequence of timer creations in one process, `true` = through the legacy capability
    (`notify_*_async`, lib.rs:114,143), `false` = through the command API (`command::Time::notify_*`, command.rs:54,127):
    both call `get_timer_id`, so the API does not matter to the counter. -/
def allocSeq : Nat → List Bool → List (Bool × Nat)
  | _, [] => []
  | c, api :: rest => (api, (allocId c).1) :: allocSeq (allocId c).2 rest

/-- The ids handed out when SEVERAL THREADS create timers: `sched` lists, in the order in which the `fetch_add`s on the one
    process-wide `AtomicUsize` take effect (an atomic read-modify-write has a total order), the thread performing each. -/
def allocThreads : Nat → List Nat → List (Nat × Nat)
  | _, [] => []
  | c, th :: rest => (th, (allocId c).1) :: allocThreads (allocId c).2 rest

/-! ### several timers, command API (each timer has its own Command) -/

inductive Host where
  | cmd     -- every Command driven directly; a step addresses one timer
  | core    -- Commands hosted in a Core: every step ends with the core run to quiescence
deriving DecidableEq, Repr

inductive CAct where
  | poll | act (a : Act)
deriving DecidableEq, Repr

/-- What a case step `(c, i)` means for timer `j` (`addressed := i = j`).
    `cmd`: `poll` runs the addressed command, other actions do not run anything, other timers are untouched.
    `core`: the first `poll` returns the command from `update` (launch); once launched a command is run at the end of
    every step (crux_core/src/core/mod.rs:127-143 `process` → `run_all`). -/
def entry (host : Host) (launched addressed : Bool) (c : CAct) : Act × Bool :=
  match host, addressed, c with
  | .cmd, true, .poll => (.tick, true)
  | .cmd, true, .act a => (a, false)
  | .cmd, false, _ => (.tick, false)
  | .core, true, .poll => (.tick, true)
  | .core, true, .act a => (a, launched)
  | .core, false, _ => (.tick, launched)

def Timer.launched (t : Timer) : Bool := t.ctl != .notStarted

/-- what every timer does in one case step -/
def stepAll (host : Host) (c : CAct) (i : Nat) (ts : List Timer) : List (Timer × Out) :=
  ts.mapIdx fun j t => let e := entry host t.launched (j == i) c; step t e.1 e.2

/-- one case step: the new timers and, per timer, what it showed (the harness prints them merged, see Driver/Timer.lean) -/
def wstep (host : Host) (ts : List Timer) (c : CAct) (i : Nat) : List Timer × List Out :=
  let rs := stepAll host c i ts
  (rs.map (·.1), rs.map (·.2))

def wrun (host : Host) : List Timer → List (CAct × Nat) → List (List Out)
  | _, [] => []
  | ts, (c, i) :: rest => let (ts', r) := wstep host ts c i; r :: wrun host ts' rest

def wfinal (host : Host) : List Timer → List (CAct × Nat) → List Timer
  | ts, [] => ts
  | ts, (c, i) :: rest => wfinal host (wstep host ts c i).1 rest

def mkTimers (kinds : List Kind) (ids : List Nat) : List Timer :=
  (kinds.zip ids).map fun (k, id) => { kind := k, id := id }

/-- the steps appended to every case: cmd — poll every timer once more; core — one more no-op event (addressed to nobody) -/
def flush (host : Host) (n : Nat) : List (CAct × Nat) :=
  match host with
  | .cmd => (List.range n).map fun i => (.poll, i)
  | .core => [(.poll, n)]

/-! ### legacy capability API hosted in a Core (lib.rs:93-225) -/

/-- which response the shell sends (the id is only known once the timer was started) -/
inductive Shape where
  | good | foreignId | otherKind
deriving DecidableEq, Repr

/-- an id no timer of the case has -/
scoped notation "FOREIGN" => (1000003 : Nat)

def respOf (k : Kind) (id : Nat) : Shape → Resp
  | .good => match k with | .after => .elapsed id | .at => .arrived id
  | .foreignId => match k with | .after => .elapsed (id + FOREIGN) | .at => .arrived (id + FOREIGN)
  | .otherKind => match k with | .after => .arrived id | .at => .elapsed id

inductive LAct where
  | start | startClear | clear | resolveReq (s : Shape) | dropReq | resolveClr | tick
deriving DecidableEq, Repr

structure LTimer where
  kind : Kind
  id : Option Nat := none      -- `none`: not started
  finished : Bool := false     -- the task completed (callback event sent)
  req : Req := {}
  clears : Nat := 0            -- `Clear` notifications handed to the shell
deriving DecidableEq, Repr

structure LWorld where
  counter : Nat
  cleared : List Nat           -- the ids flagged cleared in LIVE_TIMERS (lib.rs; before the C13 fix: CLEARED_TIMER_IDS)
  timers : List LTimer
deriving DecidableEq, Repr

/-- what a step does to CLEARED_TIMER_IDS, always for the addressed timer's own id -/
inductive SetOp where
  | keep | insert | erase
deriving DecidableEq, Repr

def applyOp (op : SetOp) (id : Nat) (s : List Nat) : List Nat :=
  match op with
  | .keep => s
  | .insert => if s.contains id then s else id :: s    -- HashSet::insert (lib.rs:154-155)
  | .erase => s.erase id                               -- HashSet::remove (lib.rs:190-193)

/-- One step of one legacy timer. `inSet`: is its id (for a start: the id it is about to get) in CLEARED_TIMER_IDS;
    `newId`: the id the counter would hand out. Result: timer, observation, what happens to the set, whether an id was
    allocated.
    `TimerFuture::poll` (lib.rs:181-204) consults the set (and removes the id) before the inner request future, so a
    cleared timer reports `Cleared{id}` whatever the shell answered — but only when its task is polled, i.e. when it
    is spawned or when the shell resolves its request (`clear` wakes nobody). -/
def lstep1 (t : LTimer) (inSet : Bool) (newId : Nat) : LAct → LTimer × Out × SetOp × Bool
  | .start =>
    -- `notify_after/notify_at` (lib.rs:93-149): allocate, spawn; the task is polled by the core's `run_all`
    match t.id with
    | some _ => (t, { res := .na }, .keep, false)
    | none =>
      if inSet then ({ t with id := some newId, finished := true }, { events := [.got (.cleared newId)] }, .erase, true)
      else ({ t with id := some newId, req := { shell := .held } }, { effects := [.notify t.kind newId] }, .keep, true)
  | .startClear =>
    -- the same `update` also calls `clear(id)`: the id is inserted before any task runs; tasks then run in spawn
    -- order: the timer's (finds its id: Cleared, nothing sent), then the Clear notification (lib.rs:151-163)
    match t.id with
    | some _ => (t, { res := .na }, .keep, false)
    | none => ({ t with id := some newId, finished := true, clears := 1 },
               { effects := [.clear newId], events := [.got (.cleared newId)] }, .erase, true)
  | .clear =>
    match t.id with
    | none => (t, { res := .na }, .keep, false)
    -- lib.rs `clear`: a Clear notification is sent unconditionally; the id is remembered as cleared only while the timer's
    -- future exists (LIVE_TIMERS has an entry from `TimerFuture::new` until the future is dropped, i.e. until the task
    -- that awaits it completes) — a finished timer could never observe the flag and would keep it for ever
    | some id => ({ t with clears := t.clears + 1 }, { effects := [.clear id] }, if t.finished then .keep else .insert, false)
  | .resolveReq s =>
    match t.id with
    | none => (t, { res := .na }, .keep, false)
    | some id =>
      let (r, res) := t.req.resolve (respOf t.kind id s)
      if res == .ok && !t.finished then
        -- the task is woken and run by `Core::resolve`
        if inSet then ({ t with req := r, finished := true }, { res := res, events := [.got (.cleared id)] }, .erase, false)
        else ({ t with req := r, finished := true }, { res := res, events := [.got (respOf t.kind id s)] }, .keep, false)
      else ({ t with req := r }, { res := res }, .keep, false)
  | .dropReq =>
    -- shell_request.rs:91-112: the callback holds a weak pointer, dropping it wakes nobody
    let (r, res) := t.req.drop
    ({ t with req := r }, { res := res }, .keep, false)
  | .resolveClr =>
    -- a notification: `Resolve::Never` (resolve.rs:92)
    (t, { res := if t.clears = 0 then .na else .err }, .keep, false)
  | .tick => (t, {}, .keep, false)

def lstepTimer (counter : Nat) (cleared : List Nat) (t : LTimer) (a : LAct) : Nat × List Nat × LTimer × Out :=
  let newId := (allocId counter).1
  let id := t.id.getD newId
  let r := lstep1 t (cleared.contains id) newId a
  (if r.2.2.2 then (allocId counter).2 else counter, applyOp r.2.2.1 id cleared, r.1, r.2.1)

/-- one case step; only the addressed timer does (and shows) anything -/
def lstep (w : LWorld) (a : LAct) (i : Nat) : LWorld × Out :=
  match w.timers[i]? with
  | none => (w, {})
  | some t =>
    let (c, cl, t', o) := lstepTimer w.counter w.cleared t a
    ({ counter := c, cleared := cl, timers := w.timers.set i t' }, o)

def lrun : LWorld → List (LAct × Nat) → List Out
  | _, [] => []
  | w, (a, i) :: rest => let (w', r) := lstep w a i; r :: lrun w' rest

def lfinal : LWorld → List (LAct × Nat) → LWorld
  | w, [] => w
  | w, (a, i) :: rest => lfinal (lstep w a i).1 rest

def mkLWorld (counter : Nat) (kinds : List Kind) : LWorld :=
  { counter := counter, cleared := [], timers := kinds.map fun k => { kind := k } }

/-! ### both APIs in one app, one process (host `mixed`)

`command::Time::notify_after/notify_at` (command.rs:54,127) and the legacy `Time::notify_*_async` (lib.rs:114,143) both
call `get_timer_id()` (lib.rs:26-29): ONE counter.  Position `j` of a mixed case is either a command-API timer (created by
its start action, its Command returned from `update` and hosted by the Core from then on) or a legacy timer. -/

inductive MAct where
  | start | startClear | fire (s : Shape) | dropReq | clear | dropHandle | answerClr (s : Shape) | dropClr | tick
deriving DecidableEq, Repr

/-- the answer to a Clear request an action letter stands for -/
def clrRespOf (k : Kind) (id : Nat) : Shape → Resp
  | .good => .cleared id
  | .foreignId => .cleared (id + FOREIGN)
  | .otherKind => respOf k id .good

/-- what an action means to an existing command-API timer (start on an existing timer: a no-op event) -/
def toAct (t : Timer) : MAct → Act
  | .start | .startClear | .tick => .tick
  | .fire s => .resolveReq (respOf t.kind t.id s)
  | .dropReq => .dropReq
  | .clear => .clear
  | .dropHandle => .dropHandle
  | .answerClr s => .resolveClr (clrRespOf t.kind t.id s)
  | .dropClr => .dropClr

/-- … and to a legacy timer (the harness never addresses dropHandle / dropClr to one) -/
def toLAct : MAct → LAct
  | .start => .start
  | .startClear => .startClear
  | .fire s => .resolveReq s
  | .dropReq => .dropReq
  | .clear => .clear
  | .answerClr _ => .resolveClr
  | _ => .tick

/-- a command-API position: the constructor it will use and, once its start action ran, its timer -/
structure CSlot where
  kind : Kind
  timer : Option Timer := none
deriving DecidableEq, Repr

structure MWorld where
  /-- the shared counter, CLEARED_TIMER_IDS and the legacy timers (at command positions: a legacy timer nobody ever addresses) -/
  lw : LWorld
  /-- `none` at legacy positions -/
  cmds : List (Option CSlot)
deriving DecidableEq, Repr

/-- every step ends with the Core run to quiescence: every existing command is run; `a` is what happens to command `i` before -/
def cmdStepAll (cmds : List (Option CSlot)) (i : Nat) (a : Act) (idle : Res := .na) : List (Option CSlot × Out) :=
  cmds.mapIdx fun j s =>
    match s with
    | some slot =>
      match slot.timer with
      | some t => let r := step t (if j == i then a else .tick) true; (some { slot with timer := some r.1 }, r.2)
      -- a command that does not exist yet: nothing to act on (`idle`: what the caller sees)
      | none => (s, if j == i then { res := idle } else {})
    | none => (none, {})

def mstep (w : MWorld) (a : MAct) (i : Nat) : MWorld × List Out :=
  match w.cmds[i]? with
  | some (some slot) =>
    match slot.timer with
    | none =>
      if a = .start ∨ a = .startClear then
        -- `Time::notify_after/at` in `update`: the id comes from the shared counter; `startClear`: `handle.clear()`
        -- before the command is returned; then the Core polls the new command
        let t : Timer := { kind := slot.kind, id := (allocId w.lw.counter).1 }
        let rs := cmdStepAll (w.cmds.set i (some { slot with timer := some t })) i (if a = .startClear then .clear else .tick)
        ({ lw := { w.lw with counter := (allocId w.lw.counter).2 }, cmds := rs.map (·.1) }, rs.map (·.2))
      else
        let rs := cmdStepAll w.cmds i .tick (if a = .tick then .unit else .na)
        ({ w with cmds := rs.map (·.1) }, rs.map (·.2))
    | some t =>
      let rs := cmdStepAll w.cmds i (toAct t a)
      ({ w with cmds := rs.map (·.1) }, rs.map (·.2))
  | some none =>
    let r := lstep w.lw (toLAct a) i
    let rs := cmdStepAll w.cmds i .tick
    ({ lw := r.1, cmds := rs.map (·.1) }, (rs.map (·.2)).set i r.2)
  | none =>
    let rs := cmdStepAll w.cmds i .tick
    ({ w with cmds := rs.map (·.1) }, rs.map (·.2))

def mrun : MWorld → List (MAct × Nat) → List (List Out)
  | _, [] => []
  | w, (a, i) :: rest => let r := mstep w a i; r.2 :: mrun r.1 rest

def mfinal : MWorld → List (MAct × Nat) → MWorld
  | w, [] => w
  | w, (a, i) :: rest => mfinal (mstep w a i).1 rest

/-- `kinds`: per position, (is it a legacy timer?, constructor) -/
def mkMWorld (counter : Nat) (kinds : List (Bool × Kind)) : MWorld :=
  { lw := mkLWorld counter (kinds.map (·.2))
    cmds := kinds.map fun lk => if lk.1 then none else some { kind := lk.2 } }

/-- the id of the timer at position `j`, whichever API made it -/
def MWorld.idAt (w : MWorld) (j : Nat) : Option Nat :=
  match w.cmds[j]? with
  | some (some slot) => slot.timer.map (·.id)
  | some none => (w.lw.timers[j]?).bind (·.id)
  | none => none

end M.Timer
