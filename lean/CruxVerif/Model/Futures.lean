import CruxVerif.Model.Hosts
/-!
C13, first clause ("once a task has finished or been cancelled, its future and everything it captured are dropped"):
the number of task futures that are alive in a world, and the direct host's run annotated with it after every step.

Every task future gets a `Meta` when it is created (`newCmd`, `spawnOn`, the `spawn` / `handoff` instructions) and
`dropTask` — the ONLY place where the model drops a task future: a finished or cancelled task (`finishTask`), the tasks of an
aborted command, the tasks and the spawn queue of a dropped command — clears its `taskAlive`. The harness counts the same
thing on the real code with a drop guard captured by every task future of a `(task I*)` command (harness/src/dsl.rs
`TaskGuard`).
-/
namespace M.Hosts
open M.Rt

/-- task futures alive anywhere in the world (stored, queued to be spawned, or — the point of observing it — leaked) -/
def liveFutures (w : World) : Nat := (w.metas.filter (·.taskAlive)).length

/-- `runSteps` for the direct host, with the number of live task futures after every step -/
def runStepsG : Direct → List Action → Option (List (Obs × Nat) × Direct)
  | d, [] => some ([], d)
  | d, a :: rest =>
    match d.step a with
    | none => none
    | some (o, d) =>
      match runStepsG d rest with
      | none => none
      | some (os, d') => some ((o, liveFutures d.w) :: os, d')

def runDirectG (c : Cmd) (canon : Bool) (acts : List Action) : Option (List (Obs × Nat) × Direct) :=
  match (Direct.new c canon).observe "-" with
  | none => none
  | some (o, d) =>
    match runStepsG d acts with
    | none => none
    | some (os, d') => some ((o, liveFutures d.w) :: os, d')

end M.Hosts
