/-
M.Schema — serde-reflection 0.4.0 `Format` / `ContainerFormat` / `VariantFormat` / `Registry`
(serde-reflection-0.4.0/src/format.rs:31-122, trace.rs:16) as Lean inductives, and the universal `Value`
the schema-driven codec (M.Bincode) reads and writes.

Differences from the Rust definitions, all representational:
  * the ten integer formats and the two float formats are one constructor `num t` (`NumTy`); a float is its
    IEEE bit pattern (bincode writes `to_bits`, reads `from_bits`);
  * `Format::Variable` / `VariantFormat::Variable` do not exist: `Tracer::registry()` (which
    `TypeGen::ensure_registry` calls, crux_core/src/typegen.rs:558-577) fails unless every variable is resolved;
  * `BTreeMap`s are association lists in key order (first match wins).
-/
namespace M.Schema

abbrev Bytes := List UInt8

/-- `I8 … U128`, `F32`, `F64` of `serde_reflection::Format`. -/
inductive NumTy where
  | i8 | i16 | i32 | i64 | i128 | u8 | u16 | u32 | u64 | u128 | f32 | f64
deriving DecidableEq, Repr

/-- width in bytes on the wire (bincode fixint) -/
@[reducible] def NumTy.bytes : NumTy → Nat
  | .i8 | .u8 => 1
  | .i16 | .u16 => 2
  | .i32 | .u32 | .f32 => 4
  | .i64 | .u64 | .f64 => 8
  | .i128 | .u128 => 16

/-- `256 ^ bytes` as a literal (`NumTy.modulus_eq` in Lemmas/BincodePrim.lean) -/
@[reducible] def NumTy.modulus : NumTy → Nat
  | .i8 | .u8 => 256
  | .i16 | .u16 => 65536
  | .i32 | .u32 | .f32 => 4294967296
  | .i64 | .u64 | .f64 => 18446744073709551616
  | .i128 | .u128 => 340282366920938463463374607431768211456

@[reducible] def NumTy.signed : NumTy → Bool
  | .i8 | .i16 | .i32 | .i64 | .i128 => true
  | _ => false

inductive Format where
  | typeName (name : String)
  | unit | bool | num (t : NumTy) | char | str | bytes
  | option (f : Format)
  | seq (f : Format)
  | map (key value : Format)
  | tuple (fs : List Format)
  | tupleArray (content : Format) (size : Nat)
deriving Repr

structure Named (α : Type) where
  name : String
  value : α
deriving Repr

inductive VariantFormat where
  | unit
  | newType (f : Format)
  | tuple (fs : List Format)
  | struct (fs : List (Named Format))
deriving Repr

inductive ContainerFormat where
  | unitStruct
  | newTypeStruct (f : Format)
  | tupleStruct (fs : List Format)
  | struct (fs : List (Named Format))
  | enum (variants : List (Nat × Named VariantFormat))
deriving Repr

abbrev Registry := List (String × ContainerFormat)

/-- The fields a variant carries, in wire order. -/
def VariantFormat.fields : VariantFormat → List Format
  | .unit => []
  | .newType f => [f]
  | .tuple fs => fs
  | .struct fs => fs.map (·.value)

/-- The fields of a non-enum container, in wire order. -/
def structFields : ContainerFormat → Option (List Format)
  | .unitStruct => some []
  | .newTypeStruct f => some [f]
  | .tupleStruct fs => some fs
  | .struct fs => some (fs.map (·.value))
  | .enum _ => none

/-- A universal value. Whatever bincode writes for a Rust value is determined by this tree alone:
  * `tuple` — a fixed-arity product written without a length: `()`, tuples, arrays, every struct kind
    (unit struct = `tuple []`, newtype struct = `tuple [v]`), and the payload of every enum variant;
  * `seq` — a length-prefixed sequence (`Vec`, maps as sequences of 2-tuples);
  * `num t n` — an integer of width/signedness `t` (floats: the bit pattern). -/
inductive Value where
  | bool (b : Bool)
  | num (t : NumTy) (n : Int)
  | char (c : Nat)
  | str (utf8 : Bytes)
  | bytes (bs : Bytes)
  | none
  | some (v : Value)
  | seq (vs : List Value)
  | tuple (vs : List Value)
  | variant (index : Nat) (payload : Value)
deriving Repr

/-! structural equality test on values (`Lemmas.Bincode.beq_iff` : `beq a b = true ↔ a = b`) -/
mutual
def Value.beq : Value → Value → Bool
  | .bool a, .bool b => a == b
  | .num t a, .num u b => decide (t = u) && decide (a = b)
  | .char a, .char b => decide (a = b)
  | .str a, .str b => decide (a = b)
  | .bytes a, .bytes b => decide (a = b)
  | .none, .none => true
  | .some a, .some b => Value.beq a b
  | .seq as, .seq bs => Value.beqAll as bs
  | .tuple as, .tuple bs => Value.beqAll as bs
  | .variant i a, .variant j b => decide (i = j) && Value.beq a b
  | _, _ => false
def Value.beqAll : List Value → List Value → Bool
  | [], [] => true
  | a :: as, b :: bs => Value.beq a b && Value.beqAll as bs
  | _, _ => false
end

def lookup {α : Type} (k : String) : List (String × α) → Option α
  | [] => Option.none
  | (k', a) :: rest => if k' = k then Option.some a else lookup k rest

def lookupVariant (i : Nat) : List (Nat × Named VariantFormat) → Option (Named VariantFormat)
  | [] => Option.none
  | (j, v) :: rest => if j = i then Option.some v else lookupVariant i rest

end M.Schema
