/-
M.Http — model of the request-building and response-handling paths of crux_http (C14, C15):

  crux_http/src/command.rs, request_builder.rs (builders of both APIs: identical call-by-call delegation to
  `crux_http::Request`), request.rs (delegation to `http_types::Request`), protocol.rs:194-218
  (`into_protocol_request`), protocol.rs:221-231 (`From<HttpResponse> for ResponseAsync`),
  response/response.rs:25-47 (`Response::new` classification), expect.rs, response/decode.rs:83-112
  (`decode_body`, feature `encoding`), error.rs:27-35 (`From<http_types::Error>`),
  and of the parts of http-types 2.12.0 (red-badger fork) they go through:
  headers/headers.rs (`insert` replaces, `append` extends; names lower-cased, ASCII only),
  request.rs / response.rs (`set_body` → `copy_content_type_from_body`: the body's MIME becomes the content type
  only when no `content-type` entry exists), body.rs (MIME per constructor), status_code.rs:620-687 (59 codes).

Byte strings are `List Nat`.  Opaque third-party functions (URL parsing / `set_query` + serde_qs, `Mime` parsing and
printing, serde_json, encoding_rs for everything except plain UTF-8) are *parameters*: their values at the case at hand
are part of the case (computed by the generator from those crates directly).
-/
namespace M.Http

abbrev Bytes := List Nat

/-! ### ASCII helpers (`str::is_ascii`, `to_ascii_lowercase`, `to_ascii_uppercase`) -/

def isAscii (b : Bytes) : Bool := b.all (· < 128)

def lowerByte (c : Nat) : Nat := if 65 ≤ c && c ≤ 90 then c + 32 else c
def upperByte (c : Nat) : Nat := if 97 ≤ c && c ≤ 122 then c - 32 else c
def lower (b : Bytes) : Bytes := b.map lowerByte
def upper (b : Bytes) : Bytes := b.map upperByte

/-- `"…"` as bytes, for readable statements (`example`s below pin the numeric constants to their text) -/
def ascii (s : String) : Bytes := s.toList.map Char.toNat

/-- `content-type` (headers/constants.rs `CONTENT_TYPE`) -/
def ctName : Bytes := [99, 111, 110, 116, 101, 110, 116, 45, 116, 121, 112, 101]
/-- mime::BYTE_STREAM -/
def octetStream : Bytes :=
  [97, 112, 112, 108, 105, 99, 97, 116, 105, 111, 110, 47, 111, 99, 116, 101, 116, 45, 115, 116, 114, 101, 97, 109]
/-- mime::PLAIN (`is_utf8 = true` prints `;charset=utf-8`) -/
def textPlainUtf8 : Bytes :=
  [116, 101, 120, 116, 47, 112, 108, 97, 105, 110, 59, 99, 104, 97, 114, 115, 101, 116, 61, 117, 116, 102, 45, 56]
/-- mime::JSON -/
def applicationJson : Bytes := [97, 112, 112, 108, 105, 99, 97, 116, 105, 111, 110, 47, 106, 115, 111, 110]
/-- mime::FORM -/
def formUrlencoded : Bytes :=
  [97, 112, 112, 108, 105, 99, 97, 116, 105, 111, 110, 47, 120, 45, 119, 119, 119, 45, 102, 111, 114, 109, 45, 117,
   114, 108, 101, 110, 99, 111, 100, 101, 100]
/-- `"could not decode body as "` (decode.rs:31-35 `Display for DecodeError`) -/
def couldNotDecode : Bytes :=
  [99, 111, 117, 108, 100, 32, 110, 111, 116, 32, 100, 101, 99, 111, 100, 101, 32, 98, 111, 100, 121, 32, 97, 115, 32]
/-- `"UTF-8"` (`encoding_rs::UTF_8.name()`) -/
def utf8Name : Bytes := [85, 84, 70, 45, 56]
/-- `"utf-8"` (decode.rs:87 default label) -/
def utf8Label : Bytes := [117, 116, 102, 45, 56]

example : ctName = ascii "content-type" := by decide
example : octetStream = ascii "application/octet-stream" := by decide
example : textPlainUtf8 = ascii "text/plain;charset=utf-8" := by decide
example : applicationJson = ascii "application/json" := by decide
example : formUrlencoded = ascii "application/x-www-form-urlencoded" := by decide
example : couldNotDecode = ascii "could not decode body as " := by decide
example : utf8Name = ascii "UTF-8" := by decide
example : utf8Label = ascii "utf-8" := by decide

/-! ### http-types `Headers`: `HashMap<HeaderName, HeaderValues>` (headers/headers.rs)

An association list; the order of entries is not observable (hash-map iteration order; the harness sorts), the order
of the values of one name is.  An entry may have an empty value list (`insert(name, &[][..])`): it still *exists*
(`get(name).is_none()` is false). -/

abbrev Headers := List (Bytes × List Bytes)

namespace Headers

/-- `get(name).is_some()` -/
def contains (h : Headers) (k : Bytes) : Bool := h.any (fun e => e.1 == k)

/-- all values stored under `k`, in order -/
def values (h : Headers) (k : Bytes) : List Bytes := (h.filter (fun e => e.1 == k)).flatMap (·.2)

/-- headers.rs:38-46 `insert`: replaces whatever was stored under the name -/
def insert (h : Headers) (k : Bytes) (vs : List Bytes) : Headers :=
  h.filter (fun e => e.1 != k) ++ [(k, vs)]

/-- headers.rs:52-63 `append`: extends the value list of an existing entry, inserts otherwise -/
def append (h : Headers) (k : Bytes) (vs : List Bytes) : Headers :=
  if h.contains k then h.insert k (h.values k ++ vs) else h.insert k vs

/-- `iter().flat_map(|(name, values)| values.iter().map(|v| (name, v)))` (protocol.rs:207-215, response.rs `iter`) -/
def flat (h : Headers) : List (Bytes × Bytes) := h.flatMap (fun e => e.2.map (fun v => (e.1, v)))

end Headers

/-! ### C14: building a request -/

/-- body constructors of http-types body.rs -/
inductive BodyKind where
  | string | json | form | bytes
deriving DecidableEq, Repr

/-- body.rs: `from_string` → mime::PLAIN, `from_json` → JSON, `from_form` → FORM, `from_bytes` → BYTE_STREAM -/
def BodyKind.mime : BodyKind → Bytes
  | .string => textPlainUtf8
  | .json => applicationJson
  | .form => formUrlencoded
  | .bytes => octetStream

/-- form_urlencoded 1.2.1 `byte_serialize`: `*-._` and ASCII alphanumerics unchanged, space ↦ `+`, else `%XX` -/
def hexUpper (n : Nat) : Nat := if n < 10 then 48 + n else 55 + n

def formUnchanged (b : Nat) : Bool :=
  b == 42 || b == 45 || b == 46 || b == 95 || (48 ≤ b && b ≤ 57) || (65 ≤ b && b ≤ 90) || (97 ≤ b && b ≤ 122)

def formByte (b : Nat) : Bytes :=
  if formUnchanged b then [b] else if b == 32 then [43] else [37, hexUpper (b / 16 % 16), hexUpper (b % 16)]

def formString (s : Bytes) : Bytes := s.flatMap formByte

/-- serde_urlencoded 0.7.1 over a map of strings: `k=v` joined by `&` -/
def formEncode : List (Bytes × Bytes) → Bytes
  | [] => []
  | [(k, v)] => formString k ++ [61] ++ formString v
  | (k, v) :: rest => formString k ++ [61] ++ formString v ++ [38] ++ formEncode rest

/-- One builder call (`RequestBuilder` of command.rs / request_builder.rs — the two are call-for-call identical). -/
inductive Call where
  /-- `header(name, values)` → `insert_header` -/
  | header (name : Bytes) (values : List Bytes)
  /-- `content_type(mime)`; the argument is what `Mime::to_string()` prints (opaque) -/
  | contentType (display : Bytes)
  /-- `body_string(s)` / `body_bytes(b)` / `body_json(v)` / `body(impl Into<Body>)`: kind of the `Body` constructor and
      the bytes it holds (UTF-8 of the string; the bytes; `serde_json::to_vec(v)`, opaque) -/
  | body (kind : BodyKind) (bytes : Bytes)
  /-- `body_form(&pairs)` -/
  | bodyForm (pairs : List (Bytes × Bytes))
  /-- `body(Body::from_reader(reader, declared))`: MIME `application/octet-stream`; the reader yields `chunks` one after
      the other (any chunking: a chain of cursors, a reader that returns one byte per read, …); `declared` is the length
      the app states (`None` = not known in advance) -/
  | bodyReader (chunks : List Bytes) (declared : Option Nat)
  /-- `query(&q)`: the URL after `set_query` (serde_qs + `Url::set_query`, opaque) -/
  | query (urlAfter : Bytes)
deriving DecidableEq, Repr

/-- what is observable of `http_types::Request` -/
structure Req where
  method : Bytes
  url : Bytes
  headers : Headers
  /-- the bytes that reading the body to its end yields -/
  body : Bytes
  /-- `Body::len()`: the length the constructor recorded (`from_reader`: the declared one) -/
  len : Option Nat
deriving DecidableEq, Repr

/-- http-types request.rs:223-227,474-478 `replace_body` + `copy_content_type_from_body` -/
def copyContentType (h : Headers) (mime : Bytes) : Headers :=
  if h.contains ctName then h else h.insert ctName [mime]

def setBody (r : Req) (k : BodyKind) (b : Bytes) (len : Option Nat) : Req :=
  { r with body := b, len := len, headers := copyContentType r.headers k.mime }

/-- What reading a `Body::from_reader(reader, declared)` to its end yields (http-types body.rs `poll_read`): the reader's
    data — the concatenation of whatever pieces it hands out — cut at the declared length if one is given (a read never
    goes past `length - bytes_read`; a declared length larger than the data ends at the reader's end). -/
def readerContent (chunks : List Bytes) (declared : Option Nat) : Bytes :=
  match declared with
  | none => chunks.flatten
  | some n => chunks.flatten.take n

/-- `none` = panic: `HeaderName::from(&str)` / `to_header_values().unwrap()` reject non-ASCII
    (header_name.rs:71-75, header_value.rs:61-67, headers.rs:44) -/
def applyCall (r : Req) : Call → Option Req
  | .header n vs =>
      if isAscii n && vs.all isAscii then some { r with headers := r.headers.insert (lower n) vs } else none
  | .contentType d => some { r with headers := r.headers.insert ctName [d] }
  | .body k b => some (setBody r k b (some b.length))
  | .bodyForm ps => some (setBody r .form (formEncode ps) (some (formEncode ps).length))
  | .bodyReader chunks d => some (setBody r .bytes (readerContent chunks d) d)
  | .query u => some { r with url := u }

def foldCalls (r : Req) : List Call → Option Req
  | [] => some r
  | c :: cs => match applyCall r c with
    | none => none
    | some r' => foldCalls r' cs

/-- protocol.rs:196-204 (after fix fb3ba05): `if self.is_empty() != Some(true)` — i.e. unless the recorded length is
    `Some(0)` — the body is taken out with `take_body()` (which runs `copy_content_type_from_body` for the empty
    replacement body, MIME `application/octet-stream`) and read **to its end** (`into_bytes` = `read_to_end`: as many reads
    as the reader needs, however it chunks its data); a body of recorded length 0 is sent as `vec![]`. -/
def intoProtocol (r : Req) : Req :=
  if r.len == some 0 then { r with body := [] } else { r with headers := copyContentType r.headers octetStream }

/-- `String::cmp` on header names: byte-wise lexicographic `≤` -/
def bytesLe : Bytes → Bytes → Bool
  | [], _ => true
  | _ :: _, [] => false
  | a :: as, b :: bs => a < b || (a == b && bytesLe as bs)

/-- stable insertion by name: before the first pair whose name is not smaller -/
def insertByName (p : Bytes × Bytes) : List (Bytes × Bytes) → List (Bytes × Bytes)
  | [] => [p]
  | q :: t => if bytesLe p.1 q.1 then p :: q :: t else q :: insertByName p t

/-- `headers.sort_by(|a, b| a.name.cmp(&b.name))` (stable): protocol.rs:206-218 after fix cda2127 -/
def sortByName (l : List (Bytes × Bytes)) : List (Bytes × Bytes) := l.foldr insertByName []

/-- the header list of the protocol request, for the header map iterated in the order of `h`:
    flattened, then sorted by name — the values of one name keep their order -/
def emitHeaders (h : Headers) : List (Bytes × Bytes) := sortByName h.flat

/-- the pinned tree (before cda2127) emitted the pairs in the iteration order of the hash map -/
def emitHeadersUnsorted (h : Headers) : List (Bytes × Bytes) := h.flat

structure ReqCase where
  /-- `get` … `patch` (convenience constructors) or an upper-case method name (`request(method, url)`) -/
  method : Bytes
  /-- `Url::parse(text).to_string()` (opaque) -/
  url : Bytes
  calls : List Call
deriving DecidableEq, Repr

inductive PanicClass where
  | status | header | other
deriving DecidableEq, Repr

inductive ReqObs where
  /-- number of effects, then the fields of the `HttpRequest` operation (headers in the order emitted) -/
  | req (effects : Nat) (method url : Bytes) (headers : List (Bytes × Bytes)) (body : Bytes)
  | panic (c : PanicClass)
deriving DecidableEq, Repr

/-- `Http::get(url)…build()` / `caps.http.get(url)…send(..)`: `Request::new`, the calls, `into_protocol_request`,
    one `request_from_shell` (command.rs:585-596, client.rs:112-124). -/
def buildRequest (c : ReqCase) : ReqObs :=
  match foldCalls { method := upper c.method, url := c.url, headers := [], body := [], len := some 0 } c.calls with
  | none => .panic .header
  | some r =>
    let p := intoProtocol r
    .req 1 p.method p.url (emitHeaders p.headers) p.body

/-! ### C15: handling a result -/

structure HttpResponse where
  status : Nat
  headers : List (Bytes × Bytes)
  body : Bytes
deriving DecidableEq, Repr

/-- error.rs `HttpError` -/
inductive HttpError where
  | http (code : Nat) (message : Bytes) (body : Option Bytes)
  | json (m : Bytes) | url (m : Bytes) | io (m : Bytes) | timeout
deriving DecidableEq, Repr

inductive HttpResult where
  | ok (r : HttpResponse) | err (e : HttpError)
deriving DecidableEq, Repr

inductive Expect where
  | bytes | string | json
deriving DecidableEq, Repr

/-- `Encoding::for_label` (opaque) -/
inductive EncClass where
  | utf8 | unknown | other
deriving DecidableEq, Repr

/-- result of an opaque decoder -/
inductive Dec where
  | na | ok (b : Bytes) | fail (m : Bytes)
deriving DecidableEq, Repr

/-- values of the opaque functions at this case -/
structure Facts where
  /-- `Mime::from_str(last content-type value).ok()?.param("charset")` -/
  charset : Option Bytes
  /-- `Encoding::for_label(charset.unwrap_or("utf-8"))` -/
  enc : EncClass
  /-- `encoding.decode(body)` when the decoder is not plain UTF-8: decoded text / name of the encoding that failed -/
  sd : Dec
  /-- `serde_json::from_slice::<T>(body)`: the value (re-serialised) / the error message -/
  jd : Dec
deriving DecidableEq, Repr

inductive Outcome where
  | success (status : Nat) (headers : List (Bytes × Bytes)) (body : Bytes)
  | error (e : HttpError)
  | panic (c : PanicClass)
deriving DecidableEq, Repr

/-- http-types status_code.rs:620-687 `TryFrom<u16> for StatusCode` -/
def validStatus : List Nat :=
  [100, 101, 103, 200, 201, 202, 203, 204, 205, 206, 207, 226, 300, 301, 302, 303, 304, 307, 308,
   400, 401, 402, 403, 404, 405, 406, 407, 408, 409, 410, 411, 412, 413, 414, 415, 416, 417, 418,
   421, 422, 423, 424, 425, 426, 428, 429, 431, 451,
   500, 501, 502, 503, 504, 505, 506, 507, 508, 510, 511]

def isValidStatus (s : Nat) : Bool := validStatus.contains s

/-- protocol.rs:225-227: `append_header(name.as_str(), value)` per shell header; `none` = panic on non-ASCII -/
def appendAll (h : Headers) : List (Bytes × Bytes) → Option Headers
  | [] => some h
  | (n, v) :: rest => if isAscii n && isAscii v then appendAll (h.append (lower n) [v]) rest else none

/-- protocol.rs:221-231 `From<HttpResponse> for ResponseAsync`:
    `Response::new(status)` (panics outside the table), `set_body(bytes)` (first: `content-type:
    application/octet-stream`, because no header exists yet), then the shell's headers are appended. -/
def toHttpTypes (r : HttpResponse) : Except PanicClass Headers :=
  if !isValidStatus r.status then .error .status
  else match appendAll (Headers.insert [] ctName [octetStream]) r.headers with
    | none => .error .header
    | some h => .ok h

/-- `StatusCode`'s `Display` prints the number (status_code.rs:701-705) -/
def decimal (n : Nat) : Bytes := (Nat.toDigits 10 n).map Char.toNat

/-- Well-formed UTF-8 (Unicode 15 table 3-7), as accepted by `String::from_utf8` and by encoding_rs' UTF-8 decoder
    without replacement: state = (continuation bytes still due, admissible range of the next byte). -/
def utf8Go : Nat → Nat → Nat → Bytes → Bool
  | 0, _, _, [] => true
  | _ + 1, _, _, [] => false
  | 0, _, _, b :: r =>
    if b < 128 then utf8Go 0 0 0 r
    else if 194 ≤ b && b ≤ 223 then utf8Go 1 128 191 r
    else if b == 224 then utf8Go 2 160 191 r
    else if (225 ≤ b && b ≤ 236) || b == 238 || b == 239 then utf8Go 2 128 191 r
    else if b == 237 then utf8Go 2 128 159 r
    else if b == 240 then utf8Go 3 144 191 r
    else if 241 ≤ b && b ≤ 243 then utf8Go 3 128 191 r
    else if b == 244 then utf8Go 3 128 143 r
    else false
  | n + 1, lo, hi, b :: r => if lo ≤ b && b ≤ hi then utf8Go n 128 191 r else false

def validUtf8 (b : Bytes) : Bool := utf8Go 0 0 0 b

/-- encoding_rs `Encoding::decode` sniffs a byte order mark first; FF FE / FE FF switch to UTF-16 (opaque here) -/
def bom16 : Bytes → Bool
  | 255 :: 254 :: _ => true
  | 254 :: 255 :: _ => true
  | _ => false

/-- error.rs:27-35 over the `io::Error` of decode.rs (status 500 by http-types' blanket `From`) -/
def decodeError (name : Bytes) : HttpError := .http 500 (couldNotDecode ++ name) none

def opaqueDecode (f : Facts) : Except HttpError Bytes :=
  match f.sd with
  | .ok s => .ok s
  | .fail name => .error (decodeError name)
  | .na => .error (decodeError [])

/-- UTF-8 byte order mark EF BB BF: `Encoding::decode` switches to UTF-8 whatever the label says -/
def bom8 : Bytes → Bool
  | 239 :: 187 :: 191 :: _ => true
  | _ => false

/-- which decoder `encoding.decode(bytes)` ends up running (label, then BOM sniffing) -/
inductive Decoder where
  | unsupported | utf8 | opaque
deriving DecidableEq, Repr

def decoderFor (f : Facts) (body : Bytes) : Decoder :=
  match f.enc with
  | .unknown => .unsupported
  | .utf8 => if bom16 body then .opaque else .utf8
  | .other => if bom8 body then .utf8 else .opaque

/-- response.rs `body_string` + decode.rs:83-112 `decode_body` (feature `encoding`, not wasm; line 101 is the `Cow::Borrowed` shortcut).
    UTF-8: valid input decodes to `Cow::Borrowed`, and the code then returns the *original* bytes
    (`String::from_utf8_unchecked(bytes)`), i.e. including a UTF-8 byte order mark; invalid input sets `failed`. -/
def decodeString (f : Facts) (body : Bytes) : Except HttpError Bytes :=
  match decoderFor f body with
  | .unsupported => .error (decodeError (f.charset.getD utf8Label))
  | .opaque => opaqueDecode f
  | .utf8 => if validUtf8 body then .ok body else .error (decodeError utf8Name)

/-- expect.rs: `ExpectBytes`, `ExpectString`, `ExpectJson<T>` on a successful response -/
def applyExpect (e : Expect) (f : Facts) (status : Nat) (hs : List (Bytes × Bytes)) (body : Bytes) : Outcome :=
  match e with
  | .bytes => .success status hs body
  | .string => match decodeString f body with
    | .ok s => .success status hs s
    | .error err => .error err
  | .json => match f.jd with
    | .ok j => .success status hs j
    | .fail m => .error (.json m)
    | .na => .error (.json [])

/-- command.rs:598-607 / request_builder.rs:399-426 + client.rs:118-121: what the app's event carries.
    `HttpResult::Err` is handed over as is; a response is converted (may panic), classified
    (response.rs:25-47: `is_client_error() || is_server_error()` ⇒ `HttpError::Http`), then decoded. -/
def outcome (res : HttpResult) (e : Expect) (f : Facts) : Outcome :=
  match res with
  | .err err => .error err
  | .ok r =>
    match toHttpTypes r with
    | .error c => .panic c
    | .ok h =>
      if 400 ≤ r.status && r.status < 600 then .error (.http r.status (decimal r.status) (some r.body))
      else applyExpect e f r.status h.flat r.body

/-- number of events the app receives -/
def Outcome.events : Outcome → Nat
  | .panic _ => 0
  | _ => 1

end M.Http
