/-
M.Mw — model of the middleware machinery of crux_http as it exists in /repo:

  * `Next::run`            crux_http/src/middleware.rs:110-117   (`run`, structural recursion over the stack)
  * `Client::send`         crux_http/src/client.rs:99-136        (`send`: client stack ++ request stack, then the endpoint;
                                                                  the client handed to middleware has an empty stack)
  * the endpoint closure   crux_http/src/client.rs:113-124       (`endpoint`: one `HttpRequest` effect, the shell's answer)
  * `Redirect::handle`     crux_http/src/middleware/redirect.rs:80-131 (`redirectStep`, `redirectLoop`)
  * `Response::new`        crux_http/src/response/response.rs:26-47   (`classify`: 4xx/5xx become `HttpError::Http`)
  * `RequestBuilder::send` / `IntoFuture`  crux_http/src/request_builder.rs:399-460  (`Api.send`, `Api.async`)
  * command `RequestBuilder::build`        crux_http/src/command.rs:583-609         (`Api.cmd`: no middleware is run)

URLs and Location values are opaque strings; `url::Url::parse` and `Url::join` are the parameters
`World.parse` / `World.join` (partial: `none` = the case line did not supply the entry ⇒ `Err.missing`).
The shell is a function of the URL (`World.srv`).

The middleware kinds are the ones harness/src/bin/mw.rs implements against the real `Middleware` trait.
Client middleware exists in the code (`Client::with`, client.rs:93-98, `pub(crate)`); the harness installs it through
the cfg(crux_verif) hook `Http::verif_with_client_middleware` (lib.rs:48-54). The command API has no client.
`fixed = false` is redirect.rs as it is (a relative Location is joined to `base_url`, which is only updated by
absolute Locations); `fixed = true` is redirect.rs with the one-line repair (`base_url` := the joined URL).
-/
namespace M.Mw

abbrev Url := String
abbrev Bytes := List Nat

structure Req where
  method : String
  url : Url
  headers : List (String × String)
  body : Bytes
deriving DecidableEq, Repr

inductive Err where
  | http (code : Nat) (body : Bytes)
  | io (msg : String)
  | timeout
  | url
  | missing
deriving DecidableEq, Repr

/-- what a middleware can see of a response: status, the values of `Location` in order, body -/
structure Resp where
  status : Nat
  locs : List String
  body : Bytes
deriving DecidableEq, Repr

inductive Res where
  | ok (r : Resp)
  | err (e : Err)
deriving DecidableEq, Repr

/-- `Url::parse(location)`: absolute URL (normal form) / `RelativeUrlWithoutBase` / any other error -/
inductive PRes where
  | abs (u : Url) | rel | bad
deriving DecidableEq, Repr

/-- `base.join(location)` -/
inductive JRes where
  | ok (u : Url) | bad
deriving DecidableEq, Repr

structure World where
  srv : Url → Res
  parse : String → Option PRes
  join : Url → String → Option JRes

inductive Ev where
  | enter (k : Nat) | mid (k : Nat) | exit (k : Nat) | shell (r : Req)
deriving DecidableEq, Repr

abbrev Trace := List Ev

inductive Mw where
  | pass (k : Nat)                  -- mark, rest of the chain once, mark
  | tag (k : Nat)                   -- like `pass`, appends header `x-mw: k` on the way in
  | short (k : Nat) (status : Nat)  -- canned response, `next` is never called
  | fail (k : Nat)                  -- `Err(HttpError::Io)`, `next` is never called
  | twice (k : Nat)                 -- `next.run(req.clone())`, then `next.run(req)`
  | issue (k : Nat) (url : Url) (att : Option Nat)   -- extra GET through the client first (optionally with Redirect)
  | redirect (attempts : Nat)       -- crux_http::middleware::Redirect::new(attempts)
deriving DecidableEq, Repr

def Req.append (r : Req) (name value : String) : Req := { r with headers := r.headers ++ [(name, value)] }

/-- `Request::clone` (http-types request.rs:871-888): same method, URL and headers; the body is `Body::empty()`. -/
def Req.clone (r : Req) : Req := { r with body := [] }

/-- client.rs:113-124: the request becomes one effect; the shell's `HttpResult` is handed back. -/
def endpoint (w : World) (req : Req) : Trace × Res := ([.shell req], w.srv req.url)

/-- redirect.rs:22-28 `REDIRECT_CODES` -/
def isRedirect (s : Nat) : Bool := s == 301 || s == 302 || s == 303 || s == 307 || s == 308

inductive LoopRes where
  | ok (req : Req)
  | err (e : Err)
deriving DecidableEq, Repr

inductive Step where
  | stop (r : LoopRes)
  | next (req : Req) (base : Url)
deriving DecidableEq, Repr

/-- One iteration of the `while` of redirect.rs:104-127 after the probe `client.send(req.clone())` came back. -/
def redirectStep (w : World) (fixed : Bool) (req : Req) (base : Url) : Step :=
  match w.srv req.url with
  | .err e => .stop (.err e)                                   -- `client.send(r).await?`
  | .ok res =>
    if isRedirect res.status then
      match res.locs.getLast? with                             -- `res.header(LOCATION)` … `location.last()`
      | none => .next req base                                 -- no Location: the loop goes round again, same URL
      | some loc =>
        match w.parse loc with
        | none => .stop (.err .missing)
        | some (.abs v) => .next { req with url := v } v       -- `base_url = valid_url`
        | some .rel =>
          match w.join base loc with                           -- `base_url.join(location)?`
          | none => .stop (.err .missing)
          | some (.ok u) => .next { req with url := u } (if fixed then u else base)
          | some .bad => .stop (.err .url)
        | some .bad => .stop (.err .url)                       -- `e => return Err(e.into())`
    else .stop (.ok req)                                       -- `break`

/-- redirect.rs:104-127: `n` = attempts left. Every iteration sends one body-less clone straight to the endpoint
    (the client handed to a middleware has an empty stack, client.rs:126-132). -/
def redirectLoop (w : World) (fixed : Bool) : Nat → Req → Url → Trace × LoopRes
  | 0, req, _ => ([], .ok req)
  | n + 1, req, base =>
    match redirectStep w fixed req base with
    | .stop r => ([.shell req.clone], r)
    | .next req' base' =>
      let p := redirectLoop w fixed n req' base'
      (.shell req.clone :: p.1, p.2)

/-- the request a request-issuing middleware sends: `client.get(url)` -/
def getReq (u : Url) : Req := { method := "GET", url := u, headers := [], body := [] }

/-- `client.get(url).await` or `client.get(url).middleware(Redirect::new(a)).await` on the inner client
    (stack `[] ++ [Redirect a]`, then the endpoint). -/
def issued (w : World) (fixed : Bool) (u : Url) : Option Nat → Trace × Res
  | none => endpoint w (getReq u)
  | some a =>
    match redirectLoop w fixed a (getReq u) u with
    | (t, .err e) => (t, .err e)
    | (t, .ok r) => (t ++ (endpoint w r).1, (endpoint w r).2)

/-- middleware.rs:110-117 `Next::run` with the `handle` of each middleware kind inlined. -/
def run (w : World) (fixed : Bool) : List Mw → Req → Trace × Res
  | [], req => endpoint w req
  | .pass k :: rest, req =>
    let p := run w fixed rest req
    (.enter k :: p.1 ++ [.exit k], p.2)
  | .tag k :: rest, req =>
    let p := run w fixed rest (req.append "x-mw" (toString k))
    (.enter k :: p.1 ++ [.exit k], p.2)
  | .short k s :: _, _ => ([.enter k], .ok ⟨s, [], [k]⟩)
  | .fail k :: _, _ => ([.enter k], .err (.io ("mw" ++ toString k)))
  | .twice k :: rest, req =>
    let p1 := run w fixed rest req.clone
    let p2 := run w fixed rest req
    (.enter k :: p1.1 ++ [.mid k] ++ p2.1 ++ [.exit k], p2.2)
  | .issue k u att :: rest, req =>
    match issued w fixed u att with
    | (t0, .err e) => (.enter k :: t0, .err e)
    | (t0, .ok res) =>
      let p := run w fixed rest (req.append "x-mw" (toString k ++ "s" ++ toString res.status))
      (.enter k :: t0 ++ [.mid k] ++ p.1 ++ [.exit k], p.2)
  | .redirect a :: rest, req =>
    match redirectLoop w fixed a req req.url with               -- `let mut base_url = req.url().clone()`
    | (t, .err e) => (t, .err e)
    | (t, .ok req') =>                                          -- `Ok(next.run(req, client).await?)`
      let p := run w fixed rest req'
      (t ++ p.1, p.2)

/-- client.rs:99-136 `Client::send` -/
def send (w : World) (fixed : Bool) (client reqMw : List Mw) (req : Req) : Trace × Res :=
  run w fixed (client ++ reqMw) req

inductive Outcome where
  | ok (status : Nat) (body : Bytes)      -- `Ok(Response)` delivered by `.send(ev)` / the command API
  | raw (status : Nat) (body : Bytes)     -- `Ok(ResponseAsync)` seen by `.send_async().await`
  | err (e : Err)
deriving DecidableEq, Repr

/-- response.rs:26-47 -/
def classify : Res → Outcome
  | .err e => .err e
  | .ok r => if 400 ≤ r.status ∧ r.status < 600 then .err (.http r.status r.body) else .ok r.status r.body

def rawOutcome : Res → Outcome
  | .err e => .err e
  | .ok r => .raw r.status r.body

inductive Api where
  | send | async | cmd
deriving DecidableEq, Repr

/-- One case: what the shell and the marks log see, and the single event the app receives. -/
def runCase (w : World) (fixed : Bool) (api : Api) (client stack : List Mw) (req : Req) : Trace × Outcome :=
  match api with
  | .send => let p := send w fixed client stack req; (p.1, classify p.2)
  | .async => let p := send w fixed client stack req; (p.1, rawOutcome p.2)
  | .cmd => let p := endpoint w req; (p.1, classify p.2)      -- command.rs:583-609: `req.middleware` is never read

end M.Mw
