/-
P-slot — the task-slot protocol of `QueuingExecutor` (crux_core/src/capability/executor.rs:97-175) under any number of
threads, as a labelled transition system. One micro-step = code that runs without another thread being able to observe an
intermediate state (a channel operation, or a section under the `tasks` mutex); the steps are FINER than the code's atomic
sections (e.g. `hand`: the id has been received, the slot not yet inspected), so the LTS has at least the interleavings
of the code.

Threads are shell threads inside `Core::resolve(request, value)`:
  request.resolve(value)      : the callback stores the result (`start → wakePt`), then `TaskWaker::wake_by_ref`
                                sends the task id on the ready channel (`wakePt → loopTop`)
  self.process() → run_all()  : `loopTop d` try_recv; `hand t d` lock + inspect the slot: Missing / take (`takenPt`) /
                                Unavailable (`requeuePt`, re-send the id, `did_some_work` unchanged);
                                `takenPt t` poll the future outside the lock; `afterPollPt t c` lock + put back / remove
Tasks are `join_all` of one-shot requests: a poll completes iff every request the task waits on has been resolved.
-/
namespace M.Slot

inductive SlotSt where
  | present
  | taken (by_ : Nat)   -- `None` in the slab; the thread holding the future is ghost information
  | removed
deriving DecidableEq, Repr, Inhabited

inductive Pc where
  | start
  | wakePt (t : Nat)
  | loopTop (d : Bool)
  | hand (t : Nat) (d : Bool)
  | takenPt (t : Nat)
  | afterPollPt (t : Nat) (c : Bool)
  | requeuePt (t : Nat) (d : Bool)
  | done
deriving DecidableEq, Repr, Inhabited

structure Cfg where
  needs : Nat → List Nat      -- task ↦ the requests it joins
  owner : Nat → Nat           -- request ↦ the task waiting on it
  target : Nat → Nat          -- thread ↦ the request it resolves

structure St where
  queue : List Nat            -- ready channel (task ids)
  slot : Nat → SlotSt         -- `tasks` slab
  pend : Nat → Bool           -- ghost: an id of this task was sent that no later slot-take has served yet
  resolved : Nat → Bool       -- per request: result stored
  pc : Nat → Pc               -- per thread
  polls : Nat → Nat           -- ghost: polls per task

def upd {α : Type} (f : Nat → α) (i : Nat) (v : α) : Nat → α := fun j => if j = i then v else f j

@[simp] theorem upd_self {α : Type} (f : Nat → α) (i : Nat) (v : α) : upd f i v i = v := by simp [upd]
theorem upd_other {α : Type} (f : Nat → α) (i j : Nat) (v : α) (h : j ≠ i) : upd f i v j = f j := by simp [upd, h]

def init (nThreads : Nat) : St :=
  { queue := [], slot := fun _ => .present, pend := fun _ => false, resolved := fun _ => false,
    pc := fun r => if r < nThreads then .start else .done, polls := fun _ => 0 }

/-- one micro-step of thread `r` -/
def step (cfg : Cfg) (r : Nat) (s : St) : St :=
  match s.pc r with
  | .start =>
    let q := cfg.target r
    if s.resolved q then { s with pc := upd s.pc r .done }     -- second resolve of a one-shot: Err, `process` is not run
    else { s with resolved := upd s.resolved q true, pc := upd s.pc r (.wakePt (cfg.owner q)) }
  | .wakePt t => { s with queue := s.queue ++ [t], pend := upd s.pend t true, pc := upd s.pc r (.loopTop false) }
  | .loopTop d =>
    match s.queue with
    | t :: q => { s with queue := q, pc := upd s.pc r (.hand t d) }
    | [] => if d then { s with pc := upd s.pc r (.loopTop false) } else { s with pc := upd s.pc r .done }
  | .hand t d =>
    match s.slot t with
    | .removed => { s with pc := upd s.pc r (.loopTop d) }                                 -- RunTask::Missing
    | .present => { s with slot := upd s.slot t (.taken r), pend := upd s.pend t false, pc := upd s.pc r (.takenPt t) }
    | .taken _ => { s with pc := upd s.pc r (.requeuePt t d) }                             -- RunTask::Unavailable
  | .takenPt t =>
    { s with polls := upd s.polls t (s.polls t + 1), pc := upd s.pc r (.afterPollPt t ((cfg.needs t).all s.resolved)) }
  | .afterPollPt t c =>
    { s with slot := upd s.slot t (if c then .removed else .present), pc := upd s.pc r (.loopTop true) }
  | .requeuePt t d => { s with queue := s.queue ++ [t], pc := upd s.pc r (.loopTop d) }
  | .done => s

def run (cfg : Cfg) (sched : List Nat) (s : St) : St := sched.foldl (fun s r => step cfg r s) s

end M.Slot
