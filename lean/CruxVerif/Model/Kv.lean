/-
M.Kv — model of crux_kv/src/{lib,command,value}.rs: the five calls of both APIs,
the `unwrap_*` functions and the `Value ↔ Option<Vec<u8>>` conversions.
Keys / prefixes / messages are byte strings (their UTF-8), values are byte strings.
-/
namespace M.Kv

abbrev Bytes := List Nat

inductive Value where
  | none | bytes (b : Bytes)
deriving DecidableEq, Repr

inductive Op where
  | get (key : Bytes) | set (key : Bytes) (value : Bytes) | delete (key : Bytes)
  | exists_ (key : Bytes) | listKeys (pfx : Bytes) (cursor : Nat)
deriving DecidableEq, Repr

inductive Response where
  | get (v : Value) | set (prev : Value) | delete (prev : Value)
  | exists_ (b : Bool) | listKeys (keys : List Bytes) (next : Nat)
deriving DecidableEq, Repr

inductive KvError where
  | io (m : Bytes) | timeout | cursorNotFound | other (m : Bytes)
deriving DecidableEq, Repr

inductive KvResult where
  | ok (r : Response) | err (e : KvError)
deriving DecidableEq, Repr

/-- What the app receives (`Result<Option<Vec<u8>>,_>`, `Result<bool,_>`, `Result<(Vec<String>,u64),_>`),
    or a panic of the task. -/
inductive ApiResult where
  | data (v : Option Bytes) | status (b : Bool) | list (keys : List Bytes) (cursor : Nat)
  | error (e : KvError) | panic
deriving DecidableEq, Repr

/-- The API call as the app writes it (`KeyValue::get(key)`, `caps.key_value.set(key, value, ev)`, …). -/
inductive Call where
  | get (key : Bytes) | set (key : Bytes) (value : Bytes) | delete (key : Bytes)
  | exists_ (key : Bytes) | listKeys (pfx : Bytes) (cursor : Nat)
deriving DecidableEq, Repr

/-- value.rs:20-27 -/
def Value.toOption : Value → Option Bytes
  | .none => Option.none
  | .bytes b => some b

/-- value.rs:29-36 -/
def Value.ofOption : Option Bytes → Value
  | Option.none => .none
  | some b => .bytes b

/-- lib.rs:309-359 / command.rs: one `request_from_shell` per call, arguments moved into the operation. -/
def Call.ops : Call → List Op
  | .get k => [.get k]
  | .set k v => [.set k v]
  | .delete k => [.delete k]
  | .exists_ k => [.exists_ k]
  | .listKeys p c => [.listKeys p c]

/-- lib.rs:361-425 `unwrap_get` … `unwrap_list_keys`. -/
def unwrap (c : Call) (r : KvResult) : ApiResult :=
  match r with
  | .err e => .error e
  | .ok resp =>
    match c, resp with
    | .get _, .get v => .data v.toOption
    | .set _ _, .set p => .data p.toOption
    | .delete _, .delete p => .data p.toOption
    | .exists_ _, .exists_ b => .status b
    | .listKeys _ _, .listKeys ks n => .list ks n
    | _, _ => .panic

/-- Observation for one case: the operations handed to the shell, and what the app got back. -/
def run (c : Call) (r : KvResult) : List Op × ApiResult := (c.ops, unwrap c r)

end M.Kv
