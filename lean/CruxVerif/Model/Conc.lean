/-
M.Conc — labelled transition systems for the shared-memory protocols C08 is about (sequentially consistent memory).

P-evict: one poller deciding eviction in `Command::run_task` (executor.rs:209-227) against any number of holders of
clones of the poll's waker.  A holder either wakes (`Wake::wake(self: Arc<Self>)`: send the task id, store `woken`,
wake the parent, drop the clone — executor.rs:57-78) or just drops its clone.
Steps are the code between two schedule points (crux_core::verif):
  poller : [run_task:after_poll] first read [run_task:between_reads] second read + decision
  holder : [taken] send id [wake:after_send] store woken [wake:after_store] parent wake [wake:after_parent] drop clone
`readsSwapped = false` is the pinned tree (`woken` then `strong_count`); `true` is the repaired order.
-/
namespace M.Conc

structure Holder where
  wakes : Bool
  pc : Nat := 0          -- 0 … 5 (5 = clone dropped); a non-waking holder goes 0 → 5 in one step
deriving DecidableEq, Repr

structure Evict where
  readsSwapped : Bool
  woken : Bool := false
  count : Nat            -- Arc::strong_count of the poll's waker
  idSent : Bool := false -- some wake put the task id on the ready queue
  ppc : Nat := 0         -- poller: 0 before the first read, 1 between the reads, 2 decided
  rWoken : Bool := false
  rCount : Nat := 0
  cancelled : Option Bool := none
  holders : List Holder
deriving DecidableEq, Repr

def Evict.init (readsSwapped : Bool) (hs : List Bool) : Evict :=
  { readsSwapped := readsSwapped, count := 1 + hs.length, holders := hs.map fun w => { wakes := w } }

def modifyNth {α : Type} (l : List α) (i : Nat) (f : α → α) : List α :=
  match l, i with
  | [], _ => []
  | a :: as, 0 => f a :: as
  | a :: as, i + 1 => a :: modifyNth as i f

def stepPoller (s : Evict) : Evict :=
  match s.ppc with
  | 0 => if s.readsSwapped then { s with rCount := s.count, ppc := 1 } else { s with rWoken := s.woken, ppc := 1 }
  | 1 =>
    let s := if s.readsSwapped then { s with rWoken := s.woken } else { s with rCount := s.count }
    { s with cancelled := some (!s.rWoken && decide (s.rCount < 2)), ppc := 2 }
  | _ => s

def stepHolder (s : Evict) (i : Nat) : Evict :=
  match s.holders[i]? with
  | none => s
  | some h =>
    let adv (s : Evict) := { s with holders := modifyNth s.holders i fun h => { h with pc := h.pc + 1 } }
    if !h.wakes then
      if h.pc < 5 then { s with count := s.count - 1, holders := modifyNth s.holders i fun h => { h with pc := 5 } } else s
    else
      match h.pc with
      | 0 => adv s                                  -- waker taken out of its slot
      | 1 => adv { s with idSent := true }          -- ready_queue.send(task_id)
      | 2 => adv { s with woken := true }           -- woken.store(true)
      | 3 => adv s                                  -- parent_waker.wake()
      | 4 => adv { s with count := s.count - 1 }    -- the Arc clone is dropped
      | _ => s

/-- thread 0 is the poller, thread i+1 is holder i -/
def step (s : Evict) : Nat → Evict
  | 0 => stepPoller s
  | i + 1 => stepHolder s i

def run (s : Evict) (sched : List Nat) : Evict := sched.foldl step s

/-- the bad outcome: the task is evicted although a wake-up for it was (or will be) sent — the response is lost -/
def Evict.lostWake (s : Evict) : Bool := s.cancelled == some true && s.holders.any (·.wakes)

end M.Conc
