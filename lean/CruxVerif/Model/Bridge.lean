/-
M.Bridge — bridge/{mod,registry,request_serde}.rs on top of M.Rt.Core.
The registry is a slab of serialized resolves; ids are slab keys (observable on the wire).
Payloads cross the boundary as bytes: `decode` is the deserializer of the response / event type
(bincode model for the DSL app's types below; a parameter in the theorems).
-/
import CruxVerif.Model.Rt
namespace M.Bridge
open M.Rt

structure Bridge where
  core : Core := {}
  registry : Slab Resolve := {}
deriving Inhabited

inductive BridgeError where
  | deserializeEvent | deserializeOutput | never | finished
deriving DecidableEq, Repr

/-- `ResolveRegistry::register` for a batch of effects (bridge/mod.rs:219-222): ids in order -/
def registerAll (reg : Slab Resolve) : List Eff → List (Nat × Eff) × Slab Resolve
  | [] => ([], reg)
  | e :: es =>
    let (id, reg) := reg.insert e.res
    let (rest, reg) := registerAll reg es
    ((id, e) :: rest, reg)

inductive ResumeResult where
  | ok | err (e : BridgeError) | panic
deriving DecidableEq, Repr

/-- `ResolveRegistry::resume` (registry.rs:51-72) with `ResolveSerialized::resolve` (request_serde.rs:30-48):
    unknown id ⇒ panic; `Once` is swapped for `Never` *before* the deserializing closure runs, so a
    response that fails to decode still consumes the entry; the entry is removed iff it is `Never` afterwards. -/
def resume (reg : Slab Resolve) (id : Nat) (decoded : Option Val) (w : World) : ResumeResult × Slab Resolve × World :=
  match reg.get? id with
  | none => (.panic, reg, w)
  | some .never | some .gone => (.err .never, (reg.remove id).2, w)
  | some (.once l) =>
    match decoded with
    | none =>
      -- closure consumed and dropped without being called: the sender half goes
      (.err .deserializeOutput, (reg.remove id).2, w.dropSender l)
    | some v =>
      let (_, _, w) := resolveReq (.once l) v w
      (.ok, (reg.remove id).2, w)
  | some (.many l) =>
    match decoded with
    | none => (.err .deserializeOutput, reg, w)
    | some v =>
      let (_, r, w) := resolveReq (.many l) v w
      (if r == .ok then .ok else .err .finished, reg, w)

/-- `BridgeWithSerializer::process` with `id = None` -/
def processEvent (b : Bridge) (decoded : Option Ev) : Option (Except BridgeError (List (Nat × Eff)) × Bridge) :=
  match decoded with
  | none => some (.error .deserializeEvent, b)
  | some ev =>
    match M.Rt.processEvent ev b.core with
    | none => none
    | some (effs, core) =>
      let (reqs, reg) := registerAll b.registry effs
      some (.ok reqs, { core := core, registry := reg })

inductive Response where
  | ok (reqs : List (Nat × Eff)) | err (e : BridgeError) | panic

/-- `BridgeWithSerializer::process` with `id = Some(id)`: an error from `resume` returns *before* `core.process()` -/
def handleResponse (b : Bridge) (id : Nat) (decoded : Option Val) : Option (Response × Bridge) :=
  match resume b.registry id decoded b.core.w with
  | (.panic, _, _) => some (.panic, b)
  | (.err e, reg, w) => some (.err e, { core := { b.core with w := w }, registry := reg })
  | (.ok, reg, w) =>
    match M.Rt.process { b.core with w := w } with
    | none => none
    | some (effs, core) =>
      let (reqs, reg) := registerAll reg effs
      some (.ok reqs, { core := core, registry := reg })

/-! bincode (fixint, little-endian, trailing bytes allowed) for the DSL app's wire types -/

def leNat : List Nat → Nat
  | [] => 0
  | b :: bs => b + 256 * leNat bs

def toSigned (bits : Nat) (n : Nat) : Int :=
  if n < 2 ^ (bits - 1) then (n : Int) else (n : Int) - (2 ^ bits : Nat)

/-- `i64`: 8 bytes -/
def decodeVal (bs : List Nat) : Option Val :=
  if bs.length < 8 then none else some (toSigned 64 (leNat (bs.take 8)))

/-- `Event { tag: u32, v: i64 }`: 4 + 8 bytes -/
def decodeEv (bs : List Nat) : Option Ev :=
  if bs.length < 12 then none else
  some ⟨leNat (bs.take 4), toSigned 64 (leNat ((bs.drop 4).take 8))⟩

end M.Bridge
