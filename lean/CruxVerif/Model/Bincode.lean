/-
M.Bincode — bincode 1.3.3 as configured by the bridge (crux_core/src/bridge/mod.rs:119-123:
`DefaultOptions::new().with_fixint_encoding().allow_trailing_bytes()`, i.e. little endian, no size limit):

  integers / floats   fixed width, little endian (config/int.rs FixintEncoding; floats as `to_bits`)
  bool                one byte, 0 or 1; anything else is `InvalidBoolEncoding`     (de/mod.rs deserialize_bool)
  char                its UTF-8 bytes; width from the first byte, then `str::from_utf8`   (de/mod.rs:200-229)
  str / String        u64 length, bytes; length checked against the remaining slice *before* the bytes are
                      taken (de/read.rs:47-54), then `str::from_utf8`                (de/read.rs:113-123)
  bytes / byte_buf    u64 length, bytes (same length check)
  Option              one byte tag 0 / 1 (else `InvalidTagEncoding`), then the value
  unit, unit struct   nothing
  seq, map            u64 length, then the elements / key-value pairs
  tuple, array, every struct kind      the fields in order, no length
  enum                u32 variant index, then the variant's fields

`enc` depends on the value alone (that is the point of the universal `Value`); `dec` is driven by the schema.
`dec` follows `TypeName`s through the registry; a registry may be cyclic (`struct A(Box<A>)` traces to
`A ↦ NewTypeStruct(TypeName A)`), so every lookup takes one unit of `fuel`; otherwise `dec` is structurally
recursive on the format. Trailing bytes are returned, not rejected.
-/
import CruxVerif.Model.Schema
namespace M.Bincode
open M.Schema

/-! ### little endian -/

/-- the `k` low bytes of `n`, least significant first -/
def leBytes : Nat → Nat → Bytes
  | 0, _ => []
  | k + 1, n => UInt8.ofNat (n % 256) :: leBytes k (n / 256)

def leVal : Bytes → Nat
  | [] => 0
  | b :: bs => b.toNat + 256 * leVal bs

/-- split off the first `k` bytes; `none` when fewer remain (`UnexpectedEof`) -/
def takeN (k : Nat) (bs : Bytes) : Option (Bytes × Bytes) :=
  if k ≤ bs.length then some (bs.take k, bs.drop k) else none

def decNat (k : Nat) (bs : Bytes) : Option (Nat × Bytes) :=
  match takeN k bs with
  | some (h, t) => some (leVal h, t)
  | none => none

/-! ### numbers -/

/-- the unsigned image of `n` on `t.bytes` bytes (two's complement for the signed types) -/
def numRepr (t : NumTy) (n : Int) : Nat := (n % (t.modulus : Int)).toNat

def numOfRepr (t : NumTy) (u : Nat) : Int :=
  if t.signed = true ∧ t.modulus ≤ 2 * u then (u : Int) - (t.modulus : Int) else u

def encNum (t : NumTy) (n : Int) : Bytes := leBytes t.bytes (numRepr t n)

def decNum (t : NumTy) (bs : Bytes) : Option (Value × Bytes) :=
  match decNat t.bytes bs with
  | some (u, rest) => some (.num t (numOfRepr t u), rest)
  | none => none

/-! ### char (UTF-8, at most four bytes) -/

def encChar (c : Nat) : Bytes :=
  if c < 0x80 then [UInt8.ofNat c]
  else if c < 0x800 then [UInt8.ofNat (0xC0 + c / 64), UInt8.ofNat (0x80 + c % 64)]
  else if c < 0x10000 then
    [UInt8.ofNat (0xE0 + c / 4096), UInt8.ofNat (0x80 + c / 64 % 64), UInt8.ofNat (0x80 + c % 64)]
  else
    [UInt8.ofNat (0xF0 + c / 262144), UInt8.ofNat (0x80 + c / 4096 % 64), UInt8.ofNat (0x80 + c / 64 % 64),
     UInt8.ofNat (0x80 + c % 64)]

/-- a Unicode scalar value -/
def isScalar (c : Nat) : Bool := c < 0xD800 || (0xE000 ≤ c && c < 0x110000)

def isCont (b : Nat) : Bool := 0x80 ≤ b && b < 0xC0

/-- de/mod.rs:200-229: width from the first byte (`utf8_char_width`), then `str::from_utf8` on exactly that many
    bytes — which rejects bad continuation bytes, overlong forms, surrogates and values above 0x10FFFF. -/
def decChar : Bytes → Option (Value × Bytes)
  | [] => none
  | b0 :: r =>
    let a := b0.toNat
    if a < 0x80 then some (.char a, r)
    else if a < 0xC2 then none
    else if a < 0xE0 then
      match r with
      | b1 :: r =>
        let b := b1.toNat
        if isCont b then some (.char ((a - 0xC0) * 64 + (b - 0x80)), r) else none
      | _ => none
    else if a < 0xF0 then
      match r with
      | b1 :: b2 :: r =>
        let b := b1.toNat; let c := b2.toNat
        let x := (a - 0xE0) * 4096 + (b - 0x80) * 64 + (c - 0x80)
        if isCont b && isCont c && decide (0x800 ≤ x) && isScalar x then some (.char x, r) else none
      | _ => none
    else if a < 0xF5 then
      match r with
      | b1 :: b2 :: b3 :: r =>
        let b := b1.toNat; let c := b2.toNat; let d := b3.toNat
        let x := (a - 0xF0) * 262144 + (b - 0x80) * 4096 + (c - 0x80) * 64 + (d - 0x80)
        if isCont b && isCont c && isCont d && decide (0x10000 ≤ x) && decide (x < 0x110000) then some (.char x, r)
        else none
      | _ => none
    else none

/-! ### strings -/

/-- `core::str::from_utf8(..).is_ok()`: well-formed UTF-8 (Unicode table 3-7). The codec theorems use it only as
    an opaque decidable predicate. -/
def validUtf8 : Bytes → Bool
  | [] => true
  | b0 :: r =>
    let a := b0.toNat
    if a < 0x80 then validUtf8 r
    else if a < 0xC2 then false
    else if a < 0xE0 then
      match r with
      | b1 :: r => isCont b1.toNat && validUtf8 r
      | _ => false
    else if a < 0xF0 then
      match r with
      | b1 :: b2 :: r =>
        let b := b1.toNat
        (if a = 0xE0 then 0xA0 ≤ b && b < 0xC0 else if a = 0xED then 0x80 ≤ b && b < 0xA0 else isCont b)
          && isCont b2.toNat && validUtf8 r
      | _ => false
    else if a < 0xF5 then
      match r with
      | b1 :: b2 :: b3 :: r =>
        let b := b1.toNat
        (if a = 0xF0 then 0x90 ≤ b && b < 0xC0 else if a = 0xF4 then 0x80 ≤ b && b < 0x90 else isCont b)
          && isCont b2.toNat && isCont b3.toNat && validUtf8 r
      | _ => false
    else false

def encLenBytes (bs : Bytes) : Bytes := leBytes 8 bs.length ++ bs

/-- u64 length, then that many bytes; the length is compared with what remains before anything is taken -/
def decLenBytes (bs : Bytes) : Option (Bytes × Bytes) :=
  match decNat 8 bs with
  | some (n, rest) => takeN n rest
  | none => none

/-! ### encoder -/

mutual
def enc : Value → Bytes
  | .bool b => [if b then 1 else 0]
  | .num t n => encNum t n
  | .char c => encChar c
  | .str s => encLenBytes s
  | .bytes b => encLenBytes b
  | .none => [0]
  | .some v => 1 :: enc v
  | .seq vs => leBytes 8 vs.length ++ encAll vs
  | .tuple vs => encAll vs
  | .variant i v => leBytes 4 i ++ enc v
def encAll : List Value → Bytes
  | [] => []
  | v :: vs => enc v ++ encAll vs
end

/-! ### decoder -/

abbrev Dec := Bytes → Option (Value × Bytes)

/-- `n` items with the same decoder (elements of a seq / array) -/
def decListWith (d : Dec) : Nat → Bytes → Option (List Value × Bytes)
  | 0, bs => some ([], bs)
  | n + 1, bs =>
    match d bs with
    | none => none
    | some (v, bs') =>
      match decListWith d n bs' with
      | none => none
      | some (vs, bs'') => some (v :: vs, bs'')

/-- a map entry: key then value, as a 2-tuple -/
def decPair (dk dv : Dec) : Dec := fun bs =>
  match dk bs with
  | none => none
  | some (k, bs') =>
    match dv bs' with
    | none => none
    | some (v, bs'') => some (.tuple [k, v], bs'')

def mapFst {α β γ : Type} (f : α → β) : Option (α × γ) → Option (β × γ)
  | none => none
  | some (a, c) => some (f a, c)

mutual
/-- decode one value of format `f`; `dn` decodes a named container -/
def decF (dn : String → Dec) : Format → Dec
  | .typeName n, bs => dn n bs
  | .unit, bs => some (.tuple [], bs)
  | .bool, bs =>
    match bs with
    | [] => none
    | b :: r => if b = 0 then some (.bool false, r) else if b = 1 then some (.bool true, r) else none
  | .num t, bs => decNum t bs
  | .char, bs => decChar bs
  | .str, bs =>
    match decLenBytes bs with
    | some (s, r) => if validUtf8 s then some (.str s, r) else none
    | none => none
  | .bytes, bs => mapFst Value.bytes (decLenBytes bs)
  | .option f, bs =>
    match bs with
    | [] => none
    | b :: r => if b = 0 then some (.none, r) else if b = 1 then mapFst Value.some (decF dn f r) else none
  | .seq f, bs =>
    match decNat 8 bs with
    | some (n, r) => mapFst Value.seq (decListWith (decF dn f) n r)
    | none => none
  | .map k v, bs =>
    match decNat 8 bs with
    | some (n, r) => mapFst Value.seq (decListWith (decPair (decF dn k) (decF dn v)) n r)
    | none => none
  | .tuple fs, bs => mapFst Value.tuple (decT dn fs bs)
  | .tupleArray f n, bs => mapFst Value.tuple (decListWith (decF dn f) n bs)
/-- the fields of a tuple / struct / variant, in order -/
def decT (dn : String → Dec) : List Format → Bytes → Option (List Value × Bytes)
  | [], bs => some ([], bs)
  | f :: fs, bs =>
    match decF dn f bs with
    | none => none
    | some (v, bs') =>
      match decT dn fs bs' with
      | none => none
      | some (vs, bs'') => some (v :: vs, bs'')
end

def decC (dn : String → Dec) : ContainerFormat → Dec
  | .enum variants, bs =>
    match decNat 4 bs with
    | some (i, r) =>
      match lookupVariant i variants with
      | some vf => mapFst (fun vs => Value.variant i (.tuple vs)) (decT dn vf.value.fields r)
      | none => none
    | none => none
  | c, bs =>
    match structFields c with
    | some fs => mapFst Value.tuple (decT dn fs bs)
    | none => none

/-- named containers with `fuel` nested lookups allowed -/
def decName (R : Registry) : Nat → String → Dec
  | 0, _, _ => none
  | fuel + 1, n, bs =>
    match lookup n R with
    | some c => decC (decName R fuel) c bs
    | none => none

/-- `dec fuel R f bs` : decode a value of format `f` under registry `R` from the front of `bs`;
    `none` = rejected (malformed, or more than `fuel` nested container lookups). -/
def dec (fuel : Nat) (R : Registry) (f : Format) : Dec := decF (decName R fuel) f

/-! nesting depth of a value = fuel that always suffices to decode its encoding (`dec_enc`) -/
mutual
def depth : Value → Nat
  | .some v => depth v + 1
  | .seq vs => depthAll vs + 1
  | .tuple vs => depthAll vs + 1
  | .variant _ v => depth v + 1
  | _ => 0
def depthAll : List Value → Nat
  | [] => 0
  | v :: vs => max (depth v) (depthAll vs)
end

/-! ### serde derive: how enum variants are numbered (serde_derive 1.0.219)

`#[derive(Serialize)]` writes variant number = position in the declaration, counting every variant
(ser.rs:397-402 `variants.iter().enumerate()`); `#[derive(Deserialize)]` numbers only the variants that are not
`#[serde(skip)]` / `skip_deserializing` (de.rs:2400-2404 `deserialized_fields.iter().enumerate()`), and that second
numbering is the one serde-reflection records in the registry (it drives the derived `Deserialize`).
A declaration is represented by its list of skip flags. -/

/-- the number `Deserialize` (and hence the traced schema) gives to the variant declared at position `i` -/
def deIndex (skips : List Bool) (i : Nat) : Nat := ((skips.take i).filter (fun s => !s)).length

/-- the number `Serialize` writes for the variant declared at position `i` -/
def serIndex (_skips : List Bool) (i : Nat) : Nat := i

/-! ### when the type generator hands out a schema

`Tracer::trace_simple_type::<T>` explores every variant of `T` itself but only the first variant of an enum nested
in `T` (serde-reflection 0.4.0 trace.rs / de.rs: one new variant per visit); `Tracer::registry()` refuses while any
enum is incomplete (`Error::MissingVariants`), and `TypeGen::ensure_registry` (crux_core/src/typegen.rs:558-577)
passes the refusal on (`TypeGenError::Generation`). So an app whose types hold an enum with more than one variant
that was not registered on its own gets no schema. -/
def typegenRefuses (variants : Nat) (registeredAlone : Bool) : Bool :=
  !registeredAlone && decide (1 < variants)

/-! ### the observation of one correspondence case (engine `codec`) -/

inductive Kind where
  /-- a Rust value (universal print); Rust serialises it and reads it back -/
  | val
  /-- bytes that must be a complete schema-valid encoding (emitted by the core, or built from the schema) -/
  | strict
  /-- arbitrary bytes (mutated / extended encodings) -/
  | any
deriving DecidableEq, Repr

structure Case where
  kind : Kind
  /-- name used in oracle keys -/
  root : String
  R : Registry
  f : Format
  /-- `val`: the value, `none` if the Rust value has no counterpart under the schema at all -/
  v : Option Value
  /-- `strict` / `any`: the input bytes -/
  bytes : Bytes

inductive Obs where
  /-- `val`: bytes written, value read back from them (if reading succeeded, with nothing left) -/
  | wrote (bytes : Bytes) (back : Option Value)
  | serError
  | notInSchema
  /-- `strict` / `any`: accepted as `v`; `re` = what is written for `v`; `trail` = input bytes were left over -/
  | accepted (v : Value) (re : Bytes) (trail : Bool)
  | rejected

/-- fuel the driver gives `dec`: more than any successful decode of `bs` can use under an acyclic-per-byte registry -/
def fuelFor (R : Registry) (bs : Bytes) : Nat := (bs.length + 1) * (R.length + 1)

/-- `val`: write the value, read it back -/
def runVal (R : Registry) (f : Format) (v : Value) : Obs :=
  match dec (depth v) R f (enc v) with
  | some (v', []) => if v'.beq v then .wrote (enc v) (some v') else .notInSchema
  | _ => .notInSchema

/-- `strict` / `any`: read the bytes, re-write what was read -/
def runBytes (R : Registry) (f : Format) (bs : Bytes) : Obs :=
  match dec (fuelFor R bs) R f bs with
  | some (v, rest) => .accepted v (enc v) (!rest.isEmpty)
  | none => .rejected

def run (c : Case) : Obs :=
  match c.kind with
  | .val =>
    match c.v with
    | none => .notInSchema
    | some v => runVal c.R c.f v
  | _ => runBytes c.R c.f c.bytes

end M.Bincode
