/-
M.Slab — the `slab` crate (0.4.9) as used by crux: `insert` takes the head of the LIFO free list
(or appends), `remove` pushes the freed key on the free list, `clear` forgets everything.
Keys are observable (bridge effect ids; task ids reused by stale wake-ups), so the model is exact.
-/
namespace M

inductive SlabEntry (α : Type) where
  | vacant (next : Nat)
  | occupied (a : α)
deriving Repr

structure Slab (α : Type) where
  entries : List (SlabEntry α) := []
  next : Nat := 0
  len : Nat := 0
deriving Repr

namespace Slab
variable {α : Type}

def empty : Slab α := {}

def get? (s : Slab α) (k : Nat) : Option α :=
  match s.entries[k]? with
  | some (.occupied a) => some a
  | _ => none

def contains (s : Slab α) (k : Nat) : Bool := (s.get? k).isSome

/-- slab-0.4.9 `insert_at`: returns the key used -/
def insert (s : Slab α) (a : α) : Nat × Slab α :=
  let key := s.next
  if key = s.entries.length then
    (key, { entries := s.entries ++ [.occupied a], next := key + 1, len := s.len + 1 })
  else
    let nxt := match s.entries[key]? with
      | some (.vacant n) => n
      | _ => s.entries.length  -- unreachable on well-formed slabs
    (key, { entries := s.entries.set key (.occupied a), next := nxt, len := s.len + 1 })

/-- `try_remove`: `none` if the slot is not occupied -/
def remove (s : Slab α) (k : Nat) : Option α × Slab α :=
  match s.entries[k]? with
  | some (.occupied a) =>
    (some a, { entries := s.entries.set k (.vacant s.next), next := k, len := s.len - 1 })
  | _ => (none, s)

def set (s : Slab α) (k : Nat) (a : α) : Slab α :=
  match s.entries[k]? with
  | some (.occupied _) => { s with entries := s.entries.set k (.occupied a) }
  | _ => s

def clear (_ : Slab α) : Slab α := {}

def isEmpty (s : Slab α) : Bool := s.len == 0

/-- occupied entries with their keys, in key order -/
def toList (s : Slab α) : List (Nat × α) :=
  (s.entries.zipIdx).filterMap fun (e, i) => match e with
    | .occupied a => some (i, a)
    | .vacant _ => none

def values (s : Slab α) : List α := s.toList.map (·.2)

end Slab
end M
