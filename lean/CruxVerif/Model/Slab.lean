/-
M.Slab — the `slab` crate (0.4.9) as used by crux, observationally: `insert` reuses the most recently
freed key (LIFO free list) or else appends; `remove` frees the key; `clear` forgets everything.
The crate threads its free list through the vacant entries; here it is an explicit stack, which gives
the same keys (keys are observable: bridge effect ids, task ids reused by stale wake-ups — the
correspondence check compares them exactly).
-/
namespace M

structure Slab (α : Type) where
  entries : List (Option α) := []
  free : List Nat := []
deriving Repr

namespace Slab
variable {α : Type}

def empty : Slab α := {}

def get? (s : Slab α) (k : Nat) : Option α := (s.entries[k]?).join

def contains (s : Slab α) (k : Nat) : Bool := (s.get? k).isSome

/-- returns the key used -/
def insert (s : Slab α) (a : α) : Nat × Slab α :=
  match s.free with
  | k :: rest => (k, { entries := s.entries.set k (some a), free := rest })
  | [] => (s.entries.length, { entries := s.entries ++ [some a], free := [] })

/-- `try_remove`: `none` if the slot is not occupied -/
def remove (s : Slab α) (k : Nat) : Option α × Slab α :=
  match s.get? k with
  | some a => (some a, { entries := s.entries.set k none, free := k :: s.free })
  | none => (none, s)

def set (s : Slab α) (k : Nat) (a : α) : Slab α :=
  match s.get? k with
  | some _ => { s with entries := s.entries.set k (some a) }
  | none => s

def clear (_ : Slab α) : Slab α := {}

/-- occupied entries with their keys, in key order -/
def toList (s : Slab α) : List (Nat × α) :=
  (s.entries.zipIdx).filterMap fun (e, i) => e.map fun a => (i, a)

def values (s : Slab α) : List α := s.entries.filterMap id

def len (s : Slab α) : Nat := s.values.length

def isEmpty (s : Slab α) : Bool := s.len == 0

end Slab
end M
