/-
M.Conv — model of crux_time/src/protocol/{duration,instant,chrono}.rs
(and of the std / chrono accessors those functions call, as integer functions).

Every function takes the raw fields of its argument as integers and returns
  ok vs      the raw fields of the result
  err e      the `TimeError` variant returned
  panic c    the function panics (class of the message)
  skip       the raw fields do not form a value of the argument type at all
             (the harness cannot construct it; both sides must agree on that)
-/
namespace M.Conv

inductive Out where
  | ok (vs : List Int)
  | err (e : String)
  | panic (c : String)
  | skip
deriving DecidableEq, Repr

def Out.toLine : Out → String
  | .ok vs => "ok " ++ String.intercalate " " (vs.map toString)
  | .err e => "err " ++ e
  | .panic c => "panic " ++ c
  | .skip => "skip"

/-- 2^64 -/ scoped notation "U64" => (18446744073709551616 : Int)
/-- 2^63 -/ scoped notation "I63" => (9223372036854775808 : Int)
/-- 2^32 -/ scoped notation "U32" => (4294967296 : Int)
/-- nanoseconds per second -/ scoped notation "NPS" => (1000000000 : Int)

/-- chrono 0.4.40: `DateTime::<Utc>::from_timestamp` accepts seconds in
    `[minTs, maxTs]` (dates -262143-01-01 … 262142-12-31). Validated at the
    boundary by the correspondence check. -/
scoped notation "minTs" => (-8334601228800 : Int)
scoped notation "maxTs" => (8210266876799 : Int)

/-- chrono `TimeDelta::new(secs, nanos)`: `|total ms| ≤ i64::MAX`. -/
scoped notation "tdMaxSecs" => (9223372036854775 : Int)
scoped notation "tdMaxNanos" => (807000000 : Int)

def isU64 (x : Int) : Bool := 0 ≤ x && x < U64
def isI64 (x : Int) : Bool := -I63 ≤ x && x < I63
def isU32 (x : Int) : Bool := 0 ≤ x && x < U32

/-- `Duration::from_millis` (duration.rs:25-30): `checked_mul(1_000_000).expect(..)`. -/
def durationFromMillis (m : Int) : Out :=
  if !isU64 m then .skip else
  if m * 1000000 < U64 then .ok [m * 1000000] else .panic "millis overflow"

/-- `Duration::from_secs` (duration.rs:36-41). -/
def durationFromSecs (s : Int) : Out :=
  if !isU64 s then .skip else
  if s * NPS < U64 then .ok [s * NPS] else .panic "seconds overflow"

/-- `From<std::time::Duration> for Duration` (duration.rs:44-50):
    `u64::try_from(duration.as_nanos()).expect("duration overflow")`. -/
def stdToDuration (s n : Int) : Out :=
  if !(isU64 s && 0 ≤ n && n < NPS) then .skip else
  if s * NPS + n < U64 then .ok [s * NPS + n] else .panic "duration overflow"

/-- `From<Duration> for std::time::Duration`: `from_nanos`. Result (secs, subsec_nanos). -/
def durationToStd (n : Int) : Out :=
  if !isU64 n then .skip else .ok [n / NPS, n % NPS]

/-- `Instant::new` (instant.rs:27-32). -/
def instantNew (s n : Int) : Out :=
  if !(isU64 s && isU32 n) then .skip else
  if n ≥ NPS then .panic "nanos must be less than" else .ok [s, n]

/-- `From<SystemTime> for Instant` (instant.rs:35-42). A `SystemTime` on this
    platform is `(tv_sec : i64, tv_nsec < 10^9)`. `duration_since(EPOCH).unwrap()`
    panics before the epoch. -/
def systemTimeToInstant (sec nsec : Int) : Out :=
  if !(isI64 sec && 0 ≤ nsec && nsec < NPS) then .skip else
  if sec < 0 then .panic "unwrap on Err" else .ok [sec, nsec]

/-- `From<Instant> for SystemTime` (instant.rs:44-52): rejects an invalid
    sub-second part, then `UNIX_EPOCH + Duration::new(seconds, nanos)`;
    the addition panics when `tv_sec` leaves `i64`. Result (tv_sec, tv_nsec). -/
def instantToSystemTime (s n : Int) : Out :=
  if !(isU64 s && isU32 n) then .skip else
  if n ≥ NPS then .panic "nanos must be less than" else
  if s < I63 then .ok [s, n] else .panic "overflow when adding duration to instant"

/-- Is `(secs, nanos)` a `TimeDelta`? (`TimeDelta::new` returns `Some`.) -/
def isTimeDelta (secs nanos : Int) : Bool :=
  0 ≤ nanos && nanos < NPS &&
  !(secs < -tdMaxSecs - 1 || secs > tdMaxSecs
    || (secs == tdMaxSecs && nanos > tdMaxNanos)
    || (secs == -tdMaxSecs - 1 && nanos < NPS - tdMaxNanos))

/-- `TryFrom<TimeDelta> for Duration` (chrono.rs:19-26):
    `num_nanoseconds()` is `None` outside `i64`; then `u64::try_from`. -/
def timeDeltaToDuration (secs nanos : Int) : Out :=
  if !isTimeDelta secs nanos then .skip else
  let total := secs * NPS + nanos
  if !isI64 total then .err "InvalidDuration" else
  if total < 0 then .err "InvalidDuration" else .ok [total]

/-- `TryFrom<Duration> for TimeDelta` (chrono.rs:28-38). Result (secs, nanos) of the `TimeDelta`. -/
def durationToTimeDelta (n : Int) : Out :=
  if !isU64 n then .skip else
  if n < I63 then .ok [n / NPS, n % NPS] else .err "InvalidDuration"

/-- Is `(ts, sub)` a `DateTime<Utc>`? (`from_timestamp` returns `Some`.) -/
def isDateTime (ts sub : Int) : Bool :=
  minTs ≤ ts && ts ≤ maxTs && 0 ≤ sub &&
  (sub < NPS || (sub < 2 * NPS && ts % 60 == 59))

/-- `TryFrom<Instant> for DateTime<Utc>` (chrono.rs:40-47). Result (timestamp, subsec_nanos). -/
def instantToDateTime (s n : Int) : Out :=
  if !(isU64 s && isU32 n) then .skip else
  if !(s < I63) then .err "InvalidInstant" else
  if isDateTime s n then .ok [s, n] else .err "InvalidInstant"

/-- `TryFrom<DateTime<Utc>> for Instant` (chrono.rs:49-60). -/
def dateTimeToInstant (ts sub : Int) : Out :=
  if !isDateTime ts sub then .skip else
  if ts < 0 then .err "InvalidTime" else .ok [ts, sub]

inductive Fn where
  | fromMillis | fromSecs | stdToDur | durToStd | instantNew
  | sysToInstant | instantToSys | tdToDur | durToTd | instantToDt | dtToInstant
deriving DecidableEq, Repr

def Fn.ofString? : String → Option Fn
  | "from_millis" => some .fromMillis | "from_secs" => some .fromSecs
  | "std_to_dur" => some .stdToDur | "dur_to_std" => some .durToStd
  | "instant_new" => some .instantNew | "sys_to_instant" => some .sysToInstant
  | "instant_to_sys" => some .instantToSys | "td_to_dur" => some .tdToDur
  | "dur_to_td" => some .durToTd | "instant_to_dt" => some .instantToDt
  | "dt_to_instant" => some .dtToInstant | _ => none

/-- One case = function + two raw integer arguments (`b` ignored by unary functions). -/
def run (f : Fn) (a b : Int) : Out :=
  match f with
  | .fromMillis => durationFromMillis a
  | .fromSecs => durationFromSecs a
  | .stdToDur => stdToDuration a b
  | .durToStd => durationToStd a
  | .instantNew => instantNew a b
  | .sysToInstant => systemTimeToInstant a b
  | .instantToSys => instantToSystemTime a b
  | .tdToDur => timeDeltaToDuration a b
  | .durToTd => durationToTimeDelta a
  | .instantToDt => instantToDateTime a b
  | .dtToInstant => dateTimeToInstant a b

end M.Conv
