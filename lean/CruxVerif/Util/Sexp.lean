/-! Minimal S-expressions for the line protocol: atoms and lists, ASCII, one expression per line. -/
namespace Util

inductive Sexp where
  | atom (s : String)
  | list (xs : List Sexp)
deriving Repr, Inhabited

namespace Sexp

partial def toStr : Sexp → String
  | .atom s => s
  | .list xs => "(" ++ String.intercalate " " (xs.map toStr) ++ ")"

/-- tokens: `(`, `)`, atoms -/
def tokenize (s : String) : List String :=
  let rec go (cs : List Char) (cur : List Char) (acc : List String) : List String :=
    let flush := if cur.isEmpty then acc else String.ofList cur.reverse :: acc
    match cs with
    | [] => flush.reverse
    | c :: rest =>
      if c == '(' then go rest [] ("(" :: flush)
      else if c == ')' then go rest [] (")" :: flush)
      else if c == ' ' || c == '\t' || c == '\n' || c == '\r' then go rest [] flush
      else go rest (c :: cur) acc
  go s.toList [] []

/-- parse with an explicit stack; `none` on unbalanced input -/
def parseTokens (toks : List String) : Option (List Sexp) :=
  let rec go (toks : List String) (stack : List (List Sexp)) (cur : List Sexp) : Option (List Sexp) :=
    match toks with
    | [] => if stack.isEmpty then some cur.reverse else none
    | t :: rest =>
      if t == "(" then go rest (cur :: stack) []
      else if t == ")" then
        match stack with
        | [] => none
        | parent :: stack' => go rest stack' (Sexp.list cur.reverse :: parent)
      else go rest stack (Sexp.atom t :: cur)
  go toks [] []

def parse (s : String) : Option Sexp :=
  match parseTokens (tokenize s) with
  | some [x] => some x
  | _ => none

def parseMany (s : String) : Option (List Sexp) := parseTokens (tokenize s)

def nat? : Sexp → Option Nat
  | .atom s => s.toNat?
  | _ => none

def int? : Sexp → Option Int
  | .atom s => s.toInt?
  | _ => none

end Sexp
end Util
