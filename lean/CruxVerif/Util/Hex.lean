/-! Hex encoding of byte strings for the line protocol (bytes are `Nat`s < 256). -/
namespace Util

def hexDigit (n : Nat) : Char :=
  if n < 10 then Char.ofNat (48 + n) else Char.ofNat (87 + n)

def hexVal (c : Char) : Option Nat :=
  let n := c.toNat
  if 48 ≤ n && n ≤ 57 then some (n - 48)
  else if 97 ≤ n && n ≤ 102 then some (n - 87)
  else none

def toHex (bs : List Nat) : String :=
  if bs.isEmpty then "-" else
  String.ofList (bs.flatMap fun b => [hexDigit (b / 16 % 16), hexDigit (b % 16)])

def ofHexChars : List Char → Option (List Nat)
  | [] => some []
  | [_] => none
  | a :: b :: rest => do
      let x ← hexVal a
      let y ← hexVal b
      let r ← ofHexChars rest
      pure ((x * 16 + y) :: r)

/-- `-` is the empty byte string (so that fields never vanish from a space separated line). -/
def ofHex (s : String) : Option (List Nat) :=
  if s == "-" then some [] else ofHexChars s.toList

end Util
