"""Per-property configuration of the runner."""
from .core import Stream, int_shrinks


def conv_gen(tier, seed):
    n = 20000 if tier == "quick" else 2000000
    return [["gen-boundary"], ["gen", seed, n]]


def conv_nontrivial(case, out):
    # non-trivial: the argument is a value of the source type (outcome is not `skip`)
    return not out.startswith("skip")


def conv_shape(case, out):
    # distinct = (function, outcome class incl. error/panic kind, magnitude class of both fields)
    f, a, b = case.split(" ")
    cls = out.split(" ")[0] + (":" + " ".join(out.split(" ")[1:]) if not out.startswith("ok") else "")
    mag = lambda x: (x[0] == "-", len(x.lstrip("-")))
    return (f, cls, mag(a), mag(b))


def kv_gen(tier, seed):
    return [["gen", seed, 4000 if tier == "quick" else 150000]]


def lenclass(h):
    n = 0 if h in ("-", "_", "none") else len(h) // 2
    return 0 if n == 0 else 1 if n == 1 else 2 if n < 64 else 3 if n < 65536 else 4


def kv_shape(case, out):
    api, host, call, key, value, cursor, resp = case.split(" ")
    rk = ":".join(resp.split(":")[:2])
    return (api, host, call, rk, out.split("result ")[-1].split(":")[0], lenclass(key), lenclass(value),
            lenclass(resp.split(":")[-1]))


def kv_nontrivial(case, out):
    # non-trivial: the response is of the matching kind or an error (the property constrains the result)
    call, resp = case.split(" ")[2], case.split(" ")[6]
    return resp.startswith("err") or resp.split(":")[1] == call


def hex_shrinks(case):
    toks = case.split(" ")
    out = []
    for i, t in enumerate(toks):
        parts = t.split(":")
        for j, q in enumerate(parts):
            for sub_i, sub in enumerate(q.split(",")):
                if len(sub) >= 2 and all(c in "0123456789abcdef" for c in sub) and len(sub) % 2 == 0:
                    for repl in ("-", sub[: (len(sub) // 4) * 2] or "-", sub[2:] or "-"):
                        if repl != sub:
                            qq = q.split(",")
                            qq[sub_i] = repl
                            pp = parts[:j] + [",".join(qq)] + parts[j + 1:]
                            out.append(" ".join(toks[:i] + [":".join(pp)] + toks[i + 1:]))
    return out + int_shrinks(case)


# ---- C16 / engine mw -------------------------------------------------------------------------------
MW_ARITY = {"pass": 2, "tag": 2, "short": 3, "fail": 2, "twice": 2, "issue": 4, "redirect": 2}


def mw_parse(case):
    """case line -> (head tokens, [client middleware], [request middleware], [rows], [ops]) (each a list of token lists)"""
    t = case.split(" ")
    head, i = t[:5], 5
    stacks = []
    for section in ("cmw", "mw"):
        assert t[i] == section
        n, i = int(t[i + 1]), i + 2
        mws = []
        for _ in range(n):
            a = MW_ARITY[t[i]]
            mws.append(t[i:i + a])
            i += a
        stacks.append(mws)
    assert t[i] == "srv"
    n, i = int(t[i + 1]), i + 2
    rows = []
    for _ in range(n):
        nl = int(t[i + 3])
        rows.append(t[i:i + 4 + nl])
        i += 4 + nl
    assert t[i] == "ops"
    n, i = int(t[i + 1]), i + 2
    ops = []
    for _ in range(n):
        if t[i] == "P":
            a = 4 if t[i + 2] == "abs" else 3
        else:
            a = 5 if t[i + 3] == "ok" else 4
        ops.append(t[i:i + a])
        i += a
    assert i == len(t)
    return head, stacks[0], stacks[1], rows, ops


def mw_unparse(head, cmws, mws, rows, ops):
    flat = lambda xs: [y for x in xs for y in x]
    return " ".join(head + ["cmw", str(len(cmws))] + flat(cmws) + ["mw", str(len(mws))] + flat(mws)
                    + ["srv", str(len(rows))] + flat(rows) + ["ops", str(len(ops))] + flat(ops))


def mw_gen(tier, seed):
    return [["gen", seed, 40000 if tier == "quick" else 600000]]


def mw_shape(case, out):
    # distinct = (api, method, kinds of the client stack, kinds of the request stack, #requests seen by the shell (capped),
    #             #enter marks (capped), outcome class)
    try:
        head, cmws, mws, rows, ops = mw_parse(case)
    except Exception:
        return ("unparsed",)
    o = out.split(" out ")[-1].split(" ")
    return (head[0], head[1], tuple(m[0] for m in cmws), tuple(m[0] for m in mws), min(out.count(" R "), 8),
            min(out.count(" E "), 8), " ".join(o[:2]) if o[0] != "ok" and o[0] != "raw" else o[0])


def mw_nontrivial(case, out):
    # non-trivial: at least one middleware is attached (the stacks can make a difference)
    return " cmw 0 mw 0 " not in case


def mw_shrinks(case):
    try:
        head, cmws, mws, rows, ops = mw_parse(case)
    except Exception:
        return []
    out = []

    def stack_variants(st):
        res = []
        for i in range(len(st)):
            res.append(st[:i] + st[i + 1:])
        for i, m in enumerate(st):
            if m[0] == "redirect" and int(m[1]) > 0:
                res.append(st[:i] + [["redirect", str(int(m[1]) - 1)]] + st[i + 1:])
            if m[0] == "issue" and m[3] != "-":
                res.append(st[:i] + [m[:3] + ["-"]] + st[i + 1:])
        return res

    for v in stack_variants(cmws):
        out.append(mw_unparse(head, v, mws, rows, ops))
    for v in stack_variants(mws):
        out.append(mw_unparse(head, cmws, v, rows, ops))
    for i in range(len(rows)):
        out.append(mw_unparse(head, cmws, mws, rows[:i] + rows[i + 1:], ops))
    for i in range(len(ops)):
        out.append(mw_unparse(head, cmws, mws, rows, ops[:i] + ops[i + 1:]))
    for i, r in enumerate(rows):
        if r[2] != "-":
            out.append(mw_unparse(head, cmws, mws, rows[:i] + [r[:2] + ["-"] + r[3:]] + rows[i + 1:], ops))
        if int(r[3]) > 1:
            out.append(mw_unparse(head, cmws, mws, rows[:i] + [r[:3] + [str(int(r[3]) - 1)] + r[5:]] + rows[i + 1:], ops))
    if head[3] != "-":
        out.append(mw_unparse(head[:3] + ["-"] + head[4:], cmws, mws, rows, ops))
    if head[4] != "_":
        out.append(mw_unparse(head[:4] + ["_"], cmws, mws, rows, ops))
    if head[1] != "GET":
        out.append(mw_unparse([head[0], "GET"] + head[2:], cmws, mws, rows, ops))
    return [c for c in out if c != case]


PROPS = {
    "C19": {
        "streams": [Stream("conv", "conv", "conv", conv_gen, nontrivial=conv_nontrivial,
                           shape=conv_shape, shrink=int_shrinks)],
        "rule": "cases = (function, raw field a, raw field b): the full boundary pool (every comparison/cast/checked-op "
                "boundary of the modelled functions ±1, crossed with 10 sub-second boundaries, for each of the 11 "
                "conversions) plus seeded random values (pool, log-uniform, uniform u64/i64, near-pool); non-trivial = "
                "the fields form a value of the source type (outcome not `skip`); distinct = distinct (function, "
                "outcome class, sign+digit-count of each field)",
        "level_text": "Proof: theorem C19_conv_sound states, for all 11 conversion functions of crux_time::protocol and "
                      "all integer inputs (unbounded), that the Lean model of the function is accepted by the exact-integer "
                      "specification S.Conv.ok (representable => converted exactly; unrepresentable => err/panic; never "
                      "wrapped/normalised); corollaries C19_exact, C19_explicit, C19_representable_converted. The model is "
                      "tied to the code by running both on the full boundary pool and seeded random inputs on every run, and "
                      "the specification oracle is also evaluated directly on what the real code returned.",
        "level_note": "Trusted: Lean kernel; axioms propext/Classical.choice/Quot.sound; the hand model M.Conv (checked against "
                      "the real functions on ~30k (quick) / ~2M (thorough) inputs per run incl. every boundary); chrono 0.4.40 "
                      "and std::time accessors modelled as integer functions; Linux SystemTime representation. A count in "
                      "[2^63, 2^64) ns exchanged with chrono is treated as not representable (chrono's nanosecond interface is i64).",
        "assumptions": [
            "SystemTime is the Linux Timespec (tv_sec: i64, tv_nsec < 10^9)",
            "chrono 0.4.40 accessor semantics (from_timestamp range, TimeDelta::new range, num_nanoseconds) as integer "
            "functions; exercised at every boundary by the correspondence check",
            "an Instant with arbitrary fields is obtained the only way a user can: by deserialising it",
        ],
    },
}

PROPS["C17"] = {
    "streams": [Stream("kv", "kv", "kv", kv_gen, nontrivial=kv_nontrivial, shape=kv_shape, shrink=hex_shrinks)],
    "rule": "cases = (API ∈ {capability, command}) × (host ∈ {Core, bincode Bridge}) × (call ∈ get/set/delete/exists/list_keys) "
            "× generated key (empty, 1 char, unicode, control characters, 300 and 70 000 characters), value (empty, 1 byte, binary, "
            "4 KiB, 1 MiB), cursor (0, 1, 2^32±, 2^63-1, 2^64-2, 2^64-1 …) × response (matching kind 60 %, every error variant "
            "20 %, other kind 20 %; none vs empty vs binary values; key lists of 0/1/2/5/40); the real app issues the call, the "
            "harness prints the operation(s) in the effect(s) and the single event payload delivered after resolving; "
            "non-trivial = response kind matches the call or is an error; distinct = distinct (api, host, call, response kind, "
            "result class, length classes of key/value/response payload)",
    "level_text": "Proof: C17_kv_sound (every observation of the model M.Kv — operations emitted and result delivered — is accepted "
                  "by the documented-behaviour specification S.Kv.ok, for every call, argument and response), kv_emits_one, "
                  "kv_args_exact, unwrap_exact, unwrap_mismatch_panics, value_option_bijection, none_ne_empty. The model is one "
                  "function for both APIs and both hosts; that the real capability API, command API, Core and bincode Bridge all "
                  "behave as that one function is what the correspondence check establishes on every run.",
    "level_note": "Trusted: Lean kernel + 3 standard axioms; hand model M.Kv (pure pass-through; checked against the real code on 4k "
                  "(quick) / 150k (thorough) generated calls through both APIs and across the bincode bridge); serde/bincode for "
                  "the wire hop are exercised, not modelled, here (C10 models the codec). A response of a kind other than the "
                  "call's makes the real task panic; the property does not constrain that case and the oracle accepts anything there.",
    "assumptions": ["keys/prefixes/messages are valid UTF-8 (they are Rust Strings); the model treats them as opaque bytes"],
}

PROPS["C16"] = {
    "streams": [Stream("mw", "mw", "mw", mw_gen, nontrivial=mw_nontrivial, shape=mw_shape, shrink=mw_shrinks)],
    "rule": "cases = (API ∈ {capability .send(ev) 5/8, capability .send_async().await 2/8, command API 1/8}) × request (9 methods, "
            "body on POST/PUT/PATCH and 1/6 of the others, 0-2 headers) × middleware stack (length 0-7, for the capability APIs split at a "
            "random point into client middleware — installed through the cfg(crux_verif) hook Http::verif_with_client_middleware — and "
            "per-request middleware; kinds pass, tag "
            "(request-modifying), short-circuit with a canned response, short-circuit with an error, twice (next.run called twice), "
            "issue (extra GET through the inner client, optionally itself with Redirect), the real Redirect::new(n) with n in 0..=5, "
            "up to 3 Redirects per stack, at any position) × server table (0-9 rows: redirect chains from the request URL built from "
            "absolute, relative (z, z/, ./, ../, ../.., ?q, #f, empty, /abs, //host scheme-relative …), unnormalised, non-http and "
            "malformed Locations; loops back into the table; chains longer than the limit; 301/302/303/307/308 and 200/201/204/"
            "300/304/4xx/5xx; missing and repeated Location headers; Location on non-redirect answers; io/timeout errors) × the "
            "url::Url::parse / Url::join results for every (base, Location) a walk over the table can need, precomputed with the real "
            "url crate and re-checked by `run`; a real Core<App> builds the request with the stack through the real builders, the "
            "harness answers each HttpRequest effect from the table and logs marks and requests in one sequence; non-trivial = at "
            "least one middleware attached; distinct = distinct (api, method, kinds of the client stack, kinds of the request stack, "
            "#requests at the shell, #enter marks, outcome class)",
    "level_text": "Proof (21 theorems over the model M.Mw of Next::run, Client::send, Redirect::handle and the three sending APIs; all "
                  "quantify over every stack, every server function Url -> answer, arbitrary parse/join, every attempt limit and "
                  "request): mw_order, mw_order_passThrough (enter c1..cn, enter r1..rm, SHELL, exit rm..c1), endpoint_once, "
                  "endpoint_once_inner_client, endpoint_once_passThrough, endpoint_count (shell reached mult(stack) times for stacks of non-sending middleware), "
                  "endpoint_zero_below_short/_fail, redirect_bounded (probes <= attempts, all body-less copies), redirect_stops, "
                  "redirect_final (+_url), C16_fixed (soundness against the oracle S.Mw.ok for the repaired redirect loop). FULL "
                  "statements refuted from concrete witnesses: redirect_relative false (redirect_relative_false; key "
                  "redirect-relative-base) with redirect_relative_partial (no relative hop after a relative hop) and "
                  "redirect_relative_fixed (full, for the one-line repair); mw_all_apis (mw_all_apis_false; key "
                  "command-api-ignores-middleware) with mw_all_apis_partial; C16_full (C16_full_false, C16_full_false_redirect) "
                  "with C16_partial for the code as it is. Driver/Mw.lean runs the `fixed = false` variant against the code "
                  "(constant repoHasRedirectFix).",
    "level_note": "Trusted: Lean kernel + 3 standard axioms; hand model M.Mw (checked against the real crux_http through a real Core on "
                  "40k (quick) / 600k (thorough) generated cases per run); url::Url::parse/join are opaque (their results for the case "
                  "are supplied by the generator from the real crate and verified again by the harness); http-types Request::clone "
                  "(drops the body) and header map modelled as a list; the middleware kinds are those of harness/src/bin/mw.rs. "
                  "Client middleware can only be installed through the cfg(crux_verif) hook Http::verif_with_client_middleware "
                  "(Client::with is pub(crate) dead code in the public API); the command API has no client at all.",
    "assumptions": [
        "the shell answers as a function of the request URL (stateless server) with a status of the http-types table",
        "header names/values and Location values are ASCII (non-ASCII response headers panic: C15)",
        "middleware behave as one of the seven kinds of the harness (arbitrary user middleware is outside any model)",
    ],
}


# ---- C20 (engine cli) -------------------------------------------------------------------------------------------
CLI_N = {"quick": 20, "thorough": 400}
CLI_FIXTURES = 7          # bridge_echo cat_facts counter hello_world notes simple_counter tap_to_pay
CLI_ORDERS = 120 + 6 + 2 + 1 + 1 + 1 + 1   # 5!, 3!, 2!, 1 … orders of the dependent crates of the seven fixtures (all are run)
CLI_PROTO_TYPES = 18
CLI_SYN = {"quick": 300, "thorough": 5000}   # synthetic crate sets; each gives 4 cases (id, renum, shuf, mix)


def cli_gen(tier, seed):
    return [["gen", seed, CLI_N.get(tier, 20), "all-orders"]]


def cli_proto_gen(tier, seed):
    return [["gen-proto"]]


def cli_syn_gen(tier, seed):
    return [["gen-syn", seed, CLI_SYN.get(tier, 300)]]


def cli_shape(case, out):
    # distinct = distinct (stream, fixture, variant / protocol type)
    return tuple(case.split(" ", 3)[:3])


def cli_nontrivial(case, out):
    # non-trivial: the real CLI produced a registry / a container for the case
    return out.startswith("ok ")


def cli_counts(tier):
    n = CLI_N[tier]
    return (f"{tier}: {CLI_FIXTURES} originals + {CLI_FIXTURES}x{n} renumberings + {CLI_FIXTURES}x{n // 2} map-order shuffles + "
            f"{CLI_FIXTURES}x{n // 2} mixed + {CLI_ORDERS} crate orders = {CLI_FIXTURES * (1 + 2 * n) + CLI_ORDERS} registry cases, "
            f"{CLI_PROTO_TYPES} protocol-type cases, {CLI_SYN[tier]} synthetic crate sets x 4 = {4 * CLI_SYN[tier]} synthetic cases")


PROPS["C20"] = {
    "streams": [Stream("reg", "cli", "cli", cli_gen, nontrivial=cli_nontrivial, shape=cli_shape),
                Stream("proto", "cli", "cli", cli_proto_gen, nontrivial=cli_nontrivial, shape=cli_shape),
                Stream("syn", "cli", "cli", cli_syn_gen, nontrivial=cli_nontrivial, shape=cli_shape)],
    "rule": "stream reg: for each of the 7 bundled rustdoc descriptions (bridge_echo, cat_facts, counter, hello_world, simple_counter, "
            "and notes, tap_to_pay whose stored expectation is stale and is not used) the harness builds variants of the FULL "
            "rustdoc JSON of the crate and of every dependent crate the CLI loads: id = as bundled; renum:<seed> = every item id, "
            "wherever it occurs (values and map keys, found by a schema-agnostic serde pass), sent through a random injective map "
            "per crate (four regimes: permutation of the ids in use / sparse range / whole u32 range incl. 0 and 2^32-1 / the special "
            "ids 0, 1, 2^32-1 swapped onto items of a chosen kind — mostly the summary of a crux crate's type that a local field "
            "refers to — with everything else unchanged); "
            "shuf:<seed> = JSON re-serialised with the keys of every object in random order and re-parsed; mix:<seed> = both plus "
            "a random forced crate order; order:<perm> = the dependent crates loaded in that order (every permutation; the loop of "
            "`run` is replayed with the next crate chosen by the harness). Every case runs the real private `run` twice on freshly "
            "hashed maps (so item/summary/crate visiting orders differ between the two) plus the forced-order loop where one is "
            "given; an observation is printed only if all runs agree (else `nondet`). The case carries the registry the real CLI "
            "gives for the ORIGINAL fixture (the oracle demands equality with it, closedness, contiguous variant indices, "
            "declaration order) and the abstract description of the VARIANT regenerated by the harness, from which the Lean model "
            "M.Codegen.registry computes its registry (diffed with the real one). stream proto: one case per capability protocol "
            "type (crux_http, crux_kv, crux_time, crux_platform, render): container traced by serde-reflection 0.4 from the real "
            "type (as crux_core::typegen does) vs the container of that name in the registry the real CLI derives for a bundled "
            "app using the capability. stream syn (model fidelity beyond what the fixtures exercise; outside the quantifier of "
            "C20, so only invariance and index contiguity are demanded of it): seeded synthetic crux-shaped crate sets (App with "
            "Event/ViewModel/Effect+EffectFfi, operations with outputs, optional nested child app, optional dependent crate) over "
            "random type definitions covering every rename_all rule, rename (single/repeated), skip on fields and variants, with, "
            "tuple structs/variants with holes, unit structs as field types, Option/Vec/tuple nesting, Range, __private_field, "
            "renamed containers, unsupported type expressions (the CLI panics) and unavailable crates (the run fails); each set as "
            "generated and renumbered / shuffled / mixed, the real CLI's observation on the generated set being what each variant "
            "must reproduce. Counts — " + cli_counts("quick") + "; " + cli_counts("thorough") + " (`evaluations` below is the "
            "measured total of the run, `tier` says which line applies). non-trivial = the real CLI produced a registry/container; "
            "distinct = distinct (stream, fixture, variant or protocol type)",
    "level_text": "Proof, all unbounded (any crate descriptions, any edge relation, any renumbering, any order). Whole pipeline of "
                  "the model (filter rules, crate loading loop, formatter): renumber_invariant (FULL: every renumbering injective "
                  "per crate leaves `registry` exactly unchanged), perm_invariant_pipeline (items / summaries / external crates / "
                  "available crates listed in any other order: both runs fail to load, both panic, or the same registry; side "
                  "conditions cratesWF = ids unique per crate + distinct crate names, and no two containers competing for one "
                  "name), crate_order_invariant (every completed run of the loading loop, whichever pending crate it picks at each "
                  "step, loads the same crates and yields the same registry; load_is_a_run). Formatter stage for an ARBITRARY edge "
                  "relation: variant_indices + variant_declaration_order (keys 0..n-1 in declaration order of the non-skipped "
                  "variants; side condition variantsWF), perm_invariant_partial / perm_invariant_registry, renumber_invariant_fmt, "
                  "closed_partial (side condition resolvable), C20_structure_sound (the oracle's structural clauses accept the "
                  "model's registry). Full statements without side conditions are kept as `def … : Prop`; perm_invariant_full and "
                  "closed_full are FALSE for the formatter as written (perm_invariant_full_false: two crates defining one type "
                  "name; closed_full_false: `Request` refers to `Effect` unconditionally) — every side condition is decidable and "
                  "evaluated by the driver on every registry case (an unmet one is reported as `hypothesis-unmet:<name>`). The "
                  "agreement with serde-reflection on the protocol types is checked, not proved.",
    "level_note": "Trusted: Lean kernel + 3 standard axioms; the hand model M.Codegen of mod.rs/filter.rs/formatter.rs/node.rs/item.rs/"
                  "serde/case.rs (tied to the working tree on every run: the harness compiles /repo/crux_cli/src/codegen by path and "
                  "diffs its registry with the model's for every variant); ascent's evaluation as a least fixpoint whose facts "
                  "accumulate over `process` calls; the harness's projection of rustdoc JSON to the abstract description (relevant "
                  "items, summaries and external crates they mention; serde attribute patterns copied from the code) — a wrong "
                  "projection shows as a disagreement because the real CLI always gets the full JSON; serde-reflection's tracer "
                  "(its output is one side of the protocol comparison). The bundled crux_*.json descriptions are snapshots: the "
                  "protocol comparison is between them and the CURRENT real types. Hash-map iteration orders inside the real CLI "
                  "cannot be forced, only re-drawn (two draws per case).",
    "assumptions": [
        "item ids are unique per crate and child id lists are duplicate free (checked on every case; rustdoc's index is a map)",
        "identifiers are ASCII (case conversion of rename_all is modelled on ASCII letters)",
        "a loader that cannot produce a requested crate fails the run (as the repository's test loader does)",
    ],
}
ENGINE_TEXT_C20 = ("the real crux_cli::codegen (private run/Filter/format, compiled from /repo's working tree by path) on bundled rustdoc "
                   "descriptions and their renumbered / re-ordered variants vs M.Codegen (Lean), oracle S.Codegen; serde-reflection "
                   "trace of the real protocol types")

# ---- C14 / C15 (engine http) ------------------------------------------------------------------------------------
def http_req_gen(tier, seed):
    return [["gen-req", seed, 6000 if tier == "quick" else 300000]]


def http_resp_gen(tier, seed):
    if tier == "quick":
        return [["gen-boundary"], ["gen-resp", seed, 8000]]
    return [["gen-status", 0, 65535], ["gen-boundary"], ["gen-resp", seed, 300000]]


def http_req_shape(case, out):
    # distinct = (api, method, kinds of the builder calls in order, outcome class)
    t = case.split(" ")
    kinds = tuple(c.split(":")[0] for c in t[5].split(";")) if len(t) > 5 and t[5] != "_" else ()
    return (t[1], t[2], kinds, out.split(" ")[0])


def http_req_nontrivial(case, out):
    # non-trivial: at least one builder call and the request was built
    t = case.split(" ")
    return len(t) > 5 and t[5] != "_" and out.startswith("req 1")


def _status_class(res):
    p = res.split(":")
    if p[0] == "err":
        return "err-" + p[1]
    s = int(p[1])
    return "s%dxx" % (s // 100) if 100 <= s < 600 else ("low" if s < 100 else "high")


def http_resp_shape(case, out):
    # distinct = (api, expectation, status class or error kind, #headers class, charset fact, decoder facts' kinds, outcome class)
    t = case.split(" ")
    p = t[3].split(":")
    nh = 0 if p[0] == "err" or p[2] == "_" else min(3, len(p[2].split(",")))
    o = out.split(" ")
    return (t[1], t[2], _status_class(t[3]), nh, t[4] != "none", t[5], t[6].split(":")[0], t[7].split(":")[0], " ".join(o[:4] if o[0] == "out" and o[2] == "err" else o[:3]))


def http_resp_nontrivial(case, out):
    # non-trivial: anything but a plain header-less 200 delivered under expect_bytes
    t = case.split(" ")
    return not (t[2] == "bytes" and t[3].startswith("ok:200:_:"))


def http_req_shrinks(case):
    # drop one builder call at a time (the opaque fields of the remaining calls stay valid: they depend on the base URL only)
    t = case.split(" ")
    if len(t) != 6 or t[5] == "_":
        return []
    calls = t[5].split(";")
    out = []
    for i in range(len(calls)):
        rest = calls[:i] + calls[i + 1:]
        out.append(" ".join(t[:5] + [";".join(rest) if rest else "_"]))
    return out


def http_resp_shrinks(case):
    # drop a header / halve the body, then let the harness recompute the opaque decoder facts for the new response
    import subprocess
    from .core import bin_path
    t = case.split(" ")
    if len(t) != 8 or not t[3].startswith("ok:"):
        return []
    _, st, hs, body = t[3].split(":")
    cands = []
    if hs != "_":
        h = hs.split(",")
        for i in range(len(h)):
            rest = h[:i] + h[i + 1:]
            cands.append(f"ok:{st}:{','.join(rest) if rest else '_'}:{body}")
    if body != "-":
        half = body[: (len(body) // 4) * 2] or "-"
        cands += [f"ok:{st}:{hs}:{half}", f"ok:{st}:{hs}:-"]
    out = []
    for c in cands:
        r = subprocess.run([bin_path("http"), "mk-resp", t[1], t[2], c], capture_output=True, text=True).stdout.strip()
        if r and r != "bad-case":
            out.append(r)
    return out


PROPS["C14"] = {
    "streams": [Stream("req", "http", "http", http_req_gen, nontrivial=http_req_nontrivial, shape=http_req_shape,
                       shrink=http_req_shrinks)],
    "rule": "cases = (API ∈ {capability, command}) × method (the nine convenience constructors get…patch, and request(Method, Url) with "
            "each of the 39 methods of http-types) × URL (fixed pool: userinfo, ports, default port, IPv6, IDN host, unicode path/query/"
            "fragment, percent-escapes incl. malformed, dot segments, empty query/fragment, non-special schemes; plus random "
            "compositions) × a list of 0-8 builder calls in any order out of: header(name, values) with names from a mixed-case / "
            "repeated pool (Accept/accept/ACCEPT, Content-Type in three spellings, empty name, random token) and 0, 1, 2 or 5 values "
            "(1 value = the &str form, otherwise &[HeaderValue]; 1/40 non-ASCII = documented panic), content_type(mime) for 15 MIME "
            "spellings, body_string / body_bytes / body_json / body_form and body(String | Vec<u8> | serde_json::Value) with empty, "
            "1-byte, binary, unicode, NUL, 4 KiB and 70 KB contents, random JSON values (u64::MAX, i64::MIN, floats, escapes, nesting) "
            "and form pairs with reserved characters, reader bodies body(Body::from_reader(reader, declared)) — a chain of 1-4 cursors "
            "with chunks of 0 / 1 / 2-61 / 5000 / 70000 bytes (a single read never crosses a chunk boundary) or a reader that returns "
            "one byte per read; declared length None / exact / smaller / larger — query(&pairs); 1 case in 25 has 33-80 header LINES (many "
            "distinct names plus 1-3 multi-valued names with 2-6 distinguishable values, random call order: the lines of one name must "
            "keep their order, which a non-stable sort breaks beyond 32 elements). A real Core<App> executes the script through the real builders; "
            "the harness prints the HttpRequest operation of the effect (headers grouped by name, sorted). Opaque third-party "
            "results (Url::parse().to_string(), Mime::to_string(), URL after serde_qs + Url::set_query) are computed by `gen` from "
            "those crates directly and are part of the case. non-trivial = at least one builder call and a request was built; "
            "distinct = distinct (api, method, sequence of call kinds, outcome class)",
    "level_text": "Proof (12 theorems over M.Http.buildRequest; every method token, URL and every LIST of builder calls, arbitrary byte "
                  "strings, induction over the call list): buildRequest_closed (closed form: one effect, method = upper-cased token, URL "
                  "= result of the last query() else the parsed URL, body = bytes of the last body call, every header name carries exactly "
                  "modelValues), one_effect, method_url_body_exact, headers_exact (last header()/content_type() call on a "
                  "case-insensitively equal name wins with ALL its values in order; content-type from the body otherwise), nothing_added, "
                  "modelValues_eq_expected, C14_sound_partial (okReq accepts the model's observation whenever the content type is not "
                  "stale), stale_content_type_exact (in the defect region the model yields exactly the keyed defect), "
                  "reader_body_exact / reader_chunking_irrelevant / reader_body_complete (a Body::from_reader(reader, declared) arrives as "
                  "the concatenation of the pieces the reader hands out, cut at the declared length if any — for EVERY chunking and "
                  "within any call list; covers the region of the defect repaired by /repo fb3ba05). The FULL statement C14_full is refuted "
                  "(C14_full_false; key stale-content-type: post(u).body_string(\"a\").body_json(&{}) sends `{}` as "
                  "text/plain;charset=utf-8). The model is one function for both APIs; that both real APIs behave as it is what the "
                  "correspondence check establishes on every run; the observation includes the order of the emitted headers (sorted by "
                  "name since /repo cda2127).",
    "level_note": "Trusted: Lean kernel + 3 standard axioms; hand model M.Http (checked against the real crux_http through a real Core on "
                  "6k (quick) / 300k (thorough) generated requests per run + 55 corpus cases); http-types Headers modelled as an "
                  "association list (insert replaces, entry order unobservable — the harness sorts by name), Body MIME table, "
                  "form_urlencoded byte serializer modelled exactly (formEncode); url::Url parsing / set_query, serde_qs, Mime "
                  "parsing/printing and serde_json::to_vec are opaque: their values for the case come from the generator (calling those "
                  "crates directly, never through crux_http). Header names/values outside ASCII panic in http-types (documented); the "
                  "property does not constrain that case. Config::base_url joins (Client::url) are not reachable from either public API "
                  "(no way to configure the client) and are not exercised.",
    "assumptions": [
        "header names and values are ASCII (anything else is the documented panic of http-types, outside the property)",
        "URL text parses (a malformed URL is the documented panic of Http::get & co.)",
        "reader bodies never fail and are always ready (no Pending, no io::Error); a declared length other than the data's is "
        "modelled as http-types defines it (reading stops at the declared length or at the reader's end)",
    ],
}

PROPS["C15"] = {
    "streams": [Stream("resp", "http", "http", http_resp_gen, nontrivial=http_resp_nontrivial, shape=http_resp_shape,
                       shrink=http_resp_shrinks)],
    "rule": "cases = (API ∈ {capability, command}) × expectation (bytes, string, json::<serde_json::Value>, json::<u64>) × result: "
            "HttpResult::Ok with status (thorough: EVERY status 0..=65535 once, exhaustive; quick: the boundary set 0, 1, 99..103, 199, "
            "200, 299, 300, 305, 306, 399, 400, 499, 500, 599, 600, 999, 1000, 65534, 65535 and every entry of the http-types table ±1, "
            "each × both APIs × 4 expectations; random part: 75 % table entries, 12 % boundary set, 13 % other), 0/1/3/7 headers from a "
            "pool with mixed-case and repeated names, several content types and charsets (utf-8, UTF8, quoted, iso-8859-1, euc-kr, "
            "utf-16le, unknown label, unparsable), empty names/values, control characters, 1/12 lists with non-ASCII; bodies per "
            "expectation: valid / invalid UTF-8 (overlong, surrogate, > U+10FFFF, truncated), UTF-8 and UTF-16 byte order marks, "
            "binary, 70 KB, JSON valid / malformed / out of range for u64; half of the expect_string cases are charset-directed: a "
            "content type whose charset is drawn from a pool of 52 labels covering every family of encoding_rs (UTF-8 and aliases, "
            "UTF-16LE/BE and aliases, ISO-2022-JP, the replacement labels iso-2022-kr/cn, hz-gb-2312, single-byte windows-125x / "
            "iso-8859-x / koi8 / mac, shift_jis, euc-jp, euc-kr, gbk, gb18030, big5, x-user-defined, unknown labels; upper-cased, "
            "padded, quoted, in different parameter positions) crossed with 40 body classes (empty, one byte, 7-bit text, BOM-less "
            "UTF-16 text, ESC / shift sequences, high-bit text of each legacy encoding, truncated multi-byte sequences, byte order "
            "marks of this or another encoding, random 7-bit and random bytes), expected string from encoding_rs directly; or HttpResult::Err with every HttpError variant (Url, Io, "
            "Timeout, Json, Http). A real Core<App> issues a GET with the expectation, the harness resolves the effect with the result "
            "and prints the number of events and the single outcome (or the panic class). Opaque decoder facts (charset parameter via "
            "Mime, Encoding::for_label, encoding_rs decode for non-UTF-8, serde_json::from_slice) come from `gen` calling those crates "
            "directly. non-trivial = anything but a header-less 200 under expect_bytes; distinct = distinct (api, expectation, status "
            "class / error kind, header-count class, charset present, decoder fact kinds, outcome class)",
    "level_text": "Proof (20 theorems over M.Http.outcome; every status s : Nat — split symbolically into outside / inside the 59-row "
                  "table, the table evaluated once in validStatus_range — every header list and body by induction, every shell error, "
                  "each expectation): one_outcome (one event, or a panic exactly in the two conversion defects), classify_valid (valid "
                  "status: < 400 success with same status/body and the shell's headers, >= 400 HttpError::Http{status, body}), "
                  "passthrough, expect_bytes_exact, expect_string_utf8 (= String::from_utf8: well-formed UTF-8 unchanged, else an error "
                  "value), expect_string_utf8_standard (well-formed = encoding of a sequence of Unicode scalar values, via "
                  "Lemmas.Utf8.validUtf8_iff for all byte strings), expect_json_param, applyExpect_conforms. The FULL statements are refuted from witnesses: C15_no_panic_false "
                  "(status 0 / 299 / héllo), C15_headers_same_false, C15_full_false. Strongest true restriction: C15_partial (convertible "
                  "results outside the BOM quirk are accepted modulo the injected content type) and C15_sound_nonfinding (errors satisfy "
                  "the unweakened specification); invalid_status_exact, non_ascii_header_exact, content_type_injected_exact, "
                  "utf8_bom_kept_exact prove that in each defect region the model produces exactly the keyed defect "
                  "(invalid-status-panics, non-ascii-header-panics, content-type-injected, utf8-bom-kept-under-other-label).",
    "level_note": "Trusted: Lean kernel + 3 standard axioms; hand model M.Http.outcome (checked against the real crux_http through a real "
                  "Core on ~10k (quick) / ~370k (thorough, incl. all 65536 statuses) results per run + 108 corpus cases); http-types "
                  "StatusCode table (59 rows), Headers append semantics, set_body content-type rule; UTF-8 well-formedness modelled "
                  "exactly (Unicode table 3-7) and compared with encoding_rs/Rust on every run; all other charsets, Mime parameter "
                  "parsing, Encoding::for_label and serde_json decoding are opaque parameters supplied by the generator from the crates "
                  "themselves. The oracle refines a rejection key with `+model-mismatch` unless the observation is exactly what the "
                  "model predicts, so a known finding covers only the modelled defect. Spec choice: under a UTF-8 label a leading UTF-8 "
                  "byte order mark is kept (String::from_utf8 semantics, DESIGN §5-C15), although encoding_rs' decode would strip it.",
    "assumptions": [
        "HttpError::Http / Json can reach the core only in-process (serde(skip)); they are passed through like the wire variants",
        "the panic class is read from the panic message (`StatusCode` / `valid ASCII`)",
        "body expectations other than bytes/string/json::<Value>/json::<u64> (e.g. user structs) behave as serde_json decides (opaque)",
    ],
}


# ---------------------------------------------------------------------------------------------- C10 (engine codec)
def codec_gen(tier, seed):
    if tier == "quick":
        return [["gen-fixed"], ["gen", seed, 12000]]
    return [["gen-fixed"], ["gen", seed, 60000], ["gen", seed + 1, 60000]]


def _codec_head(case):
    # kind, root and the payload's head (variant name of a value / length class of bytes)
    toks = case.split(" ", 2)
    kind, root = toks[0], toks[1]
    rest = toks[2] if len(toks) > 2 else ""
    return kind, root, rest


def codec_shape(case, out):
    # distinct = (kind, root, outcome, top-level variant of the value written / accepted, length class of the bytes)
    kind, root, _ = _codec_head(case)
    o = out.split(" ")
    cls = o[0]
    if cls == "wrote":
        hexs, val = o[1], " ".join(o[2:])
    elif cls == "accepted":
        hexs, val = o[-2], " ".join(o[1:-2])
    else:
        hexs, val = "-", ""
    variant = val[2:].split(" ")[0].rstrip(")") if val.startswith("(#") else ("seq" if val.startswith("[") else "")
    return (kind, root, cls, variant, lenclass(hexs), o[-1] if cls == "accepted" else "")


def codec_nontrivial(case, out):
    # non-trivial: at least one byte crosses the bridge (unit structs / empty inputs are trivial), no harness-side refusal
    o = out.split(" ")
    if o[0] in ("bad-case", "panic", "unbuildable"):
        return False
    if o[0] == "wrote":
        return o[1] != "-"
    if o[0] == "accepted":
        return o[-2] != "-"
    return not case.split(" ")[3:4] == ["-"]


PROPS["C10"] = {
    "streams": [Stream("codec", "codec", "codec", codec_gen, nontrivial=codec_nontrivial, shape=codec_shape)],
    "rule": "the registries are traced on every run by TypeGen::register_app for two harness apps (A: #[effect(typegen)], Event/ViewModel "
            "with unit/newtype/tuple/struct variants, every integer width, f32/f64, char, bool, strings, serde_bytes, nested options, "
            "vecs, BTreeMap, arrays, tuples, unit/newtype/tuple structs, recursive enums, and the protocol types of render, http, kv, "
            "time, platform; B: #[derive(Effect, Export)] capabilities with skipped internal events; C: types holding a multi-variant enum "
            "that is nested and NOT registered on its own — one `typegen` case asks whether the type generator hands out a schema for it: "
            "it must refuse (typegen-refused), and if it does not, app C's types and bridge outputs are checked like the others); the "
            "registry is taken through the real TypeGen::ensure_registry (by calling TypeGen::java into a scratch directory); every container of the registries "
            "is a root (35 roots incl. Vec<Request<EffectFfi>>), the harness refuses to run if a traced container has no Rust type. Per "
            "root: `val` = Rust values from hand-written generators (every variant round-robin, lengths 0/1/2/many, strings incl. NUL, "
            "4-byte UTF-8, 300+ chars, bytes incl. all 256 values and 1-4 KiB, integer boundaries min/max/+-1/0, NaN/inf/-0/subnormal "
            "floats, nested options) rebuilt by variant NAME through Deserialize, serialised with the bridge's bincode options and read "
            "back; `strict` = encodings built from the traced registry alone (every variant of every enum, boundary integers, lengths "
            "0/1/many) given to the real bincode deserialiser of the Rust type and re-serialised, plus the same values as `val`; `any` = "
            "those encodings mutated (trailing bytes, truncation, bit flips, tag/length bytes set to boundary values, random bytes; not "
            "for roots containing a map), every Event / HttpResult case ALSO offered to the real Bridge::process_event / "
            "Bridge::handle_response (to an outstanding request) under catch_unwind: the bridge must accept exactly what the decoder "
            "accepts and never panic (key *-bridge-entry-*); `big` = two schema-valid events of 1.5 MiB and 5 MiB built by the harness "
            "and offered to the real bridge (the model accepts every size: dec_enc is unbounded); (`any` is not generated "
            "for roots containing a map); `strict` also = every byte string Bridge::process_event / handle_response / view returned for "
            "generated histories of the apps (events and responses encoded from the schema, as a shell does; including events and "
            "responses whose update asks for no effect at all, where the bridge must still return the 8-byte encoding of an empty request list). non-trivial = at least one "
            "byte is written / accepted or a non-empty input is rejected; distinct = distinct (kind, root, outcome, top-level variant, "
            "length class, trailing flag)",
    "level_text": "Proof: for EVERY registry, format, value and byte string (no bound): dec_enc (a well-typed value's encoding, followed "
                  "by anything, decodes to that value and leaves exactly the rest; fuel = nesting depth suffices), enc_dec (whatever the "
                  "schema-driven decoder accepts is the canonical encoding of a well-typed value: re-encoding reproduces the consumed "
                  "bytes), dec_iff (the two combined: accepted as (v, rest) iff v well-typed and bytes = enc v ++ rest), enc_prefix_free / enc_injective, dec_fuel_irrelevant, dec_total_bounded / str_len_checked / seq_len_bounded, "
                  "C10_oracle_sound (the specification oracle accepts every observation of the model). All formats are covered (unit, "
                  "bool, i8..u128, f32/f64, char, str with UTF-8 validity, bytes, option, seq, map, tuple, array) and all container "
                  "kinds (unit/newtype/tuple/named struct, enum with unit/newtype/tuple/struct variants), including recursive registries. "
                  "Whether serde's derive output for a Rust type writes enc v for the v the traced schema assigns to it is checked "
                  "empirically on every run on the registry traced from the working tree. One way it does not is modelled and proved: "
                  "derive_indices_agree_iff, C10_full_false (witness: skipped variants declared first, as crux_http::HttpError was before "
                  "fix ed5c427, shift the numbers Serialize writes), C10_partial; typegen_oracle_sound (the model of when typegen must refuse).",
    "level_note": "Trusted: Lean kernel + 3 standard axioms; serde-reflection's tracing (its output, regenerated from the source on every "
                  "run, is the input of the theorems); the hand model M.Bincode of bincode 1.3.3 with the bridge's options and the "
                  "universal value (checked against the real serde derive + bincode on ~12k (quick) / ~120k (thorough) cases per run over "
                  "every registered type, both directions, incl. malformed inputs); the harness's generic Serialize->value printer and "
                  "value->Deserialize builder (each checked against the other on every `val` case). dec takes fuel for container lookups "
                  "(a registry may be cyclic); the driver uses (input length + 1) * (registry size + 1). Maps are sequences of pairs on "
                  "the wire; key order / uniqueness belong to the Rust map type, so generated maps are in key order. C10_full is about "
                  "derive's variant numbering only; it is false in general (witness: HttpError's former declaration order; fixed in /repo by ed5c427, "
                  "a recurrence would be keyed <enum>-skip-index).",
    "assumptions": [
        "64-bit target: usize is written as u64",
        "the registry is the one Tracer::registry() returns for register_app (+ register_type for nested enums, as a build.rs must)",
        "f32/f64 are compared as bit patterns",
    ],
    "stated_not_proved": [],
}

# ---------------------------------------------------------------- rt engine (runtime properties)
import re as _re


def _sexp_parse(s):
    toks = _re.findall(r"\(|\)|[^\s()]+", s)
    stack, cur = [], []
    for t in toks:
        if t == "(":
            stack.append(cur)
            cur = []
        elif t == ")":
            parent = stack.pop()
            parent.append(cur)
            cur = parent
        else:
            cur.append(t)
    return cur[0] if cur else None


def _sexp_str(x):
    return x if isinstance(x, str) else "(" + " ".join(_sexp_str(y) for y in x) + ")"


_CMD_HEADS = {"event", "notify", "req", "stream", "chain", "then", "and", "all", "mapef", "mapev", "task", "abortable"}


def sexp_shrinks(case, limit=400):
    """smaller cases: delete one element of some list, or replace a command form by `done`"""
    root = _sexp_parse(case)
    out = []

    def paths(x, path):
        if isinstance(x, list):
            yield path, x
            for i, y in enumerate(x):
                yield from paths(y, path + [i])

    def replace(x, path, f):
        if not path:
            return f(x)
        y = list(x)
        y[path[0]] = replace(x[path[0]], path[1:], f)
        return y

    for path, node in paths(root, []):
        start = 1 if node and isinstance(node[0], str) else 0
        for i in range(len(node) - 1, start - 1, -1):
            if not path and i < 3 and not isinstance(node[i], list):
                continue
            cand = replace(root, path, lambda n, i=i: n[:i] + n[i + 1:])
            out.append(_sexp_str(cand))
        if path and node and isinstance(node[0], str) and node[0] in _CMD_HEADS and len(path) >= 1:
            out.append(_sexp_str(replace(root, path, lambda n: "done")))
        if len(out) > limit:
            break
    return out[:limit]


def rt_gen(profiles, quick_n, thorough_n):
    def gen(tier, seed):
        # "search" = the budget used to look for a failing input after a correspondence break in the quick tier
        n = quick_n if tier == "quick" else 4 * quick_n if tier == "search" else thorough_n
        return [["gen", seed + i, max(1, n // len(profiles)), p] for i, p in enumerate(profiles)]
    return gen


def rt_shape(case, out):
    heads = tuple(sorted(set(_re.findall(r"\((\w[\w-]*)", case))))
    steps = out.split(" || ")[0].split(" | ")
    classes = tuple(sorted({st.split(" ")[0] for st in steps}))
    return (heads, len(steps), classes)


def rt_nontrivial(case, out):
    # non-trivial: at least one request was handed to the shell and at least one shell action was accepted
    return _re.search(r"E[\[{][^\]}]", out) is not None and (" ok " in out or out.startswith("ok ") or "A: " in out or "D: " in out)


def rt_stream(pid, profiles, quick_n=24000, thorough_n=600000):
    return Stream("rt", "rt", "rt-" + pid, rt_gen(profiles, quick_n, thorough_n), nontrivial=rt_nontrivial,
                  shape=rt_shape, shrink=sexp_shrinks)


RT_RULE = ("cases = (host, DSL program, shell history), generated from the DSL grammar by a size-bounded recursive generator "
           "seeded from VERIF_SEED (profiles: %s); programs mix primitives, builder chains, then/and/all/map_effect/map_event, "
           "async tasks with spawn/join/select/await/abort/self-wake, abort handles, legacy capability tasks; histories mix "
           "resolve (unique payloads, look-alike operations), repeated and late resolves, drops, aborts, events, raw (malformed) "
           "bytes; every case runs on the real crux_core through the public API and on the Lean model M.Rt/M.Hosts, the two "
           "observation lines must be string-equal, and the property oracle is evaluated on the implementation's line; "
           "non-trivial = at least one effect reached the shell and at least one shell action was accepted; distinct = distinct "
           "(set of DSL constructs and actions used, number of steps, set of result classes)")
RT_NOTE = ("Trusted: Lean kernel + propext/Classical.choice/Quot.sound; the hand model M.Rt (open-recursion interpreter of the "
           "executor, wakers, eviction by waker count, hosting, Core::process, registry) — tied to /repo by this run's "
           "correspondence (exact string equality of per-step observations incl. effect order, ids, task counts, queue lengths via "
           "the crux_verif hooks); the Rust DSL interpreter in harness/src/dsl.rs (that `(join a b)` is futures::join! etc.); "
           "futures-channel mpsc, AtomicWaker, crossbeam channels, slab modelled (sub-models in M.Rt/M.Slab, exercised through "
           "the real code). Theorems are partial-correctness statements (\"if the call returns\": the model's loops take fuel). "
           "Statements kept as `def …_goal : Prop` are NOT proved and are listed in the evidence under stated_not_proved.")


def rt_prop(pid, profiles, level_text, goals=(), quick_n=24000, thorough_n=600000):
    PROPS[pid] = {
        "streams": [rt_stream(pid, profiles, quick_n, thorough_n)],
        "rule": RT_RULE % ", ".join(profiles),
        "level_text": level_text,
        "level_note": RT_NOTE,
        "stated_not_proved": list(goals),
        "assumptions": ["single caller (no concurrency: see C08)", "user programs terminate (fuel-bounded model; partial correctness)"],
    }


rt_prop("C01", ["core", "bridge", "hosts"],
        "Proof (Props/C01.lean): when Core::process / process_event returns, the request channel has been handed over completely and "
        "emptied, no emitted event is unapplied, the executor has no runnable or unspawned task (C01_core_quiescent, "
        "C01_handed_over_once, C01_run_all_drains); run_until_settled leaves any non-aborted command with empty ready and spawn "
        "queues for ANY task behaviour (C01_command_settled); poll_next reports end/pending only with nothing queued. NO LOST "
        "WAKE-UP over whole runs (core_call_quiescent_flat, process_quiescent_flat, wake_takes_and_queues; scheduling invariant QI, "
        "Lemmas/Q*.lean): for every app whose update returns commands without combinators (any task program with spawn, join!, "
        "select!, streams, hand-offs, join/abort handles, builder chains) plus host-free legacy capability tasks, after every "
        "history of events, resolutions, drops, aborts and probes, every further call returns only when the executor's queues are "
        "empty and no live un-aborted command has a ready task, an unstarted spawned task, or a queued effect or event — every "
        "live command is armed with the root waker of its executor task or that task is queued, and every wake takes the waker "
        "and queues the task. The nested "
        "instance over commands hosted by other commands is stated (C01_nested_quiescent_goal) but not proved; it is covered by the correspondence "
        "(queue-length hooks, no-op probe after every call) and the oracle clauses effect-deferred-to-later-call / not-quiescent-after-call. DIRECT HOST, whole runs (direct_observation_quiescent_and_armed, taking_a_waker_wakes_its_task): for every simpleS task program, after every history, when the observation has returned the ready queue is empty and every stored task has its own waker registered in a channel whose sender the shell still holds — the resolve or drop of that request wakes that task (invariants GInv, LQ, CS of C07).",
        goals=["C01_nested_quiescent_goal"])
rt_prop("C02", ["task", "core", "bridge", "comb"],
        "Proof (Props/C02.lean): Resolve arities on the model of core/resolve.rs — never_rejected, once_accepts_one, "
        "once_second_rejected (second resolve = error, world unchanged), many_until_consumer_gone (ok iff consumer alive, else "
        "FinishedMany and nothing changes), delivered_unchanged_in_order (the value is appended unchanged to the request's own "
        "channel), delivery_channel_private (fresh channel per request), serialized_agrees (bridge path = decode then resolve). "
        "END TO END for one request (with the parking invariant K2 of C07): response_reaches_exactly_the_asker — resolving the "
        "request a task is parked at is accepted, puts exactly the value into that request's channel, touches NO other channel, "
        "wakes exactly the asking task's waker, and the task's next poll continues with the value bound; "
        "stream_item_reaches_exactly_the_consumer, stream_items_consumed_in_order. NO ALIASING through a poll (Lemmas/Refs*.lean, "
        "induction over the poll, any fuel and world): poll_keeps_channels_unshared — if every request channel is referenced at most "
        "once by a host-free block and its spawn queue before a poll, so it is afterwards, including requests created and tasks "
        "spawned during the poll; poll_never_adopts_foreign_channel — a poll never makes a task wait on an existing channel it did "
        "not already wait on. OVER WHOLE RUNS: channels_unshared_over_runs (global invariant `GOwn` = hosting order HL + the "
        "measure G, Lemmas/G*.lean + HostLt*.lean) — for EVERY command with host-free task bodies, any nesting of then / and / "
        "all / map_effect / map_event / abortable / builder chains, held directly by a test, and every history of resolutions, "
        "drops, aborts and polls: summed over ALL commands of the world (hosts, hosted commands at any depth, task slabs and "
        "spawn queues) every request channel is referenced by at most one suspended or queued task and no task references a "
        "non-existent channel; commands_never_share_a_channel (two different commands never both reference one channel); "
        "channels_unshared_over_runs_partial is the earlier single-command form (invariant `Own`). UNDER THE CORE HOST: "
        "channels_unshared_under_core (invariant `CInv`, Lemmas/XFrame, CoreFrame, GCore, GCoreHosts) — for every app whose commands "
        "have host-free task bodies and whose legacy capability tasks are host-free, after every history of events, resolutions, "
        "drops, aborts and probes the same bound holds summed over all commands, the QueuingExecutor's legacy tasks and its spawn "
        "queue. Not proved: the same invariant under the Bridge host (registry around the same Core). The "
        "whole-run uniqueness of delivery is covered by the correspondence (unique payloads, equal operations, every resolve result "
        "class compared) — oracle keys resolve-result-differs / delivery-differs.")
rt_prop("C03", ["core", "bridge"],
        "Proof (Props/C03.lean): update applies exactly one event (update_applies_one); running tasks never touches the model "
        "(tasks_do_not_touch_model); the event loop only appends to the log and applies the head of the FIFO channel next "
        "(events_fifo_once, emission_fifo); at return every emitted event has been applied (all_applied_at_return). THROUGH A WHOLE "
        "CALL, for every app, world and fuel: history_append_only — the history log ++ channel only ever grows at its END (update "
        "moves the head of the channel to the end of the log; every emission, by the CommandSpawner or by a legacy task at any "
        "point of its poll, appends), so nothing applied or waiting is lost, duplicated or reordered; "
        "waiting_events_applied_first_in_order, shell_event_applied_first; OVER WHOLE RUNS: channel_empty_between_calls, "
        "applied_events_never_revised (Lemmas/EvOrder.lean). Re-entrancy is "
        "structural in the model and monitored on the implementation by a flag in the harness app (oracle key reentrant-update).")
rt_prop("C04", ["comb", "task", "law", "comm"],
        "Proof (Props/C04.lean) on the reference semantics M.Rt: then = host first, then host second, and a block moves past `host c` "
        "only when c reported end of stream, which happens only when c is done (then_is_sequential_hosting, then_sequencing, "
        "host_ends_only_when_done); hosting forwards every output exactly once after the mapping (host_forwards_each_once); "
        "map_effect/map_event transform exactly their kind (map_effect_exact, map_event_exact, map_identity); and/all = one hosting "
        "task per part; builder chains are sequential code feeding each output to the next stage once (chain_*). The algebraic laws as "
        "whole-interaction equivalences are stated (laws_goal), not proved; they are checked metamorphically on the implementation and "
        "the model on every run (`law`, `comm` cases; oracle key law-violated).",
        goals=["laws_goal"])
rt_prop("C05", ["hosts", "law"],
        "Proof (Props/C05.lean): wake_reaches_root — waking a task of a command nested at ANY depth re-queues every hosting task on "
        "the chain and puts the executor task on the executor's ready queue (induction over the hosting chain); poll_next registers "
        "the host's waker before running tasks; dropping a request wakes like resolving it; the bridge is the core plus ids "
        "(bridge_is_core_plus_ids). Host invariance as whole-interaction equivalence is stated (host_invariance_goal), not proved; it "
        "is checked on every run by executing each program under direct / Core / bincode Bridge / JSON Bridge hosts and under random "
        "wrapper stacks and comparing per-step multisets pairwise on the implementation (oracle key host-dependent).",
        goals=["host_invariance_goal"])
rt_prop("C06", ["cancel", "task", "bcancel"],
        "Proof (Props/C06.lean): an aborted task is reported completed without being polled and nothing changes (task_abort_final); "
        "an aborted command drops all tasks without calling the task layer at all and is done as soon as its queues are empty "
        "(abort_drops_all_tasks, abort_polls_nothing, abort_done); a late resolve of cancelled work is rejected (stream) or accepted "
        "and discarded (one-shot) without touching the consumer's channel, never a panic outcome (late_resolve_inert); a dropped "
        "request cannot be resolved (dropped_request_unresolvable). CONTAINMENT (global invariant over every history of the direct "
        "host of any command with any nesting of combinators, Lemmas/HostLt*.lean: hosted commands have smaller indices than "
        "their hosts): hosting_ordered_over_runs; run_is_contained — settling command c, whatever its tasks host, run, cancel, "
        "abort or drop recursively, leaves the task slab and spawn queue of every command above c (its host, the host's host …) "
        "untouched; drop_is_contained; poll_keeps_own_slab; hosting_ordered_under_core (the same invariant in every state a Core "
        "reaches: QueuingExecutor, CommandSpawner, legacy tasks, update, event loop, shell operations — invariant CInv); "
        "command_never_writes_core_queues (nothing inside a command, at any depth, writes the Core's spawn queue, effect channel "
        "or event channel); sibling_commands_unaffected_flat (for commands without combinators: whatever polling command c does — "
        "running tasks, processing its abort, cancelling, evicting, aborting others by name — every other command keeps exactly its "
        "task slab, spawn queue, queued effects and events, liveness and abort cell; its ready queue changes only together with a "
        "wake-up), abort_only_flags_and_wakes; running_a_command_never_strands_others (Lemmas/GParkCore.lean: in a world of "
        "commands without combinators with channel ownership, settling one un-aborted command keeps every stored task of every "
        "OTHER live command queued, aborted or live-parked at registrations of its own waker — the executor loop invariant "
        "RunInv, satisfiable by RunInv_nonvacuous). Non-interference with siblings in terms of outputs is stated "
        "(siblings_unaffected_goal), covered by the `cancel` profile of the correspondence.",
        goals=["siblings_unaffected_goal"])
def _add_ext_stream():
    def gen(tier, seed):
        return [["gen", seed, 2000 if tier == "quick" else 60000, "ext"]]
    PROPS["C07"]["streams"].append(Stream("ext", "rt", "rt-C07", gen, nontrivial=rt_nontrivial, shape=rt_shape,
                                          shrink=sexp_shrinks, compare_model=False))
    def gen2(tier, seed):
        return [["gen", seed, 6000 if tier == "quick" else 300000, "complete"]]
    PROPS["C07"]["streams"].append(Stream("complete", "rt", "rt-C07", gen2, nontrivial=rt_nontrivial, shape=rt_shape,
                                          shrink=sexp_shrinks))
    PROPS["C07"]["rule"] += ("; complete stream: the same completeness clause on the MODELLED fragment (task programs and "
                             "combinators of the DSL, a third of them built around a request future that is polled once and then "
                             "moved to another task), any history, then every request dropped twice over and a final poll; these cases are ALSO compared with "
                             "the model line by line (kind `complete`), so the known finding covers only failures the model reproduces")
    PROPS["C07"]["rule"] += ("; ext stream (no exact model): builder chains in which a stream stage follows a stream "
                             "(StreamBuilder::then_stream = flatten_unordered, incl. follow-up streams that start with a request), alone "
                             "and under then/all/map_event, histories ending with every request dropped; the oracle tracks from the "
                             "implementation's own line which requests are still resolvable and demands is_done() once none is")


rt_prop("C07", ["task", "cancel", "comb"],
        "Proof (Props/C07.lean): a task is evicted only if its poll was pending, its waker was not woken during the poll and no clone "
        "of it survives anywhere (evict_only_if_unreachable, held_task_never_discarded); done iff no task, no effect, no event "
        "(done_iff); a host sees end-of-stream exactly when the command is done (host_sees_done_exactly). SOUNDNESS of eviction is "
        "proved semantically (evict_sound, evict_sound_runTask, poll_parks; invariant K2 in Lemmas/K2*.lean, by induction on the poll "
        "for every fuel, world and nesting): one poll of a task block without hosted commands leaves the polling waker registered at "
        "every request / stream leaf, join-handle queue or self-wake it is suspended at, so a task that run_task discards is "
        "suspended only at requests whose channel has closed (deadOnlyB). evict_sound_reachable / stored_blocks_well_formed: the "
        "well-formedness hypothesis of evict_sound is discharged over whole runs by the GLOBAL INVARIANT WFw (Lemmas/RFrame, RPoll, "
        "RExec, RRun: every leaf id and join-handle id mentioned by any stored or queued task of any command exists — through one "
        "poll of ANY block, also blocks hosting commands, by a single grind call over pollBlock, then executor, knot, command "
        "building, shell): for ANY command under the direct host after ANY history, a host-free task that run_task discards was "
        "dead; evict_sound_reachable_core / _bridge: the same in every state of a Core running ANY app and behind the Bridge "
        "(invariant WFC: commands' tasks, the executor's legacy tasks and its spawn queue in range; Lemmas/RCore.lean), "
        "serials_fresh_bridge. NO STRANDED TASK over whole runs — stored_task_queued_or_parked, settled_tasks_are_parked (global invariant GInv, "
        "Lemmas/PFrame, WPoll, Park, GPark): for every host-free task program under the direct host after every history, every "
        "task in the slab is on the ready queue, aborted through its join handle, or LIVE-PARKED — the waker of its last poll is "
        "registered at every request leaf, stream leaf and join-handle queue it is suspended at; the proof combines K2 (the polled "
        "task parks itself), poll_keeps_others_parked (a poll leaves every leaf it does not reference untouched and only appends to "
        "join queues and ready queues — frames by grind — plus channel ownership from C02), woken_means_queued (every waker with "
        "the poll's serial is the poll's own, so a `woken` flag implies the task id was pushed — plus freshness) and WFw, through "
        "run_task, finishing with join-handle wake-ups, spawning, settling and the shell's resolve / drop / abort (taking a "
        "leaf's waker wakes exactly the task parked there). COMPLETENESS, one-request case "
        "(evict_complete_dropped_request_partial): a task suspended at a one-shot request whose Request was dropped is discarded by "
        "its next poll (fresh waker serial, task not aborted); evict_complete_dropped_request_reachable — the same in every world the "
        "direct host of any command reaches after any history, without the freshness hypothesis, by the GLOBAL INVARIANT "
        "serials_fresh_direct / serials_fresh_core (Lemmas/Fresh*.lean: every operation of the model, every poll incl. hosted "
        "commands at every nesting depth, the executor loops, command building, the shell's operations, the Core's executor and "
        "event loop preserve `every waker serial in the world is below nextSerial`; so the serial a poll gets is held by "
        "nothing, and World.holders models Arc::strong_count of THAT poll's waker). COMPLETENESS OVER WHOLE COMMANDS IS FALSE, on the "
        "model and on the code: evict_complete_anywhere_false / completeness_fails_with_handoff (kernel-evaluated witness, found while "
        "trying to prove the goal): a task that polls a request future once and then moves it to a spawned task, while it stays "
        "pending on a request the shell dropped, is kept by run_task (a clone of its waker sits in the moved request's channel) "
        "and stranded when the new owner's poll replaces that registration — never polled, never evicted, is_done() false after "
        "every request is resolved or dropped. Replayed on the implementation: known finding "
        "handed-off-request-strands-first-poller (corpus + `complete` stream). THE PROVABLE HALF of completeness — "
        "registered_waker_means_live_sender (global invariant LQ, Lemmas/LQ.lean: over every history of the direct host of any "
        "host-free task program, a channel in which a waker is registered still has its sender; one grind call over pollBlock, "
        "then the executor and the shell), all_requests_gone_leaves_only_dead_waits (GInv + LQ: once the command is settled and "
        "every channel is closed, every task still stored is suspended only at requests it has already seen closed, at join "
        "handles or hosted commands — exactly what run_task evicts WHEN it polls it; the stranded task of the witness is one: "
        "kernel-evaluated example) and task_waiting_at_request_has_live_sender (a stored task that still waits at a request names "
        "a channel the shell can still answer). COMPLETENESS PROVED for tasks that wait only on shell requests — "
        "simple_command_done_when_all_requests_gone: for every SIMPLE task program (emit, notify, request, stream, spawn, join, "
        "self-wake in any nesting; no select, no handed-off request future, no join / abort handles, no hosted commands) under "
        "the direct host, after EVERY history that leaves every channel closed, no task remains (no other hypothesis: NAb — nothing is ever aborted — and runDirect_ready — every observation leaves the ready queue empty — discharge the side conditions) "
        "(invariants GInv + LQ + SPc + ND, Lemmas/Simple, NoReg, Complete: the poll that leaves a simple task suspended only at "
        "closed requests registers its waker nowhere — NRGood, one grind call — so run_task evicts it unless that poll woke it: "
        "dead_simple_task_is_evicted_or_queued). AND WITH SELECT — command_with_select_done_when_all_requests_gone: the same for simpleS "
        "programs (simple + select in any nesting). A completed select leaves its losing branch's registrations behind, so a task "
        "can stay Suspended at closed requests only, held by a stale registration at a live channel (kernel-evaluated example); "
        "invariants NDS (such a task is queued or some channel holds a waker of it), WOwn (a channel a stored task references holds "
        "only that task's wakers: no other poll overwrites a stale registration), take_wake_stale (who takes a waker wakes it), "
        "Lemmas/SimpleS, CompleteS: four more grind frames, bundle CS through the executor, the shell and the direct host. "
        "For the rest of the handoff-free fragment (join handles) completeness is stated "
        "(evict_complete_handoff_free_goal; no counterexample in the `complete` stream) and not proved. It is also FALSE on the "
        "real code outside the modelled fragment: a task that retains a clone of its own waker (FuturesUnordered / "
        "flatten_unordered behind StreamBuilder::then_stream on a stream) and then waits on a dropped one-shot request is never evicted "
        "— known finding retaining-combinator-never-evicted, exhibited on every run by the ext stream (public builder API, oracle "
        "clause evaluated on the implementation alone).",
        goals=["evict_complete_handoff_free_goal"])
_add_ext_stream()


def _add_fanout_stream():
    def gen(tier, seed):
        return [["gen", seed, 600 if tier == "quick" else 20000, "fanout"]]
    PROPS["C04"]["streams"].append(Stream("fanout", "rt", "rt-C04", gen, nontrivial=rt_nontrivial, shape=rt_shape,
                                          shrink=sexp_shrinks, compare_model=False))
    PROPS["C04"]["rule"] += ("; fanout stream (no exact model: flatten_unordered): stream(a).then_stream(|x| stream(b)) with 9-24 "
                             "items delivered on the outer stream while the inner streams stay open — every accepted item must "
                             "start exactly one inner stream in that step (key inner-stream-not-started)")


_add_fanout_stream()
rt_prop("C09", ["bridge", "hosts"],
        "Proof (Props/C09.lean): the bridge simulates the typed core step by step — event (bridge_simulates_core_event) and response "
        "(bridge_simulates_core_response): decoded requests = core effects in order, same core state; ids of a batch are pairwise "
        "distinct, were not in use, and address the resolve of their effect (ids_fresh_and_distinct); an outstanding id is never "
        "reused nor disturbed (outstanding_id_not_reused); resume routes to exactly the addressed entry and touches no other "
        "(resume_routes_exactly); the registry invariant holds in every reachable state (registry_wf_invariant). THE BRIDGE IS A "
        "REGISTRY AROUND THE SAME CORE (bridge_preserves_core_invariants, Lemmas/BridgeInv.lean): every Core invariant preserved by "
        "process_event, process, resolve, sender drop and abort holds in every state the Bridge reaches after every history of "
        "events, raw events, responses, raw responses, stale/unknown ids, aborts and probes; instances bridge_core_owns_channels "
        "(hosting order + channel ownership of C06/C02) and bridge_core_quiescent_flat (the scheduling invariant of C01). Ids and registry "
        "content are compared exactly with the implementation on every run (bincode and JSON bridges).")
rt_prop("C12", ["malformed", "bridge"],
        "Proof (Props/C12.lean): a rejected event leaves the bridge exactly as it was (rejected_event_inert); a rejected response to a "
        "stream request changes nothing (rejected_response_stream_inert); to a one-shot request it consumes that request only — entry "
        "removed, channel closed, every other entry untouched, core not run (rejected_response_local); a response to an outstanding "
        "request never panics in the model (outstanding_never_panics); the wire decoders read a bounded prefix (decode_bounded). "
        "Panics / hangs of the real code are bounded empirically: every case runs under catch_unwind; malformed bytes (truncations, "
        "extensions, bit flips, random, empty, JSON fragments) are injected at every position of generated histories.")
def _add_c09_codec_stream():
    def gen(tier, seed):
        return [["gen-fixed"]] + ([] if tier == "quick" else [["gen", seed + 11, 20000]])
    PROPS["C09"]["streams"].append(Stream("codec", "codec", "codec", gen, nontrivial=codec_nontrivial, shape=codec_shape))
    PROPS["C09"]["rule"] += ("; codec stream (fixed cases of the codec engine): schema-valid events of 1.5 MiB and 5 MiB and one value per "
                             "protocol variant offered to the REAL bincode Bridge (Bridge::process_event / handle_response): the bridge must "
                             "accept what the typed core's decoder accepts, whatever the size (key *-large-valid-message-not-accepted)")


_add_c09_codec_stream()


def _add_c12_codec_stream():
    def gen(tier, seed):
        return [["gen-fixed"], ["gen", seed + 7, 8000 if tier == "quick" else 60000]]
    PROPS["C12"]["streams"].append(Stream("codec", "codec", "codec", gen, nontrivial=codec_nontrivial, shape=codec_shape))
    PROPS["C12"]["rule"] += ("; codec stream: schema-derived encodings of the events and HTTP results of a typed app and mutations of "
                             "them (truncated, extended, bit flips, 8-byte windows overwritten with boundary lengths up to 2^63 and "
                             "u64::MAX) offered to the REAL entry points of the bincode bridge — Bridge::process_event, and "
                             "Bridge::handle_response to an outstanding request — under catch_unwind: the bridge must accept exactly "
                             "what the decoder of the type accepts (model M.Codec) and never panic (key *-bridge-entry-*)")


_add_c12_codec_stream()
rt_prop("C13", ["bridge", "core", "cancel"],
        "Proof (Props/C13.lean): finished/cancelled tasks free their slab slot (finished_task_slot_freed), completed executor tasks "
        "free theirs (completed_exec_task_freed), an aborted command holds no task once looked at "
        "(aborted_command_releases_tasks), an answered one-shot/notification entry is forgotten (answered_entry_forgotten). The full "
        "registry statement is FALSE on the code (registry_bounded_full_false: notifications are registered and never removed; "
        "finished_stream_entry_stays) — known findings registry-retains-never / registry-retains-finished-many — and holds for "
        "batches of resolvable requests (registry_bounded_partial). OVER WHOLE RUNS (finished_commands_leave_the_executor_flat, "
        "…_bridge_flat; invariants QI + OC, Lemmas/Occ.lean): for every app without combinators (+ host-free legacy tasks), after "
        "every history, when any further call has returned every executor task that hosts a command hosts a LIVE command that is "
        "NOT DONE, and no command is hosted twice — a finished or dropped command never remains in the executor, so its occupancy "
        "by commands is bounded by the commands with outstanding work, whatever the length of the history. Occupancy of all slabs "
        "is compared with the model after every call through the crux_verif hooks. RESOURCE USE BOUNDED BY OUTSTANDING WORK over whole runs — stored_tasks_are_charged_to_outstanding_requests (+ charges_are_distinct): for every simpleS task program under the direct host, after EVERY history, every task still in the slab has its own waker registered in a channel whose sender is alive, and a channel holds one waker: the occupancy of the slab never exceeds the number of requests the shell still holds (invariants GInv, LQ, CS of C07, Lemmas/CompleteS.lean).",
        goals=["tasks_released_goal"])

# ---------------------------------------------------------------- conc engine (C08)

def conc_evict_gen(tier, seed):
    return [["gen", seed, 300 if tier == "quick" else 17000, "evict"]]


def conc_race_gen(tier, seed):
    return [["gen", seed, 4000 if tier == "quick" else 150000, "race"]]


def conc_corerace_gen(tier, seed):
    return [["gen", seed, 3000 if tier == "quick" else 100000, "corerace"]]


def conc_stress_gen(tier, seed):
    return [["gen", seed, 240000 if tier == "quick" else 3000000, "stress"]]


def conc_slot_gen(tier, seed):
    return [["gen", seed, 2500 if tier == "quick" else 120000, "slot"]]


def conc_bridgerace_gen(tier, seed):
    return [["gen", seed, 150 if tier == "quick" else 6000, "bridgerace"]]


def conc_shape(case, out):
    heads = tuple(sorted(set(_re.findall(r"\((\w[\w-]*)", case))))
    order = case.rsplit("(", 1)[-1]
    return (heads, order.strip(") "), out.split(" E{")[0])


PROPS["C08"] = {
    "streams": [
        Stream("evict", "conc", "conc", conc_evict_gen, shape=conc_shape, shrink=sexp_shrinks),
        Stream("race", "conc", "conc", conc_race_gen, shape=conc_shape, shrink=sexp_shrinks, compare_model=False),
        Stream("corerace", "conc", "conc", conc_corerace_gen, shape=conc_shape, shrink=sexp_shrinks, compare_model=False),
        Stream("bridgerace", "conc", "conc", conc_bridgerace_gen, shape=conc_shape, shrink=sexp_shrinks, compare_model=False),
        Stream("slot", "conc", "conc", conc_slot_gen, shape=conc_shape, shrink=sexp_shrinks, compare_model=False),
        Stream("stress", "conc", "conc", conc_stress_gen, shape=conc_shape, shrink=sexp_shrinks, compare_model=False),
        Stream("joinprobe", "rt", "rt-C08", lambda tier, seed: [["gen-joinprobe"]], compare_model=False),
    ],
    "rule": "joinprobe (engine rt, no model line): a JoinHandle of a spawned task is polled from OUTSIDE its command with a waker that, "
            "when woken, polls the handle again at once - what an executor on another thread does in response to the wake-up - and "
            "records what it saw; the joined task ends by resolve / dropped request (eviction) / JoinHandle::abort, with and without a "
            "sibling task awaiting a clone of the handle (6 cases, all of them on every run); every probe must read Ready (the model's "
            "finishTask sets `finished` before waking the join handles): oracle keys join-handle-woken-before-finished, "
            "join-handle-never-woken, join-handle-not-ready-after-task-ended. evict: a task awaiting join!(r0..rN) whose r0 is resolved is polled by thread 0 (`is_done()`) while threads 1..N resolve "
            "r1..rN; real threads are forced through an interleaving of the crux_verif schedule points (exactly one thread runs "
            "between two points); N=1: ALL interleavings of the poller's 2 steps with the waker's 5 steps (21, exhaustive), N=2: "
            "seeded sample of the 16632; the outcome (task evicted or completed) must equal the prediction of the LTS M.Conc on the same "
            "schedule, and an eviction is a lost response. race: generated DSL commands (distinct operations), a sequential prefix, "
            "then two threads concurrently performing is_done() / resolve / drop under a random schedule of 4-17 grants; the oracle "
            "accepts an outcome (result classes, multiset of effects and events, done flag, live tasks) iff it equals the outcome of one "
            "of the two sequential orders computed by M.Hosts (linearizability). corerace: a generated app on a real Core; after a "
            "sequential prefix, 2-3 threads concurrently call process_event / resolve / view under a random schedule of 6-35 grants over "
            "the schedule points of both executors; accepted iff result classes, the union of the effects returned by all calls, the "
            "effects left for a following probe, the multiset of applied events and the queue/occupancy counters equal those of SOME "
            "sequential order of the calls (all permutations computed by M.Hosts); the harness app flags concurrent entry into update; "
            "half of the schedules are ONE-PREEMPTION schedules (thread a passes k<28 points — among them poll_next:settled, between "
            "a hosted command's last look at its ready queue and its return — then thread b runs to its end, then a resumes), and a "
            "third of the cases are sibling work inside one command (two requests / streams of one and / all / task pair answered "
            "concurrently); one case in twenty parks a thread INSIDE the app's view() (a schedule point in user code: the core holds "
            "the model's read lock) while another delivers a response or event whose update emits a further effect. stress: 240 000 / 3 000 000 free-running rounds on real threads (no schedule) of five fixed histories "
            "(follow-up request per stream item through both APIs, two requests of one command, of two legacy tasks, stream item + "
            "event), same linearizability oracle — the only way to reach races inside regions where the code holds a lock (no "
            "schedule point may lie there); detection there is probabilistic (≈7·10^-5 per round for the seeded C08-f). "
            "bridgerace: the same through a bincode Bridge with 2-3 threads calling process_event / handle_response, often addressing "
            "the SAME live stream id (a schedule point inside resume is reached with the registry lock held, so the other thread "
            "blocks on the lock: such schedules are released after 80 ms and only the outcome is judged). "
            "slot: protocol P-slot — 1-3 executor tasks (join_all of one-shot requests, legacy capability API, polls counted by a "
            "wrapper future), 2-3 threads each calling Core::resolve on a different request (mostly of the same task), a forced "
            "schedule of 0-27 grants over the points exec_wake:start / exec:slot_taken / exec:after_poll / exec:requeue; the harness "
            "reports how many grants were honoured; the LTS M.Slot executes exactly those as macro-steps and then enumerates "
            "EVERY micro-step interleaving; the observed (polls per task, tasks left in the slab, ready-channel length) must be "
            "one of the reachable terminal outcomes — exactly one when the forced prefix covers the run. "
            "non-trivial: every case (each forces a real "
            "interleaving); distinct = distinct (constructs, schedule, result classes)",
    "level_text": "Proof (Props/C08.lean) on the LTS M.Conc (P-evict: eviction check of Command::run_task vs any number of concurrent "
                  "holders of the poll's waker, steps = code between schedule points, sequentially consistent memory): "
                  "evict_safe_swapped — for ANY number of holders and ANY interleaving of any length a task for which a wake-up is sent "
                  "is never evicted, with the read order of the repaired code (invariant by induction over schedules); "
                  "evict_race_pinned_order — the read order of the pinned tree is unsafe (witness interleaving; reproduced on real "
                  "threads before the fix, see KNOWN_FINDINGS fixed: C08); evict_still_evicts. Linearizability of whole concurrent calls "
                  "is NOT proved; it is checked on real threads against the sequential orders of M.Hosts (race, corerace, bridgerace). "
                  "Protocol P-slot (M.Slot: the task slots of QueuingExecutor under concurrent Core::resolve calls; micro-steps "
                  "finer than the code's atomic sections; ANY number of threads and tasks, ANY interleaving): slot_invariant — "
                  "the holder of an empty slot is unique, NO LOST WAKE-UP (an id sent for a live task stays in the channel or in a "
                  "hand until a slot-take after the wake serves it), NO LOST RESPONSE; slot_quiescent — when every call has "
                  "returned the ready channel is empty, no slot is left empty, every wake-up has been served and EVERY task all "
                  "of whose requests were resolved has completed. Tied to the code by the slot stream.",
    "level_note": "Trusted: Lean kernel + standard axioms; the LTS M.Slot (tasks abstracted to join_all of one-shot requests; its "
                  "micro-steps are finer than the code's atomic sections, so it over-approximates the interleavings; the request "
                  "mutex that makes a poll wait for a parked waker is modelled in the driver's enabledness only, i.e. the theorems "
                  "cover a superset of the code's behaviours), tied to the code by the slot stream (forced prefixes on real threads, "
                  "outcome must be reachable); the LTS M.Conc, tied to the code by replaying every enumerated interleaving "
                  "on real threads through the schedule-point hooks (semantic no-ops) and comparing outcomes exactly; sequential "
                  "consistency (the acquire fence of the fix is argued in the commit message, not proved); the schedule controller in "
                  "harness/src/bin/conc.rs; M.Hosts as the sequential specification for the linearizability oracle.",
    "stated_not_proved": ["linearizability of concurrent Core calls (checked by the race stream only)", "P-shared (Core-level shared queues under concurrent calls) invariants"],
    "assumptions": ["sequentially consistent memory", "threads interleave only at schedule points placed where no lock is held"],
}

# C06 quantifies over every point of every schedule at which an abort can be injected — including a point inside a concurrent poll
def conc_abortrace_gen(tier, seed):
    return [["gen", seed, 1500 if tier == "quick" else 60000, "abortrace"]]


PROPS["C06"]["streams"].append(Stream("abortrace", "conc", "conc", conc_abortrace_gen, shape=conc_shape, shrink=sexp_shrinks,
                                      compare_model=False))
PROPS["C06"]["rule"] += ("; abortrace stream (conc harness, real threads forced through the crux_verif schedule points): "
                         "AbortHandle::abort on one thread against is_done() / resolve / drop on another, the aborted command "
                         "standing alone or hosted by then / and / all / map_event / map_effect; accepted iff the outcome (effects, "
                         "events, done flag, live tasks) equals that of one of the two sequential orders computed by M.Hosts — an "
                         "aborted command that stays alive in its host after both calls have returned is rejected")

# C09 quantifies over schedules as well: the bridge's id allocation and routing under concurrent calls (same stream as C08's)
PROPS["C09"]["streams"].append(Stream("bridgerace", "conc", "conc", conc_bridgerace_gen, shape=conc_shape, shrink=sexp_shrinks,
                                      compare_model=False))
PROPS["C09"]["rule"] += ("; bridgerace stream (shared with C08): a bincode Bridge driven by 2-3 real threads through forced "
                         "interleavings of the crux_verif schedule points, racing process_event / handle_response on live (often the "
                         "same) ids; accepted iff the outcome (result classes, decoded effects with their ids, applied events, "
                         "registry occupancy, no panic) equals that of SOME sequential order of the calls computed by M.Hosts — "
                         "an id handed out twice or a response routed to another request under an interleaving is rejected")


# ---- C11 (engine det) -------------------------------------------------------------------------------------------
def det_gen(kind, quick, thorough):
    return lambda tier, seed: [[f"gen-{kind}", seed, quick if tier == "quick" else thorough]]


def det_shape(case, out):
    # distinct = (case kind, sub-kind / api, size class of the case, outcome class)
    t = case.split(" ")
    o = " ".join(out.split(" ")[:2])
    if t[0] == "hdr":
        n = 0 if t[5] == "_" else len([c for c in t[5].split(";") if c.startswith("h:")])
        return ("hdr", t[1], n, o)
    if t[0] == "eq":
        if t[1] == "resp":
            na = 0 if t[2].split(":")[1] == "_" else len(t[2].split(":")[1].split(","))
            nb = 0 if t[3].split(":")[1] == "_" else len(t[3].split(":")[1].split(","))
            return ("eq", "resp", na, nb, t[2] == t[3], o)
        return ("eq", t[1], t[2].split(":")[0], t[2] == t[3], o)
    if t[0] == "tid":
        kinds = "".join(x[0] for x in t[2].split(",")) if t[2] != "_" else ""
        return ("tid", t[1], kinds, o)
    return (t[0], o)


def det_nontrivial(case, out):
    # non-trivial: >= 2 header names (order can matter) / any `==` case / >= 1 timer / the rt batch
    t = case.split(" ")
    if t[0] == "hdr":
        return t[5] != "_" and len([c for c in t[5].split(";") if c.startswith("h:")]) >= 2
    if t[0] == "tid":
        return "A" in t[2] or "T" in t[2]
    return True


def det_shrinks(case):
    t = case.split(" ")
    out = []
    if t[0] == "hdr" and t[5] != "_":
        calls = t[5].split(";")
        for i in range(len(calls)):
            rest = calls[:i] + calls[i + 1:]
            out.append(" ".join(t[:5] + [";".join(rest) if rest else "_"]))
    if t[0] == "tid" and t[2] != "_":
        ops = t[2].split(",")
        for i in range(len(ops)):
            rest = ops[:i] + ops[i + 1:]
            out.append(" ".join(t[:2] + [",".join(rest) if rest else "_"]))
    if t[0] == "eq" and t[1] == "resp":
        for side in (2, 3):
            st, hs, body = t[side].split(":")
            if hs != "_":
                h = hs.split(",")
                for i in range(len(h)):
                    rest = h[:i] + h[i + 1:]
                    new = f"{st}:{','.join(rest) if rest else '_'}:{body}"
                    out.append(" ".join(t[:side] + [new] + t[side + 1:]))
    if t[0] == "rtrep":
        n = int(t[2])
        if n > 1:
            out.append(f"rtrep {t[1]} {n // 2}")
    return out


PROPS["C11"] = {
    "streams": [
        Stream("hdr", "det", "det", det_gen("hdr", 3000, 150000), nontrivial=det_nontrivial, shape=det_shape, shrink=det_shrinks),
        Stream("eq", "det", "det", det_gen("eq", 6000, 200000), nontrivial=det_nontrivial, shape=det_shape, shrink=det_shrinks),
        Stream("tid", "det", "det", det_gen("tid", 1500, 60000), nontrivial=det_nontrivial, shape=det_shape, shrink=det_shrinks),
        Stream("rt", "det", "det", det_gen("rt", 2000, 60000), nontrivial=det_nontrivial, shape=det_shape, shrink=det_shrinks),
        # exact ORDER of effects and events against the reference semantics (engine rt): several tasks awaiting clones of one
        # JoinHandle, registered in an order that differs from their creation order
        Stream("mjoin", "rt", "rt-C11", lambda tier, seed: [["gen", seed, 3000 if tier == "quick" else 120000, "mjoin"]],
               nontrivial=rt_nontrivial, shape=rt_shape, shrink=sexp_shrinks),
    ],
    "rule": "mjoin stream (engine rt, compared with M.Rt line by line and judged by the clause effect-order-not-a-function-of-the-history / event-order-...): a task spawns a worker and 2..6 waiters that each await 0..2 requests of their own and then a clone of the worker's JoinHandle; the waiters' requests are resolved in a random order (so the waiters register with the handle in an order unrelated to creation order and with re-allocated wakers), then the worker ends (resolve, or drop = eviction); the waiters' follow-up effects and events must come out in exactly the order the reference semantics computes from the history (registration order). every case is answered from 6 independent replays: 4 in the harness process (each builds its requests / responses / "
            "cores afresh, so every http-types header map has a fresh RandomState and the timer counter has moved on) and one in "
            "each of 2 fresh `det worker` processes (fresh hash seeds, counter back at 1). Stream hdr: (API ∈ {capability, command}) "
            "× request with 0-6 header() calls (names from a pool with mixed-case duplicates, random tokens, 0/1/2/3 values per call) "
            "and optionally a body, 1 case in 12 with 33-80 header LINES (distinct names plus 1-3 multi-valued names with 2-6 "
            "distinguishable values, random call order — beyond 32 lines a non-stable sort orders the lines of one name by hash seed); "
            "observation = bincode of the single HttpRequest effect, which must be byte-identical in all "
            "replays and equal to the model's (headers sorted by name, values in order). Stream eq: half `Response == Response` for "
            "two ResponseBuilder descriptions with 0-4 header names (identical / one field tweaked / independent / prefix shapes), "
            "each evaluated 30·n! times per replay (n = header names) or until both results were seen — the observation is the SET "
            "of results, compared with the set the model computes over all pairs of iteration orders; half `==` on HttpRequest, "
            "HttpHeader, HttpError, HttpResult, KeyValueOperation, KeyValueResult, TimeRequest, TimeResponse values built "
            "independently from canonical descriptions (equal text ⇔ equal contents). Stream tid: (API) × history of 0-9 now / "
            "notify_after / notify_at operations, all resolved; observation = whether the raw ids differed between in-process "
            "replays, bincode of the TimeRequest effects after renaming ids by rank of first appearance, and the view — the last two "
            "must agree in all replays. Stream rt: `rt gen <seed> <n> bridge | rt run` (the runtime engine's bridge-hosted programs: "
            "serialized effect batches and views) executed in two separate processes, outputs compared byte for byte. "
            "non-trivial = ≥ 2 header calls / any == case / ≥ 1 timer / the rt batch; distinct = distinct (kind, api or value kind, "
            "size class, outcome class)",
    "level_text": "Proof (15 theorems over M.Det): headers_order_independent (code as it is: for EVERY header map and EVERY "
                  "permutation of its entries the serialized request is the same; via Lemmas.Det.emitHeaders_perm — stable insertion by "
                  "name commutes for different names, induction over List.Perm) with the pinned-tree variant refuted "
                  "(headers_order_dependent_unsorted, two-header witness); hdr_sound; timer ids: timer_ids_consecutive (n timers from "
                  "counter k get k..k+n-1), timers_counter_renaming (∃ ρ injective on the ids in use, run k' = rename ρ (run k)), "
                  "rank_rename_independent, tid_sound, tid_counter_free; derived_eq_sound. FULL statement response_eq_extensional "
                  "(== on Response ⇔ same contents, for all iteration orders) is refuted in both directions "
                  "(response_eq_accepts_different, response_eq_rejects_equal, response_eq_extensional_false; keys "
                  "response-eq-accepts-different / response-eq-rejects-equal, known finding that must not be repaired because a "
                  "baseline test relies on it); true restrictions response_eq_partial_no_headers, response_eq_partial_one_header, "
                  "eq_sound_partial_no_headers. Determinism of the runtime proper (queues, slabs, executor) is the content of the "
                  "rt engine's models being functions that agree exactly with the code (C01-C07); here it is additionally "
                  "observed across two processes.",
    "level_note": "Trusted: Lean kernel + 3 standard axioms; hand model M.Det (bincode layout of HttpRequest / TimeRequest; header map as "
                  "a list of entries whose order is the parameter; Response::eq as two zips; timer counter as a parameter), checked "
                  "against the real code on every run; the set-valued observation of Response == can in principle miss a possible "
                  "result (probability < e^-30 per case with 30·n! evaluations per replay); memory addresses, wall-clock and thread "
                  "timing are not consulted by any modelled code path (no theorem can show absence in unmodelled code — the "
                  "cross-process byte comparison of the rt batch is the empirical check). The rt stream rebuilds the sibling `rt` "
                  "harness binary (cargo, no-op when fresh) before using it.",
    "assumptions": [
        "hash-map iteration orders are arbitrary permutations of the entries (any may occur); names of a map are distinct",
        "header names/values are ASCII (C14/C15)",
        "timer histories consist of now / notify_after / notify_at (clears and their ids: C18)",
    ],
}


# properties not claimed yet, with the reason shown in MANIFEST.not_applicable
NOT_YET = {}
# ---- C13 x timers: occupancy of the process-wide cleared-timer set (engine timer, host lset) -----------------------
def lset_gen(tier, seed):
    q = tier == "quick"
    return [["gen-exh", 5 if q else 7, "lset"], ["gen-lset", seed, 6000 if q else 300000]]


def lset_nontrivial(case, out):
    # some id was in the set at some step
    return any(t.startswith("c") and not t.startswith("c/") for t in out.split(" ")[1:])


def lset_shape(case, out):
    toks = out.split(" ")[1:]
    return (len(case.split(" ")[1]), tuple(sorted(set((len(t.split("/")[0]) - 1, len(t.split("/")[-1]) - 1) for t in toks if "/" in t))))


PROPS["C13"]["rule"] += (" DROP GUARDS (rt stream, direct host, `(task I*)` commands): every task future the DSL interpreter creates - the "
                         "command's first task and every spawn / handoff child - captures a drop guard; after EVERY step the harness prints the "
                         "number of guards alive (`g<N>`) and the model the number of task futures it has not dropped (M.Hosts.liveFutures: "
                         "metas with taskAlive, cleared only by dropTask); compared step by step, oracle key task-future-not-dropped.")
PROPS["C13"]["level_text"] += (" TASK FUTURES ARE DROPPED (first clause): observed on the real code with drop guards and compared with the model's "
                               "dropTask accounting on every direct `(task ...)` case, and PROVED over whole runs - live_task_futures_are_stored (accounting "
                               "invariant Acc, Lemmas/Acc.lean: one grind frame over pollBlock, then executor, shell operations and direct host): for every "
                               "host-free task program, after EVERY history, every task future whose drop guard is alive belongs to a task stored in the "
                               "command's slab or waiting in its spawn queue, so liveFutures <= tasks + spawn queue: nothing of a finished, cancelled, "
                               "evicted or aborted task is kept. About the mechanism: finished_task_future_dropped "
                               "(finishTask clears exactly the finished task's guard and no other), dropped_task_counted_once, "
                               "aborted_command_drops_task_futures (tasks.clear() of an aborted command drops every stored task's future, any task layer).")
PROPS["C13"]["streams"].append(Stream("lset", "timer", "timer", lset_gen, nontrivial=lset_nontrivial, shape=lset_shape,
                                      shrink=lambda c: timer_shrinks(c)))
PROPS["C13"]["streams"].append(Stream("mset", "timer", "timer",
                                      lambda tier, seed: [["gen-mset", seed, 4000 if tier == "quick" else 200000]],
                                      nontrivial=lset_nontrivial, shape=lset_shape, shrink=lambda c: timer_shrinks(c)))
PROPS["C13"]["rule"] += (" mset stream: the same observation and clause in ONE app that starts timers through BOTH timer APIs (1..6 timers, "
                         "random API per timer; model MWorld: one id counter, one set; theorem cleared_timer_set_bounded_mixed); a step in "
                         "which a command-API timer panics on a wrong response reads `panic`, later steps `dead`, on both sides.")
PROPS["C13"]["rule"] += (" lset stream (engine timer): 1..9 legacy capability timers (caps.time.notify_after / notify_at / clear) in one real "
                         "Core; actions per timer: start, start+clear in one update, clear(id) (before, while and after the timer is pending, "
                         "repeated), answer (right / foreign id / other kind), drop the request, answer the Clear notification, idle call. "
                         "ENUMERATED: every sequence for one timer up to length 5 (quick) / 7 (thorough); SAMPLED: interleaved set / fire / clear "
                         "cycles over up to 9 timers and random sequences of length 3..26 (6 000 quick, 300 000 thorough). Observation after "
                         "EVERY step, read through the crux_verif hook crux_time::verif_cleared_timer_ids: which of the case's timers have "
                         "their id in the process-wide cleared-timer set, and which timers are outstanding (started, callback not yet run); "
                         "compared with the model's set (M.Timer LWorld.cleared) step by step; oracle clause "
                         "cleared-set-retains-finished-timer: the set holds only ids of outstanding timers. non-trivial = the set was "
                         "non-empty at some step.")
PROPS["C13"]["level_text"] += (" CLEARED-TIMER SET over whole runs (cleared_timer_set_bounded_by_outstanding_timers, finished_timer_is_forgotten, "
                               "cleared_timer_set_bounded_mixed; invariants WInv + CB, Lemmas/Timer/ClearedSet.lean): for every number of legacy "
                               "timers and EVERY history of starts, clears, answers, dropped requests and idle calls - and for apps that use both "
                               "timer APIs - every id the process-wide set remembers belongs to a timer whose future is still alive, no id twice: "
                               "the size of the set never exceeds the number of outstanding timers, and nothing of a finished timer remains. "
                               "(False of the pinned code before the repair `fix: forget a cleared timer id ...`: start, answer, clear left the "
                               "id in the set for ever - found by this stream, replayed as `lset A s0 f0 c0`.)")

# ---- C18 (engine timer) -----------------------------------------------------------------------------------------
def timer_gen(tier, seed):
    if tier == "quick":
        return [["gen-exh", 7, "cmd", "alt"], ["gen-exh", 6, "core", "alt"], ["gen-exh", 4, "legacy"], ["gen", seed, 8000],
                ["gen-mixed", seed, 5000]]
    return [["gen-exh", 9, "cmd", "A"], ["gen-exh", 8, "cmd", "T"], ["gen-exh", 8, "core", "alt"],
            ["gen-exh", 6, "legacy"], ["gen", seed, 400000], ["gen-mixed", seed, 250000]]


def timer_nontrivial(case, out):
    # non-trivial: something beyond "request sent" was observed (a Clear request, an outcome, a panic, a refused resolve)
    return any(x in out for x in ("+clear", "!", "panic", "err"))


def timer_shape(case, out):
    import re
    host, kinds = case.split(" ")[:2]
    recs = frozenset(re.sub(r"\d", "#", r) for r in out.split(" ")[1:])
    return (host, len(kinds), recs)


def timer_shrinks(case):
    toks = case.split(" ")
    head, acts = toks[:2], toks[2:]
    out = [" ".join(head + acts[:i] + acts[i + 1:]) for i in range(len(acts))]
    # drop the last timer when nothing addresses it
    n = len(head[1])
    if n > 1 and not any(a.endswith(str(n - 1)) for a in acts):
        out.append(" ".join([head[0], head[1][:-1]] + acts))
    return out


def timer_threads_gen(tier, seed):
    return [["gen-threads", seed, 60 if tier == "quick" else 3000]]


PROPS["C18"] = {
    "streams": [Stream("timer", "timer", "timer", timer_gen, nontrivial=timer_nontrivial, shape=timer_shape,
                       shrink=timer_shrinks),
                Stream("threads", "timer", "timer", timer_threads_gen, shrink=int_shrinks)],
    "rule": "threads stream: 2-6 real threads released by a barrier, each creating 1-40 timers through the command API (notify_after "
            "/ notify_at, polled once so that the request carrying the id is emitted); every id handed out in the process must differ "
            "from every other (model: one atomic counter, Props.C18.ids_unique_across_threads). timer stream: "
            "case = host (cmd: every timer's Command driven directly with effects()/events()/is_done(); core: the Commands "
            "returned from an App's update and hosted by a real Core; legacy: caps.time.notify_after/notify_at/clear in a Core; "
            "mixed: ONE app in ONE Core that starts timers through BOTH APIs in an interleaved order - per timer either the "
            "legacy capability or command::Time created in update on its start action) "
            "x constructor per timer (notify_after | notify_at) x 1..4 timers x a sequence of actions addressed to a timer: poll, "
            "fire (matching response), fire with a foreign id, fire with the other kind, drop the request, handle.clear(), drop "
            "the handle, answer the Clear request (right / foreign id / wrong kind), drop the Clear request; a second resolve of "
            "a request is the duplicate / late response; legacy: start, start+clear in one update, clear(id), fire/wrong/drop, "
            "resolve the Clear notification. ENUMERATED: every sequence the syntactic applicability automaton admits for one "
            "timer up to length 7 (cmd), 6 (core), 4 (legacy) in the quick tier and 9 / 8 / 6 in the thorough tier; SAMPLED: "
            "seeded random sequences of length 3..20 over 1..4 timers for cmd/core/legacy (8 000 quick) and mixed sequences over "
            "1..6 timers with a random API and constructor per timer, starts spread over the sequence with polls / fires / "
            "clears / drops in between (5 000 quick, 250 000 thorough). Observation per step: result class "
            "of the call (performed/ok/err/nothing to act on/panic), the TimeRequest effects that became visible (kind + owner "
            "of the id), the outcome events, is_done(); plus whether ALL raw ids handed out in the case - by either API - were "
            "pairwise distinct and increasing in creation order (ids:ok | ids:dup | ids:unordered; oracle key id-not-unique). non-trivial = a Clear request, an outcome, a panic or a refused resolve was observed; distinct = "
            "distinct (host, number of timers, set of step records with indices abstracted)",
    "level_text": "Proof: for EVERY list of (action, command-run-afterwards?) pairs (unbounded; induction over the list with the "
                  "timer's control state as invariant) the Lean model of notify_after/notify_at satisfies every clause of the "
                  "specification monitor S.Timer written from the property text: at_most_one_outcome (also by a direct counting "
                  "argument), completed_only_if_answered, cleared_only_if_cleared, clear_before_start_silent (+ direct form), "
                  "clear_while_pending_one_clear (one Clear, sent when due, cleared reported once answered), answer_wins_if_waiting, "
                  "drop_handle_no_cancel (+ direct form), late_ignored (+ direct form), request_sent_quiet_no_panic_own_ids; "
                  "ids_unique / ids_increasing for the wrapping usize counter, ids_unique_joint (any interleaving of legacy and command-API "
                  "allocations) and ids_unique_mixed (in the model of one app using both APIs - one shared counter, as both call "
                  "get_timer_id - no two timers of whichever APIs share an id after any history); timers_independent (the part of a joint run the "
                  "specification attributes to one timer is a run of that timer alone, for direct and Core hosting); "
                  "C18_command_sound (the oracle accepts the model on every case, any number of timers, both hosts). Legacy "
                  "capability API (any number of timers sharing the counter and CLEARED_TIMER_IDS): C18_legacy_full (the same "
                  "kind of oracle incl. 'a clear of a timer that is not pending sends nothing') is FALSE on the unchanged code - "
                  "C18_legacy_full_false proves it from the witness `start+clear in one update` and the "
                  "real code reproduces it (known finding legacy-clear-always-notifies); C18_legacy_partial proves every other "
                  "clause for every joint legacy history, legacy_ids_unique the invariant behind it (ids distinct and below the "
                  "counter, the set in sync with every pending timer), legacy_cleared_reports the deferred Cleared; C18_mixed_partial: the same for every history of one app that "
                  "starts timers through both APIs (C18_mixed_full false by the same witness). The model is tied to the code by running the same enumerated and sampled cases "
                  "through the real crux_time/crux_core code and the compiled model on every run and comparing line by line.",
    "level_note": "Trusted: Lean kernel + propext/Classical.choice/Quot.sound; the hand model M.Timer of command.rs:48-208, lib.rs:26-29, "
                  "93-225 and of the Command runtime facts it relies on (a task is polled only when woken; a request future sends its "
                  "effect on first poll; Request::resolve is Ok once then Err; a dropped Request closes the channel, wakes the task, the "
                  "future then pends forever and a task no future of which kept the waker is evicted; futures' select_biased!/oneshot "
                  "semantics) - all exercised through the real code by the correspondence on every run, exhaustively for one timer up "
                  "to the stated lengths. Steps after a response of the wrong kind / with a foreign id was delivered where the code "
                  "inspects it are outside the property (the real task panics; model and code agree on that). Thread interleavings "
                  "inside one poll are not modelled (C08).",
    "assumptions": [
        "a Command is driven from one thread at a time (effects()/events()/Core calls are not interleaved with each other)",
        "fewer than 2^64 timers are created per process (the id counter is a wrapping AtomicUsize; ids_unique holds for any 2^64 "
        "consecutive allocations)",
        "the harness reads private ids through the Debug output of TimerHandle / CompletedTimerHandle",
        "core / legacy host: a case ends at the first panic inside a Core call (the harness does not use that Core afterwards; "
        "with the executor's re-queue loop a stale waker reaching the slot of the panicked task would spin run_all forever)",
    ],
}

ENGINE_TEXT = {
    "det": "replays of HTTP / time / runtime histories in-process and in fresh processes, and == on independently built protocol values (Rust) vs M.Det (Lean), oracle S.Det",
    "timer": "real crux_time timers (command API driven directly and hosted in a Core; legacy capability API in a Core), harness as shell and app (Rust) vs M.Timer (Lean), oracle S.Timer",
    "codec": "real serde derive + bincode (bridge options) on every type TypeGen::register_app traces, and real Bridge outputs (Rust) vs the verified schema-driven codec M.Bincode run on the traced registry (Lean), oracle S.Codec",
    "http": "real crux_http request builders and response handling (capability + command API) through a real Core<App> (Rust) vs M.Http (Lean), oracle S.Http",
    "cli": ENGINE_TEXT_C20,
    "mw": "real crux_http middleware stacks + Redirect through a real Core<App>, harness as shell (Rust) vs M.Mw (Lean), oracle S.Mw",
    "rt": "DSL programs x shell histories on the real crux_core runtime (direct / Core / bincode+JSON Bridge hosts, command and legacy capability API) vs M.Rt/M.Hosts (Lean); oracles Driver/RtOracle.lean",
    "conc": "real threads forced through enumerated interleavings of the crux_verif schedule points vs the LTS M.Conc (evict) and vs the two sequential orders of M.Hosts (race)",
    "kv": "real crux_kv calls (capability + command API; Core and bincode Bridge hosts) vs M.Kv (Lean), oracle S.Kv",
    "conv": "differential driver for crux_time::protocol conversions (Rust) vs M.Conv (Lean), oracle S.Conv",
}
HOOK_COMMITS = ["3b3ccf0", "fd94595", "1055c0e", "261bd7a", "aabe6ae", "aa30ac4", "df0e2e7", "e58b8d1"]

# Only these are listed in MANIFEST.json as claimed (the lead adds an id here once its check has been reviewed and passes).
CLAIMED = ["C%02d" % i for i in range(1, 21)]
