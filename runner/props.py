"""Per-property configuration of the runner."""
from .core import Stream, int_shrinks


def conv_gen(tier, seed):
    n = 20000 if tier == "quick" else 2000000
    return [["gen-boundary"], ["gen", seed, n]]


def conv_nontrivial(case, out):
    # non-trivial: the argument is a value of the source type (outcome is not `skip`)
    return not out.startswith("skip")


def conv_shape(case, out):
    # distinct = (function, outcome class incl. error/panic kind, magnitude class of both fields)
    f, a, b = case.split(" ")
    cls = out.split(" ")[0] + (":" + " ".join(out.split(" ")[1:]) if not out.startswith("ok") else "")
    mag = lambda x: (x[0] == "-", len(x.lstrip("-")))
    return (f, cls, mag(a), mag(b))


def kv_gen(tier, seed):
    return [["gen", seed, 4000 if tier == "quick" else 150000]]


def lenclass(h):
    n = 0 if h in ("-", "_", "none") else len(h) // 2
    return 0 if n == 0 else 1 if n == 1 else 2 if n < 64 else 3 if n < 65536 else 4


def kv_shape(case, out):
    api, host, call, key, value, cursor, resp = case.split(" ")
    rk = ":".join(resp.split(":")[:2])
    return (api, host, call, rk, out.split("result ")[-1].split(":")[0], lenclass(key), lenclass(value),
            lenclass(resp.split(":")[-1]))


def kv_nontrivial(case, out):
    # non-trivial: the response is of the matching kind or an error (the property constrains the result)
    call, resp = case.split(" ")[2], case.split(" ")[6]
    return resp.startswith("err") or resp.split(":")[1] == call


def hex_shrinks(case):
    toks = case.split(" ")
    out = []
    for i, t in enumerate(toks):
        parts = t.split(":")
        for j, q in enumerate(parts):
            for sub_i, sub in enumerate(q.split(",")):
                if len(sub) >= 2 and all(c in "0123456789abcdef" for c in sub) and len(sub) % 2 == 0:
                    for repl in ("-", sub[: (len(sub) // 4) * 2] or "-", sub[2:] or "-"):
                        if repl != sub:
                            qq = q.split(",")
                            qq[sub_i] = repl
                            pp = parts[:j] + [",".join(qq)] + parts[j + 1:]
                            out.append(" ".join(toks[:i] + [":".join(pp)] + toks[i + 1:]))
    return out + int_shrinks(case)


PROPS = {
    "C19": {
        "streams": [Stream("conv", "conv", "conv", conv_gen, nontrivial=conv_nontrivial,
                           shape=conv_shape, shrink=int_shrinks)],
        "rule": "cases = (function, raw field a, raw field b): the full boundary pool (every comparison/cast/checked-op "
                "boundary of the modelled functions ±1, crossed with 10 sub-second boundaries, for each of the 11 "
                "conversions) plus seeded random values (pool, log-uniform, uniform u64/i64, near-pool); non-trivial = "
                "the fields form a value of the source type (outcome not `skip`); distinct = distinct (function, "
                "outcome class, sign+digit-count of each field)",
        "level_text": "Proof: theorem C19_conv_sound states, for all 11 conversion functions of crux_time::protocol and "
                      "all integer inputs (unbounded), that the Lean model of the function is accepted by the exact-integer "
                      "specification S.Conv.ok (representable => converted exactly; unrepresentable => err/panic; never "
                      "wrapped/normalised); corollaries C19_exact, C19_explicit, C19_representable_converted. The model is "
                      "tied to the code by running both on the full boundary pool and seeded random inputs on every run, and "
                      "the specification oracle is also evaluated directly on what the real code returned.",
        "level_note": "Trusted: Lean kernel; axioms propext/Classical.choice/Quot.sound; the hand model M.Conv (checked against "
                      "the real functions on ~30k (quick) / ~2M (thorough) inputs per run incl. every boundary); chrono 0.4.40 "
                      "and std::time accessors modelled as integer functions; Linux SystemTime representation. A count in "
                      "[2^63, 2^64) ns exchanged with chrono is treated as not representable (chrono's nanosecond interface is i64).",
        "assumptions": [
            "SystemTime is the Linux Timespec (tv_sec: i64, tv_nsec < 10^9)",
            "chrono 0.4.40 accessor semantics (from_timestamp range, TimeDelta::new range, num_nanoseconds) as integer "
            "functions; exercised at every boundary by the correspondence check",
            "an Instant with arbitrary fields is obtained the only way a user can: by deserialising it",
        ],
    },
}

PROPS["C17"] = {
    "streams": [Stream("kv", "kv", "kv", kv_gen, nontrivial=kv_nontrivial, shape=kv_shape, shrink=hex_shrinks)],
    "rule": "cases = (API ∈ {capability, command}) × (host ∈ {Core, bincode Bridge}) × (call ∈ get/set/delete/exists/list_keys) "
            "× generated key (empty, 1 char, unicode, control characters, 300 and 70 000 characters), value (empty, 1 byte, binary, "
            "4 KiB, 1 MiB), cursor (0, 1, 2^32±, 2^63-1, 2^64-2, 2^64-1 …) × response (matching kind 60 %, every error variant "
            "20 %, other kind 20 %; none vs empty vs binary values; key lists of 0/1/2/5/40); the real app issues the call, the "
            "harness prints the operation(s) in the effect(s) and the single event payload delivered after resolving; "
            "non-trivial = response kind matches the call or is an error; distinct = distinct (api, host, call, response kind, "
            "result class, length classes of key/value/response payload)",
    "level_text": "Proof: C17_kv_sound (every observation of the model M.Kv — operations emitted and result delivered — is accepted "
                  "by the documented-behaviour specification S.Kv.ok, for every call, argument and response), kv_emits_one, "
                  "kv_args_exact, unwrap_exact, unwrap_mismatch_panics, value_option_bijection, none_ne_empty. The model is one "
                  "function for both APIs and both hosts; that the real capability API, command API, Core and bincode Bridge all "
                  "behave as that one function is what the correspondence check establishes on every run.",
    "level_note": "Trusted: Lean kernel + 3 standard axioms; hand model M.Kv (pure pass-through; checked against the real code on 4k "
                  "(quick) / 150k (thorough) generated calls through both APIs and across the bincode bridge); serde/bincode for "
                  "the wire hop are exercised, not modelled, here (C10 models the codec). A response of a kind other than the "
                  "call's makes the real task panic; the property does not constrain that case and the oracle accepts anything there.",
    "assumptions": ["keys/prefixes/messages are valid UTF-8 (they are Rust Strings); the model treats them as opaque bytes"],
}

# properties not claimed yet, with the reason shown in MANIFEST.not_applicable
NOT_YET = {}
ENGINE_TEXT = {
    "kv": "real crux_kv calls (capability + command API; Core and bincode Bridge hosts) vs M.Kv (Lean), oracle S.Kv",
    "conv": "differential driver for crux_time::protocol conversions (Rust) vs M.Conv (Lean), oracle S.Conv",
}
HOOK_COMMITS = []
