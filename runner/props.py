"""Per-property configuration of the runner."""
from .core import Stream, int_shrinks


def conv_gen(tier, seed):
    n = 20000 if tier == "quick" else 2000000
    return [["gen-boundary"], ["gen", seed, n]]


def conv_nontrivial(case, out):
    # non-trivial: the argument is a value of the source type (outcome is not `skip`)
    return not out.startswith("skip")


def conv_shape(case, out):
    # distinct = (function, outcome class incl. error/panic kind, magnitude class of both fields)
    f, a, b = case.split(" ")
    cls = out.split(" ")[0] + (":" + " ".join(out.split(" ")[1:]) if not out.startswith("ok") else "")
    mag = lambda x: (x[0] == "-", len(x.lstrip("-")))
    return (f, cls, mag(a), mag(b))


PROPS = {
    "C19": {
        "streams": [Stream("conv", "conv", "conv", conv_gen, nontrivial=conv_nontrivial,
                           shape=conv_shape, shrink=int_shrinks)],
        "rule": "cases = (function, raw field a, raw field b): the full boundary pool (every comparison/cast/checked-op "
                "boundary of the modelled functions ±1, crossed with 10 sub-second boundaries, for each of the 11 "
                "conversions) plus seeded random values (pool, log-uniform, uniform u64/i64, near-pool); non-trivial = "
                "the fields form a value of the source type (outcome not `skip`); distinct = distinct (function, "
                "outcome class, sign+digit-count of each field)",
        "level_text": "Proof: theorem C19_conv_sound states, for all 11 conversion functions of crux_time::protocol and "
                      "all integer inputs (unbounded), that the Lean model of the function is accepted by the exact-integer "
                      "specification S.Conv.ok (representable => converted exactly; unrepresentable => err/panic; never "
                      "wrapped/normalised); corollaries C19_exact, C19_explicit, C19_representable_converted. The model is "
                      "tied to the code by running both on the full boundary pool and seeded random inputs on every run, and "
                      "the specification oracle is also evaluated directly on what the real code returned.",
        "level_note": "Trusted: Lean kernel; axioms propext/Classical.choice/Quot.sound; the hand model M.Conv (checked against "
                      "the real functions on ~30k (quick) / ~2M (thorough) inputs per run incl. every boundary); chrono 0.4.40 "
                      "and std::time accessors modelled as integer functions; Linux SystemTime representation. A count in "
                      "[2^63, 2^64) ns exchanged with chrono is treated as not representable (chrono's nanosecond interface is i64).",
        "assumptions": [
            "SystemTime is the Linux Timespec (tv_sec: i64, tv_nsec < 10^9)",
            "chrono 0.4.40 accessor semantics (from_timestamp range, TimeDelta::new range, num_nanoseconds) as integer "
            "functions; exercised at every boundary by the correspondence check",
            "an Instant with arbitrary fields is obtained the only way a user can: by deserialising it",
        ],
    },
}

# properties not claimed yet, with the reason shown in MANIFEST.not_applicable
NOT_YET = {}
ENGINE_TEXT = {
    "conv": "differential driver for crux_time::protocol conversions (Rust) vs M.Conv (Lean), oracle S.Conv",
}
HOOK_COMMITS = []
