"""Per-property configuration of the runner."""
from .core import Stream, int_shrinks


def conv_gen(tier, seed):
    n = 20000 if tier == "quick" else 2000000
    return [["gen-boundary"], ["gen", seed, n]]


def conv_nontrivial(case, out):
    # non-trivial: the argument is a value of the source type (outcome is not `skip`)
    return not out.startswith("skip")


def conv_shape(case, out):
    # distinct = (function, outcome class incl. error/panic kind, magnitude class of both fields)
    f, a, b = case.split(" ")
    cls = out.split(" ")[0] + (":" + " ".join(out.split(" ")[1:]) if not out.startswith("ok") else "")
    mag = lambda x: (x[0] == "-", len(x.lstrip("-")))
    return (f, cls, mag(a), mag(b))


def kv_gen(tier, seed):
    return [["gen", seed, 4000 if tier == "quick" else 150000]]


def lenclass(h):
    n = 0 if h in ("-", "_", "none") else len(h) // 2
    return 0 if n == 0 else 1 if n == 1 else 2 if n < 64 else 3 if n < 65536 else 4


def kv_shape(case, out):
    api, host, call, key, value, cursor, resp = case.split(" ")
    rk = ":".join(resp.split(":")[:2])
    return (api, host, call, rk, out.split("result ")[-1].split(":")[0], lenclass(key), lenclass(value),
            lenclass(resp.split(":")[-1]))


def kv_nontrivial(case, out):
    # non-trivial: the response is of the matching kind or an error (the property constrains the result)
    call, resp = case.split(" ")[2], case.split(" ")[6]
    return resp.startswith("err") or resp.split(":")[1] == call


def hex_shrinks(case):
    toks = case.split(" ")
    out = []
    for i, t in enumerate(toks):
        parts = t.split(":")
        for j, q in enumerate(parts):
            for sub_i, sub in enumerate(q.split(",")):
                if len(sub) >= 2 and all(c in "0123456789abcdef" for c in sub) and len(sub) % 2 == 0:
                    for repl in ("-", sub[: (len(sub) // 4) * 2] or "-", sub[2:] or "-"):
                        if repl != sub:
                            qq = q.split(",")
                            qq[sub_i] = repl
                            pp = parts[:j] + [",".join(qq)] + parts[j + 1:]
                            out.append(" ".join(toks[:i] + [":".join(pp)] + toks[i + 1:]))
    return out + int_shrinks(case)


# ---- C16 / engine mw -------------------------------------------------------------------------------
MW_ARITY = {"pass": 2, "tag": 2, "short": 3, "fail": 2, "twice": 2, "issue": 4, "redirect": 2}


def mw_parse(case):
    """case line -> (head tokens, [client middleware], [request middleware], [rows], [ops]) (each a list of token lists)"""
    t = case.split(" ")
    head, i = t[:5], 5
    stacks = []
    for section in ("cmw", "mw"):
        assert t[i] == section
        n, i = int(t[i + 1]), i + 2
        mws = []
        for _ in range(n):
            a = MW_ARITY[t[i]]
            mws.append(t[i:i + a])
            i += a
        stacks.append(mws)
    assert t[i] == "srv"
    n, i = int(t[i + 1]), i + 2
    rows = []
    for _ in range(n):
        nl = int(t[i + 3])
        rows.append(t[i:i + 4 + nl])
        i += 4 + nl
    assert t[i] == "ops"
    n, i = int(t[i + 1]), i + 2
    ops = []
    for _ in range(n):
        if t[i] == "P":
            a = 4 if t[i + 2] == "abs" else 3
        else:
            a = 5 if t[i + 3] == "ok" else 4
        ops.append(t[i:i + a])
        i += a
    assert i == len(t)
    return head, stacks[0], stacks[1], rows, ops


def mw_unparse(head, cmws, mws, rows, ops):
    flat = lambda xs: [y for x in xs for y in x]
    return " ".join(head + ["cmw", str(len(cmws))] + flat(cmws) + ["mw", str(len(mws))] + flat(mws)
                    + ["srv", str(len(rows))] + flat(rows) + ["ops", str(len(ops))] + flat(ops))


def mw_gen(tier, seed):
    return [["gen", seed, 40000 if tier == "quick" else 600000]]


def mw_shape(case, out):
    # distinct = (api, method, kinds of the client stack, kinds of the request stack, #requests seen by the shell (capped),
    #             #enter marks (capped), outcome class)
    try:
        head, cmws, mws, rows, ops = mw_parse(case)
    except Exception:
        return ("unparsed",)
    o = out.split(" out ")[-1].split(" ")
    return (head[0], head[1], tuple(m[0] for m in cmws), tuple(m[0] for m in mws), min(out.count(" R "), 8),
            min(out.count(" E "), 8), " ".join(o[:2]) if o[0] != "ok" and o[0] != "raw" else o[0])


def mw_nontrivial(case, out):
    # non-trivial: at least one middleware is attached (the stacks can make a difference)
    return " cmw 0 mw 0 " not in case


def mw_shrinks(case):
    try:
        head, cmws, mws, rows, ops = mw_parse(case)
    except Exception:
        return []
    out = []

    def stack_variants(st):
        res = []
        for i in range(len(st)):
            res.append(st[:i] + st[i + 1:])
        for i, m in enumerate(st):
            if m[0] == "redirect" and int(m[1]) > 0:
                res.append(st[:i] + [["redirect", str(int(m[1]) - 1)]] + st[i + 1:])
            if m[0] == "issue" and m[3] != "-":
                res.append(st[:i] + [m[:3] + ["-"]] + st[i + 1:])
        return res

    for v in stack_variants(cmws):
        out.append(mw_unparse(head, v, mws, rows, ops))
    for v in stack_variants(mws):
        out.append(mw_unparse(head, cmws, v, rows, ops))
    for i in range(len(rows)):
        out.append(mw_unparse(head, cmws, mws, rows[:i] + rows[i + 1:], ops))
    for i in range(len(ops)):
        out.append(mw_unparse(head, cmws, mws, rows, ops[:i] + ops[i + 1:]))
    for i, r in enumerate(rows):
        if r[2] != "-":
            out.append(mw_unparse(head, cmws, mws, rows[:i] + [r[:2] + ["-"] + r[3:]] + rows[i + 1:], ops))
        if int(r[3]) > 1:
            out.append(mw_unparse(head, cmws, mws, rows[:i] + [r[:3] + [str(int(r[3]) - 1)] + r[5:]] + rows[i + 1:], ops))
    if head[3] != "-":
        out.append(mw_unparse(head[:3] + ["-"] + head[4:], cmws, mws, rows, ops))
    if head[4] != "_":
        out.append(mw_unparse(head[:4] + ["_"], cmws, mws, rows, ops))
    if head[1] != "GET":
        out.append(mw_unparse([head[0], "GET"] + head[2:], cmws, mws, rows, ops))
    return [c for c in out if c != case]


PROPS = {
    "C19": {
        "streams": [Stream("conv", "conv", "conv", conv_gen, nontrivial=conv_nontrivial,
                           shape=conv_shape, shrink=int_shrinks)],
        "rule": "cases = (function, raw field a, raw field b): the full boundary pool (every comparison/cast/checked-op "
                "boundary of the modelled functions ±1, crossed with 10 sub-second boundaries, for each of the 11 "
                "conversions) plus seeded random values (pool, log-uniform, uniform u64/i64, near-pool); non-trivial = "
                "the fields form a value of the source type (outcome not `skip`); distinct = distinct (function, "
                "outcome class, sign+digit-count of each field)",
        "level_text": "Proof: theorem C19_conv_sound states, for all 11 conversion functions of crux_time::protocol and "
                      "all integer inputs (unbounded), that the Lean model of the function is accepted by the exact-integer "
                      "specification S.Conv.ok (representable => converted exactly; unrepresentable => err/panic; never "
                      "wrapped/normalised); corollaries C19_exact, C19_explicit, C19_representable_converted. The model is "
                      "tied to the code by running both on the full boundary pool and seeded random inputs on every run, and "
                      "the specification oracle is also evaluated directly on what the real code returned.",
        "level_note": "Trusted: Lean kernel; axioms propext/Classical.choice/Quot.sound; the hand model M.Conv (checked against "
                      "the real functions on ~30k (quick) / ~2M (thorough) inputs per run incl. every boundary); chrono 0.4.40 "
                      "and std::time accessors modelled as integer functions; Linux SystemTime representation. A count in "
                      "[2^63, 2^64) ns exchanged with chrono is treated as not representable (chrono's nanosecond interface is i64).",
        "assumptions": [
            "SystemTime is the Linux Timespec (tv_sec: i64, tv_nsec < 10^9)",
            "chrono 0.4.40 accessor semantics (from_timestamp range, TimeDelta::new range, num_nanoseconds) as integer "
            "functions; exercised at every boundary by the correspondence check",
            "an Instant with arbitrary fields is obtained the only way a user can: by deserialising it",
        ],
    },
}

PROPS["C17"] = {
    "streams": [Stream("kv", "kv", "kv", kv_gen, nontrivial=kv_nontrivial, shape=kv_shape, shrink=hex_shrinks)],
    "rule": "cases = (API ∈ {capability, command}) × (host ∈ {Core, bincode Bridge}) × (call ∈ get/set/delete/exists/list_keys) "
            "× generated key (empty, 1 char, unicode, control characters, 300 and 70 000 characters), value (empty, 1 byte, binary, "
            "4 KiB, 1 MiB), cursor (0, 1, 2^32±, 2^63-1, 2^64-2, 2^64-1 …) × response (matching kind 60 %, every error variant "
            "20 %, other kind 20 %; none vs empty vs binary values; key lists of 0/1/2/5/40); the real app issues the call, the "
            "harness prints the operation(s) in the effect(s) and the single event payload delivered after resolving; "
            "non-trivial = response kind matches the call or is an error; distinct = distinct (api, host, call, response kind, "
            "result class, length classes of key/value/response payload)",
    "level_text": "Proof: C17_kv_sound (every observation of the model M.Kv — operations emitted and result delivered — is accepted "
                  "by the documented-behaviour specification S.Kv.ok, for every call, argument and response), kv_emits_one, "
                  "kv_args_exact, unwrap_exact, unwrap_mismatch_panics, value_option_bijection, none_ne_empty. The model is one "
                  "function for both APIs and both hosts; that the real capability API, command API, Core and bincode Bridge all "
                  "behave as that one function is what the correspondence check establishes on every run.",
    "level_note": "Trusted: Lean kernel + 3 standard axioms; hand model M.Kv (pure pass-through; checked against the real code on 4k "
                  "(quick) / 150k (thorough) generated calls through both APIs and across the bincode bridge); serde/bincode for "
                  "the wire hop are exercised, not modelled, here (C10 models the codec). A response of a kind other than the "
                  "call's makes the real task panic; the property does not constrain that case and the oracle accepts anything there.",
    "assumptions": ["keys/prefixes/messages are valid UTF-8 (they are Rust Strings); the model treats them as opaque bytes"],
}

PROPS["C16"] = {
    "streams": [Stream("mw", "mw", "mw", mw_gen, nontrivial=mw_nontrivial, shape=mw_shape, shrink=mw_shrinks)],
    "rule": "cases = (API ∈ {capability .send(ev) 5/8, capability .send_async().await 2/8, command API 1/8}) × request (9 methods, "
            "body on POST/PUT/PATCH and 1/6 of the others, 0-2 headers) × middleware stack (length 0-7, for the capability APIs split at a "
            "random point into client middleware — installed through the cfg(crux_verif) hook Http::verif_with_client_middleware — and "
            "per-request middleware; kinds pass, tag "
            "(request-modifying), short-circuit with a canned response, short-circuit with an error, twice (next.run called twice), "
            "issue (extra GET through the inner client, optionally itself with Redirect), the real Redirect::new(n) with n in 0..=5, "
            "up to 3 Redirects per stack, at any position) × server table (0-9 rows: redirect chains from the request URL built from "
            "absolute, relative (z, z/, ./, ../, ../.., ?q, #f, empty, /abs, //host scheme-relative …), unnormalised, non-http and "
            "malformed Locations; loops back into the table; chains longer than the limit; 301/302/303/307/308 and 200/201/204/"
            "300/304/4xx/5xx; missing and repeated Location headers; Location on non-redirect answers; io/timeout errors) × the "
            "url::Url::parse / Url::join results for every (base, Location) a walk over the table can need, precomputed with the real "
            "url crate and re-checked by `run`; a real Core<App> builds the request with the stack through the real builders, the "
            "harness answers each HttpRequest effect from the table and logs marks and requests in one sequence; non-trivial = at "
            "least one middleware attached; distinct = distinct (api, method, kinds of the client stack, kinds of the request stack, "
            "#requests at the shell, #enter marks, outcome class)",
    "level_text": "Proof (21 theorems over the model M.Mw of Next::run, Client::send, Redirect::handle and the three sending APIs; all "
                  "quantify over every stack, every server function Url -> answer, arbitrary parse/join, every attempt limit and "
                  "request): mw_order, mw_order_passThrough (enter c1..cn, enter r1..rm, SHELL, exit rm..c1), endpoint_once, "
                  "endpoint_once_inner_client, endpoint_once_passThrough, endpoint_count (shell reached mult(stack) times for stacks of non-sending middleware), "
                  "endpoint_zero_below_short/_fail, redirect_bounded (probes <= attempts, all body-less copies), redirect_stops, "
                  "redirect_final (+_url), C16_fixed (soundness against the oracle S.Mw.ok for the repaired redirect loop). FULL "
                  "statements refuted from concrete witnesses: redirect_relative false (redirect_relative_false; key "
                  "redirect-relative-base) with redirect_relative_partial (no relative hop after a relative hop) and "
                  "redirect_relative_fixed (full, for the one-line repair); mw_all_apis (mw_all_apis_false; key "
                  "command-api-ignores-middleware) with mw_all_apis_partial; C16_full (C16_full_false, C16_full_false_redirect) "
                  "with C16_partial for the code as it is. Driver/Mw.lean runs the `fixed = false` variant against the code "
                  "(constant repoHasRedirectFix).",
    "level_note": "Trusted: Lean kernel + 3 standard axioms; hand model M.Mw (checked against the real crux_http through a real Core on "
                  "40k (quick) / 600k (thorough) generated cases per run); url::Url::parse/join are opaque (their results for the case "
                  "are supplied by the generator from the real crate and verified again by the harness); http-types Request::clone "
                  "(drops the body) and header map modelled as a list; the middleware kinds are those of harness/src/bin/mw.rs. "
                  "Client middleware can only be installed through the cfg(crux_verif) hook Http::verif_with_client_middleware "
                  "(Client::with is pub(crate) dead code in the public API); the command API has no client at all.",
    "assumptions": [
        "the shell answers as a function of the request URL (stateless server) with a status of the http-types table",
        "header names/values and Location values are ASCII (non-ASCII response headers panic: C15)",
        "middleware behave as one of the seven kinds of the harness (arbitrary user middleware is outside any model)",
    ],
}


# ---- C20 (engine cli) -------------------------------------------------------------------------------------------
CLI_N = {"quick": 20, "thorough": 400}
CLI_FIXTURES = 7          # bridge_echo cat_facts counter hello_world notes simple_counter tap_to_pay
CLI_ORDERS = 120 + 6 + 2 + 1 + 1 + 1 + 1   # 5!, 3!, 2!, 1 … orders of the dependent crates of the seven fixtures (all are run)
CLI_PROTO_TYPES = 18


def cli_gen(tier, seed):
    return [["gen", seed, CLI_N.get(tier, 20), "all-orders"]]


def cli_proto_gen(tier, seed):
    return [["gen-proto"]]


def cli_shape(case, out):
    # distinct = distinct (stream, fixture, variant / protocol type)
    return tuple(case.split(" ", 3)[:3])


def cli_nontrivial(case, out):
    # non-trivial: the real CLI produced a registry / a container for the case
    return out.startswith("ok ")


def cli_counts(tier):
    n = CLI_N[tier]
    return (f"{tier}: {CLI_FIXTURES} originals + {CLI_FIXTURES}x{n} renumberings + {CLI_FIXTURES}x{n // 2} map-order shuffles + "
            f"{CLI_FIXTURES}x{n // 2} mixed + {CLI_ORDERS} crate orders = {CLI_FIXTURES * (1 + 2 * n) + CLI_ORDERS} registry cases, "
            f"{CLI_PROTO_TYPES} protocol-type cases")


PROPS["C20"] = {
    "streams": [Stream("reg", "cli", "cli", cli_gen, nontrivial=cli_nontrivial, shape=cli_shape),
                Stream("proto", "cli", "cli", cli_proto_gen, nontrivial=cli_nontrivial, shape=cli_shape)],
    "rule": "stream reg: for each of the 7 bundled rustdoc descriptions (bridge_echo, cat_facts, counter, hello_world, simple_counter, "
            "and notes, tap_to_pay whose stored expectation is stale and is not used) the harness builds variants of the FULL "
            "rustdoc JSON of the crate and of every dependent crate the CLI loads: id = as bundled; renum:<seed> = every item id, "
            "wherever it occurs (values and map keys, found by a schema-agnostic serde pass), sent through a random injective map "
            "per crate (three regimes: permutation of the ids in use / sparse range / whole u32 range incl. 0 and 2^32-1); "
            "shuf:<seed> = JSON re-serialised with the keys of every object in random order and re-parsed; mix:<seed> = both plus "
            "a random forced crate order; order:<perm> = the dependent crates loaded in that order (every permutation; the loop of "
            "`run` is replayed with the next crate chosen by the harness). Every case runs the real private `run` twice on freshly "
            "hashed maps (so item/summary/crate visiting orders differ between the two) plus the forced-order loop where one is "
            "given; an observation is printed only if all runs agree (else `nondet`). The case carries the registry the real CLI "
            "gives for the ORIGINAL fixture (the oracle demands equality with it, closedness, contiguous variant indices, "
            "declaration order) and the abstract description of the VARIANT regenerated by the harness, from which the Lean model "
            "M.Codegen.registry computes its registry (diffed with the real one). stream proto: one case per capability protocol "
            "type (crux_http, crux_kv, crux_time, crux_platform, render): container traced by serde-reflection 0.4 from the real "
            "type (as crux_core::typegen does) vs the container of that name in the registry the real CLI derives for a bundled "
            "app using the capability. Counts — " + cli_counts("quick") + "; " + cli_counts("thorough") + " (`evaluations` below is the "
            "measured total of the run, `tier` says which line applies). non-trivial = the real CLI produced a registry/container; "
            "distinct = distinct (stream, fixture, variant or protocol type)",
    "level_text": "Proof (formatter stage, for ANY edge relation, not only the fixtures): variant_indices, perm_invariant_partial, "
                  "renumber_invariant_fmt, closed_partial, with the full statements kept as `def … : Prop`; the reachability filter "
                  "(ascent rules of filter.rs) and the crate loading loop are modelled executably (M.Codegen.Crate.edges, load) and "
                  "checked against the real CLI on every run, their invariance is checked by the oracle on the real code, not proved.",
    "level_note": "Trusted: Lean kernel + 3 standard axioms; the hand model M.Codegen of mod.rs/filter.rs/formatter.rs/node.rs/item.rs/"
                  "serde/case.rs (tied to the working tree on every run: the harness compiles /repo/crux_cli/src/codegen by path and "
                  "diffs its registry with the model's for every variant); ascent's evaluation as a least fixpoint whose facts "
                  "accumulate over `process` calls; the harness's projection of rustdoc JSON to the abstract description (relevant "
                  "items, summaries and external crates they mention; serde attribute patterns copied from the code) — a wrong "
                  "projection shows as a disagreement because the real CLI always gets the full JSON; serde-reflection's tracer "
                  "(its output is one side of the protocol comparison). The bundled crux_*.json descriptions are snapshots: the "
                  "protocol comparison is between them and the CURRENT real types. Hash-map iteration orders inside the real CLI "
                  "cannot be forced, only re-drawn (two draws per case).",
    "assumptions": [
        "item ids are unique per crate and child id lists are duplicate free (checked on every case; rustdoc's index is a map)",
        "identifiers are ASCII (case conversion of rename_all is modelled on ASCII letters)",
        "a loader that cannot produce a requested crate fails the run (as the repository's test loader does)",
    ],
}
ENGINE_TEXT_C20 = ("the real crux_cli::codegen (private run/Filter/format, compiled from /repo's working tree by path) on bundled rustdoc "
                   "descriptions and their renumbered / re-ordered variants vs M.Codegen (Lean), oracle S.Codegen; serde-reflection "
                   "trace of the real protocol types")

# properties not claimed yet, with the reason shown in MANIFEST.not_applicable
NOT_YET = {}
ENGINE_TEXT = {
    "cli": ENGINE_TEXT_C20,
    "mw": "real crux_http middleware stacks + Redirect through a real Core<App>, harness as shell (Rust) vs M.Mw (Lean), oracle S.Mw",
    "kv": "real crux_kv calls (capability + command API; Core and bincode Bridge hosts) vs M.Kv (Lean), oracle S.Kv",
    "conv": "differential driver for crux_time::protocol conversions (Rust) vs M.Conv (Lean), oracle S.Conv",
}
HOOK_COMMITS = []
