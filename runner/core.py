"""Runner core: builds the Lean proofs and the Rust harness, runs the
correspondence check and the oracle, classifies what it finds, shrinks failing
cases, writes evidence and prints KNOWN-FINDING / VIOLATION lines.

Nothing in here knows about a particular property; see props.py."""
import hashlib
import json
import os
import re
import subprocess
import sys
import time

ROOT = os.path.dirname(os.path.dirname(os.path.abspath(__file__)))
LEAN = os.path.join(ROOT, "lean")
# The registered checks always use /verif/harness (which depends on /repo by path). For mutation experiments on a scratch
# worktree, tools/mutant_check.sh points these at a copy of the harness whose path dependencies are rewritten, and at a
# scratch output directory, so that neither /repo nor the committed evidence is touched.
HARNESS = os.environ.get("VERIF_HARNESS_DIR", os.path.join(ROOT, "harness"))
OUT = os.environ.get("VERIF_OUT_DIR", ROOT)
DRV = os.path.join(LEAN, ".lake", "build", "bin", "cruxdrv")
ALLOWED_AXIOMS = {"propext", "Classical.choice", "Quot.sound"}
FORBIDDEN = re.compile(
    r"\b(sorry|admit|native_decide|bv_decide|implemented_by|unsafe)\b|^\s*axiom\s|maxHeartbeats\s+0\b",
    re.M,
)
TRUSTED_BASE = [
    "Lean 4.33.0 kernel (theorems re-checked by `lake build`; leanchecker in the thorough tier)",
    "axioms allowed in property theorems: propext, Classical.choice, Quot.sound (measured by #print axioms on every run)",
    "hand-written Lean model of the anchored Rust code, tied to /repo's working tree by this run's correspondence check (same cases through the real code and the compiled model, outputs diffed)",
    "Lean compiler/runtime executing the model definitions in cruxdrv",
    "the Rust harness (case generators, canonical printing, panic capture)",
]


def env():
    e = dict(os.environ)
    e["CARGO_NET_OFFLINE"] = "true"
    e.pop("RUSTFLAGS", None)  # harness/.cargo/config.toml sets --cfg crux_verif
    return e


def sh(cmd, cwd=None, inp=None, timeout=None):
    p = subprocess.run(
        cmd, cwd=cwd, input=inp, capture_output=True, text=True, env=env(), timeout=timeout
    )
    return p.returncode, p.stdout, p.stderr


def strip_lean_comments(src):
    # remove /- ... -/ (nested) and -- comments; keep strings roughly intact
    out, i, depth = [], 0, 0
    while i < len(src):
        if src.startswith("/-", i):
            depth += 1
            i += 2
        elif depth and src.startswith("-/", i):
            depth -= 1
            i += 2
        elif depth:
            i += 1
        elif src.startswith("--", i):
            j = src.find("\n", i)
            i = len(src) if j < 0 else j
        else:
            out.append(src[i])
            i += 1
    return "".join(out)


def lean_sources_of(module):
    """transitive CruxVerif.* / Driver.* imports of a module (files in /verif/lean)"""
    seen, todo = [], [module]
    while todo:
        m = todo.pop()
        if m in seen:
            continue
        path = os.path.join(LEAN, *m.split(".")) + ".lean"
        if not os.path.exists(path):
            continue
        seen.append(m)
        for line in open(path):
            mm = re.match(r"\s*import\s+((?:CruxVerif|Driver)\.[\w.]+)", line)
            if mm:
                todo.append(mm.group(1))
    return seen


class Proof:
    """result of building and auditing the theorems of one property"""

    def __init__(self):
        self.obligations = 0
        self.discharged = 0
        self.theorems = {}  # name -> list of axioms / None when missing
        self.problems = []  # strings "thm:<name> ..." or "build: ..."
        self.cmd = ""


def build_lean(pid, log):
    pr = Proof()
    prop_mod = f"CruxVerif.Props.{pid}"
    audit = os.path.join("CruxVerif", "Audit", f"{pid}.lean")
    pr.cmd = f"cd lean && lake build {prop_mod} cruxdrv && lake env lean {audit}"
    rc, out, err = sh(["lake", "build", prop_mod, "cruxdrv"], cwd=LEAN)
    log.write(out + err)
    if rc != 0:
        first = next((l for l in (out + err).splitlines() if "error" in l), "lake build failed")
        pr.problems.append(f"build:{prop_mod} {first.strip()}")
    # theorems the audit file lists
    listed = re.findall(r"#print axioms\s+(\S+)", open(os.path.join(LEAN, audit)).read())
    pr.obligations = len(listed)
    if rc == 0:
        rc2, out2, err2 = sh(["lake", "env", "lean", audit], cwd=LEAN)
        log.write(out2 + err2)
        txt = (out2 + err2).replace("\n  ", " ")
        for name in listed:
            m = re.search(
                r"'" + re.escape(name) + r"' (does not depend on any axioms|depends on axioms: \[([^\]]*)\])",
                txt.replace("\n", " "),
            )
            if not m:
                pr.theorems[name] = None
                pr.problems.append(f"thm:{name} not found by the audit")
                continue
            axs = [a.strip() for a in (m.group(2) or "").split(",") if a.strip()]
            pr.theorems[name] = axs
            bad = [a for a in axs if a not in ALLOWED_AXIOMS]
            if bad:
                pr.problems.append(f"thm:{name} depends on axioms {bad}")
            else:
                pr.discharged += 1
        # source scan over everything the property module imports from this project
        for m in lean_sources_of(prop_mod):
            path = os.path.join(LEAN, *m.split(".")) + ".lean"
            src = strip_lean_comments(open(path).read())
            hit = FORBIDDEN.search(src)
            if hit:
                pr.problems.append(f"source:{m} contains forbidden token {hit.group(0).strip()!r}")
                pr.discharged = 0
    return pr


def leanchecker(pid, log):
    mods = lean_sources_of(f"CruxVerif.Props.{pid}")
    rc, out, err = sh(["lake", "env", "leanchecker"] + mods, cwd=LEAN, timeout=1800)
    log.write(out + err)
    return rc == 0, mods


def build_harness(bins, log):
    cmd = ["cargo", "build", "--offline", "--release"]
    for b in bins:
        cmd += ["--bin", b]
    rc, out, err = sh(cmd, cwd=HARNESS)
    log.write(out + err)
    if rc != 0:
        errs = [l for l in err.splitlines() if l.startswith("error")]
        return False, (errs[0] if errs else "cargo build failed")
    return True, ""


def bin_path(b):
    return os.path.join(HARNESS, "target", "release", b)


def run_lines(cmd, lines, timeout=3600):
    """feed lines to a process, return its output lines (must be one per input line)"""
    inp = "".join(l + "\n" for l in lines)
    rc, out, err = sh(cmd, inp=inp, timeout=timeout)
    res = out.split("\n")
    if res and res[-1] == "":
        res.pop()
    return rc, res, err


class Stream:
    """One correspondence stream: cases → implementation, model, oracle."""

    def __init__(self, name, bin, engine, gen_cmds, impl_args=("run",), nontrivial=None, shape=None, shrink=None,
                 compare_model=True):
        self.name = name  # e.g. "conv"
        self.bin = bin  # harness binary
        self.engine = engine  # cruxdrv engine name
        self.gen_cmds = gen_cmds  # fn(tier, seed) -> list of argv tails for the harness binary
        self.impl_args = list(impl_args)
        self.nontrivial = nontrivial or (lambda case, out: True)
        self.shape = shape or (lambda case, out: case)
        self.shrink = shrink  # fn(case) -> list of smaller candidate cases
        # False: the stream has no exact model (e.g. real-thread interleavings); only the oracle decides
        self.compare_model = compare_model


def known_findings():
    path = os.path.join(ROOT, "KNOWN_FINDINGS.txt")
    res = {}
    if os.path.exists(path):
        for line in open(path):
            m = re.match(r"finding:\s+property=(\S+)\s+key=(\S+)\s+(.*)", line.strip())
            if m:
                res[(m.group(1), m.group(2))] = m.group(3)
    return res


def evaluate(stream, cases):
    """returns (impl, model, oracle) line lists"""
    rc, impl, err = run_lines([bin_path(stream.bin)] + stream.impl_args, cases)
    if len(impl) != len(cases):
        # the harness process died (abort, stack overflow, ...): find the case by bisection; a case that kills the harness on
        # its own is reported as such (the oracle rejects the line), the others are evaluated normally
        if len(cases) == 1:
            impl = [f"harness-died rc={rc} {err.strip().splitlines()[-1][:120] if err.strip() else ''}"]
        else:
            mid = len(cases) // 2
            a = evaluate(stream, cases[:mid])
            b = evaluate(stream, cases[mid:])
            return a[0] + b[0], a[1] + b[1], a[2] + b[2]
    if stream.compare_model:
        rc, model, err = run_lines([DRV, "model", stream.engine], cases)
        if len(model) != len(cases):
            raise RuntimeError(f"cruxdrv model {stream.engine}: {len(model)} lines for {len(cases)} cases: {err[-2000:]}")
    else:
        model = list(impl)
    rc, oracle, err = run_lines([DRV, "oracle", stream.engine], [c + "\t" + i for c, i in zip(cases, impl)])
    if len(oracle) != len(cases):
        raise RuntimeError(f"cruxdrv oracle {stream.engine}: {len(oracle)} lines for {len(cases)} cases: {err[-2000:]}")
    return impl, model, oracle


def shrink_case(stream, case, still_bad, rounds=40):
    """greedy batch shrinking: still_bad(list of cases) -> list of bool"""
    if stream.shrink is None:
        return case
    cur = case
    t_end = time.time() + float(os.environ.get("VERIF_SHRINK_BUDGET_S", "90"))
    for _ in range(rounds):
        if time.time() > t_end:
            break  # very large cases (e.g. a burst of >1000 requests): report what we have
        cands = [c for c in stream.shrink(cur) if c != cur]
        # each round evaluates every candidate: keep a round affordable for huge cases
        cap = max(8, min(400, 200000 // max(1, len(cur))))
        if len(cands) > cap:
            cands = cands[:: max(1, len(cands) // cap)][:cap]
        if not cands:
            break
        flags = still_bad(cands)
        nxt = next((c for c, f in zip(cands, flags) if f), None)
        if nxt is None:
            break
        cur = nxt
    return cur


def int_shrinks(case):
    """candidates for whitespace-separated cases whose fields are integers"""
    toks = case.split(" ")
    out = []
    for i, t in enumerate(toks):
        if re.fullmatch(r"-?\d+", t):
            v = int(t)
            for w in {0, 1, -1, v // 2, v // 10, v - 1 if v > 0 else v + 1, 10 ** (len(str(abs(v))) - 1)}:
                if abs(w) < abs(v) or (w == 0 and v != 0):
                    out.append(" ".join(toks[:i] + [str(w)] + toks[i + 1 :]))
    return out


def run_property(pid, cfg, tier, seed, replay=None):
    t0 = time.time()
    work = os.path.join(OUT, "work", pid)
    os.makedirs(work, exist_ok=True)
    os.makedirs(os.path.join(OUT, "evidence"), exist_ok=True)
    log = open(os.path.join(work, "log.txt"), "w")
    violations = []  # (replay path, suffix)
    known_seen = {}
    kf = known_findings()

    proof = build_lean(pid, log)
    checker_ok = None
    if tier == "thorough" and not proof.problems:
        checker_ok, mods = leanchecker(pid, log)
        if not checker_ok:
            proof.problems.append("leanchecker rejected " + " ".join(mods))

    streams = cfg["streams"]
    ok, msg = build_harness(sorted({s.bin for s in streams}), log)
    if not ok:
        # the tree no longer compiles against the harness: nothing can be shown
        path = write_replay(pid, "build", {"kind": "harness-build-failure", "message": msg,
                                           "names": f"corr:{pid}:build"})
        print(f"VIOLATION property={pid} replay={path} no-failing-input-found")
        write_evidence(pid, cfg, tier, seed, proof, [], t0, 1, {}, checker_ok)
        return 1

    stats = []
    escalate = bool(proof.problems)
    for s in streams:
        st = {"stream": s.name, "evaluations": 0, "disagreements": 0, "oracle_rejections": 0,
              "known_findings_seen": 0, "shapes": set(), "samples": [], "classes": {}}
        stats.append(st)
        # cases: replay file, or corpus first then generated
        cases = []
        if replay:
            cases = [l.rstrip("\n") for l in open(replay) if l.strip() and not l.startswith("#")]
        else:
            cdir = os.path.join(ROOT, "corpus", pid)
            if os.path.isdir(cdir):
                for f in sorted(os.listdir(cdir)):
                    if f.endswith(f".{s.name}.case"):
                        cases += [l.rstrip("\n") for l in open(os.path.join(cdir, f)) if l.strip() and not l.startswith("#")]
            st["corpus_cases"] = len(cases)
            for g in s.gen_cmds("thorough" if escalate else tier, seed):
                # VERIF_SCALE=k multiplies the number of generated cases (soak runs; not used by the registered commands)
                scale = int(os.environ.get("VERIF_SCALE", "1"))
                if scale != 1 and len(g) >= 3 and str(g[0]).startswith("gen") and not str(g[0]).startswith("gen-exh") \
                        and isinstance(g[2], int):
                    g = list(g)
                    g[2] = g[2] * scale
                rc, out, err = sh([bin_path(s.bin)] + [str(x) for x in g])
                if rc != 0:
                    raise RuntimeError(f"generator {s.bin} {g} failed: {err[-2000:]}")
                cases += [l for l in out.split("\n") if l]
        impl, model, oracle = evaluate(s, cases)
        st["evaluations"] = len(cases)
        # input distribution: how many cases contain each construct (head atoms of S-expression cases, first word otherwise)
        feats = {}
        for c in cases:
            heads = set(re.findall(r"\((\w[\w-]*)", c)) if c.startswith("(") else {c.split(" ", 1)[0]}
            for h in heads:
                feats[h] = feats.get(h, 0) + 1
        st["input_constructs"] = dict(sorted(feats.items(), key=lambda kv: -kv[1])[:60])
        st["case_length"] = {"min": min(map(len, cases), default=0), "max": max(map(len, cases), default=0),
                             "mean": round(sum(map(len, cases)) / max(1, len(cases)), 1)}
        bad_oracle, bad_corr = [], []
        for c, i, m, o in zip(cases, impl, model, oracle):
            cls = i.split(" ")[0]
            st["classes"][cls] = st["classes"].get(cls, 0) + 1
            if s.nontrivial(c, i):
                st["shapes"].add(s.shape(c, i))
            if o != "ok":
                bad_oracle.append((c, i, m, o))
            elif i != m:
                bad_corr.append((c, i, m, o))
        st["disagreements"] = len(bad_corr) + sum(1 for (c, i, m, o) in bad_oracle if i != m)
        st["oracle_rejections"] = len(bad_oracle)
        # a few samples: first, middle, last + first of each class
        picks = sorted({0, len(cases) // 2, len(cases) - 1} & set(range(len(cases))))
        st["samples"] = [{"case": cases[k], "impl": impl[k], "model": model[k], "oracle": oracle[k]} for k in picks]

        # oracle rejections: classify by key
        by_key = {}
        for rec in bad_oracle:
            key = rec[3].split(" ", 1)[1] if " " in rec[3] else rec[3]
            by_key.setdefault(key, []).append(rec)
        for key, recs in by_key.items():
            if (pid, key) in kf and not key.startswith("bad-case"):
                known_seen[key] = (kf[(pid, key)], recs[0])
                st["known_findings_seen"] += len(recs)
                # a known finding is a defect the model reproduces: if implementation and model differ on such a case the
                # listed finding does not explain the observation, so it is still a correspondence break
                bad_corr += [r for r in recs if r[1] != r[2]]
                continue
            c, i, m, o = recs[0]

            def still(cands, key=key):
                ii, mm, oo = evaluate(s, cands)
                return [x != "ok" and (x.split(" ", 1) + [""])[1] == key for x in oo]

            small = shrink_case(s, c, still)
            ii, mm, oo = evaluate(s, [small])
            path = write_replay(pid, f"{s.name}-{short(small)}", {
                "kind": "oracle-rejection", "property": pid, "stream": s.name, "key": key,
                "case": small, "impl": ii[0], "model": mm[0], "oracle": oo[0],
                "original_case": c, "count_with_this_key": len(recs), "seed": seed,
                "replay_cmd": f"./check {pid} --replay <this file>.case"}, case=small)
            violations.append((path, ""))
        # correspondence breaks the oracle accepts
        if bad_corr:
            c, i, m, o = bad_corr[0]

            def still2(cands):
                ii, mm, oo = evaluate(s, cands)
                # a candidate that is no longer a well-formed case (either side says so) is not a smaller witness
                return [a != b and "bad-case" not in a and "bad-case" not in b for a, b in zip(ii, mm)]

            small = shrink_case(s, c, still2)
            ii, mm, oo = evaluate(s, [small])
            # search around the divergence with the thorough budget for an oracle rejection
            found = None
            if tier != "thorough" and not escalate and not replay:
                extra = []
                for g in s.gen_cmds("search", seed + 1):
                    rc, out, err = sh([bin_path(s.bin)] + [str(x) for x in g])
                    extra += [l for l in out.split("\n") if l]
                if extra:
                    ei, em, eo = evaluate(s, extra)
                    for cc, xi, xo in zip(extra, ei, eo):
                        key = xo.split(" ", 1)[1] if " " in xo else xo
                        if xo != "ok" and (pid, key) not in kf:
                            found = (cc, xi, xo)
                            break
                    st["search_evaluations"] = len(extra)
            if found:
                fkey = found[2].split(" ", 1)[1] if " " in found[2] else found[2]

                def still3(cands, key=fkey):
                    ii, mm, oo = evaluate(s, cands)
                    return [x != "ok" and (x.split(" ", 1) + [""])[1] == key for x in oo]

                fsmall = shrink_case(s, found[0], still3)
                fi, fm, fo = evaluate(s, [fsmall])
                path = write_replay(pid, f"{s.name}-{short(fsmall)}", {
                    "kind": "oracle-rejection", "property": pid, "stream": s.name, "key": fkey,
                    "case": fsmall, "impl": fi[0], "model": fm[0], "oracle": fo[0], "original_case": found[0],
                    "seed": seed, "found_by": "search after correspondence break", "diverging_case": small}, case=fsmall)
                violations.append((path, ""))
            else:
                path = write_replay(pid, f"{s.name}-corr-{short(small)}", {
                    "kind": "correspondence-break", "names": f"corr:{pid}:{s.name}",
                    "explanation": "implementation and model disagree; the specification oracle accepts the implementation's observation on every case searched, so no input is known on which the property fails, but the property is no longer shown to hold for this code",
                    "case": small, "impl": ii[0], "model": mm[0], "oracle": oo[0],
                    "disagreeing_cases": len(bad_corr), "seed": seed}, case=small)
                violations.append((path, " no-failing-input-found"))

    if proof.problems:
        has_input = any(sfx == "" for _, sfx in violations)
        if not has_input:
            path = write_replay(pid, "proof", {"kind": "proof-obligation-broken", "names": proof.problems,
                                               "explanation": "a theorem of this property does not check (or uses a forbidden axiom / sorry); the correspondence and oracle were run with the thorough budget and found no failing input"})
            violations.append((path, " no-failing-input-found"))

    for key, (text, rec) in sorted(known_seen.items()):
        print(f"KNOWN-FINDING: property={pid} key={key} {text} [e.g. case: {rec[0][:200]}]")
    violations = list(dict.fromkeys(violations))
    for path, sfx in violations:
        print(f"VIOLATION property={pid} replay={path}{sfx}")
    write_evidence(pid, cfg, tier, seed, proof, stats, t0, len(violations), known_seen, checker_ok)
    if replay:
        for st in stats:
            for smp in st["samples"]:
                print(json.dumps(smp))
    return 1 if violations else 0


def short(s):
    return hashlib.sha1(s.encode()).hexdigest()[:10]


def write_replay(pid, tag, obj, case=None):
    d = os.path.join(OUT, "replays")
    os.makedirs(d, exist_ok=True)
    path = os.path.join(d, f"{pid}-{tag}.json")
    json.dump(obj, open(path, "w"), indent=1)
    if case is not None:
        open(path + ".case", "w").write(case + "\n")
    return path


def write_evidence(pid, cfg, tier, seed, proof, stats, t0, nviol, known_seen, checker_ok):
    ev = sum(s["evaluations"] for s in stats)
    shapes = sum(len(s["shapes"]) for s in stats)
    samples = []
    for s in stats:
        samples += s["samples"]
    samples += [{"theorem": n, "axioms": a} for n, a in list(proof.theorems.items())[:3]]
    cov = {
        "obligations": proof.obligations,
        "discharged": proof.discharged,
        "checker_cmd": proof.cmd + (" && lake env leanchecker <modules>" if checker_ok is not None else ""),
        "trusted_base": TRUSTED_BASE + cfg.get("trusted_extra", []),
        "theorems": proof.theorems,
        "proof_problems": proof.problems,
        "stated_not_proved": cfg.get("stated_not_proved", []),
        "evaluations": ev,
        "distinct_nontrivial": shapes,
        "rule": cfg.get("rule", ""),
        "samples": samples,
        "traces_validated_against_impl": ev,
        "disagreements_checked": ev,
        "model_impl_disagreements": sum(s["disagreements"] for s in stats),
        "oracle_rejections": sum(s["oracle_rejections"] for s in stats),
        "known_findings_seen": sorted(known_seen.keys()),
        "streams": [
            {k: (len(v) if isinstance(v, set) else v) for k, v in s.items() if k != "samples"} for s in stats
        ],
        "leanchecker": checker_ok,
        "exhaustive": False,
    }
    obj = {
        "property_id": pid,
        "tier": tier,
        "seed": seed,
        "level": "proof",
        "coverage": cov,
        "assumptions": cfg.get("assumptions", []),
        "wall_s": round(time.time() - t0, 2),
        "violations": nviol,
    }
    json.dump(obj, open(os.path.join(OUT, "evidence", f"{pid}.json"), "w"), indent=1)
